#!/bin/sh
# Thorough tier of one property:  ./thorough.sh <Cxx>     (normally reached through ./check <Cxx> thorough)
#  1. property-based engine with the thorough case counts (release profile)
#  2. reduced pass under release + debug-assertions + overflow-checks (arms the crate's debug_assert!s and
#     turns silent wrap-around in the bit-slicing code into a visible failure)
#  3. bounded libFuzzer campaigns for the byte-oriented properties
#  4. ThreadSanitizer pass for C20
# Extra passes are merged into evidence/<Cxx>.json. Exit 0 / 1 (VIOLATION) / 2 (INCONCLUSIVE).
ID="$1"
ROOT="$(cd "$(dirname "$0")" && pwd)"
export VERIF_ROOT="$ROOT" CARGO_NET_OFFLINE=true
SEED="${VERIF_SEED:-0}"
BIN="$ROOT/harness/target/release/verif-pbt"
TMPD="$ROOT/harness/target/thorough-tmp"; mkdir -p "$TMPD"
cd "$ROOT/harness" || exit 2

"$BIN" run "$ID" thorough; RC=$?
[ $RC -ne 0 ] && exit $RC

# 2. debug-assertion / overflow-check pass
if cargo build --profile relcheck -p verif-pbt >"$ROOT/harness/build-relcheck.log" 2>&1; then
    VERIF_EVIDENCE_SUFFIX=".relcheck" VERIF_SEED=$((SEED + 1000003)) "$ROOT/harness/target/relcheck/verif-pbt" run "$ID" quick; RC2=$?
    if [ $RC2 -eq 1 ]; then
        echo "(violation found by the debug-assertion / overflow-check pass)"
        exit 1
    fi
    if [ $RC2 -eq 0 ] && [ -f "$ROOT/evidence/$ID.relcheck.json" ]; then
        python3 - "$ROOT/evidence/$ID.relcheck.json" "$TMPD/$ID-relcheck.json" <<'PY'
import json,sys
e=json.load(open(sys.argv[1])); c=e["coverage"]
json.dump({"profile": c.get("profile"), "evaluations": c["evaluations"], "distinct_nontrivial": c["distinct_nontrivial"], "seed": e["seed"], "wall_s": e["wall_s"],
           "subchecks": [{k: s[k] for k in ("name","evaluations","distinct_nontrivial")} for s in c["subchecks"]]}, open(sys.argv[2],"w"))
PY
        "$BIN" attach "$ID" debug_assertion_pass "$TMPD/$ID-relcheck.json"
    fi
    rm -f "$ROOT/evidence/$ID.relcheck.json"
else
    echo "relcheck profile build failed: pass skipped (recorded)"; echo '{"skipped": "build failed", "evaluations": 0}' > "$TMPD/$ID-relcheck.json"; "$BIN" attach "$ID" debug_assertion_pass "$TMPD/$ID-relcheck.json"
fi

# 3. fuzz campaigns
fuzz() { # target runs max_len
    "$ROOT/tools/fuzz_campaign.sh" "$ID" "$1" "$2" "$3" "$TMPD/$ID-fuzz-$1.json"; FRC=$?
    [ -f "$TMPD/$ID-fuzz-$1.json" ] && "$BIN" attach "$ID" "fuzz_$1" "$TMPD/$ID-fuzz-$1.json"
    [ $FRC -eq 1 ] && exit 1
}
case "$ID" in
    C04|C05) fuzz decode 12000 193 ;;
    C19) fuzz serdes 12000 600 ;;
    C13) fuzz expand 60000 400 ;;
    C08|C09|C18) fuzz field 40000 1300 ;;
esac

# 4. ThreadSanitizer pass
if [ "$ID" = "C20" ]; then
    "$ROOT/tools/tsan_pass.sh" "$TMPD/$ID-tsan.json"; TRC=$?
    [ -f "$TMPD/$ID-tsan.json" ] && "$BIN" attach "$ID" tsan_pass "$TMPD/$ID-tsan.json"
    [ $TRC -eq 1 ] && exit 1
fi
exit 0
