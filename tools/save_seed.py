#!/usr/bin/env python3
"""usage: tools/save_seed.py <id> <deliverables-dir> <detected_by> <note>
Copies a confirmed seeded change into /verif/seeded/<id>/ (patch.diff, demo.rs, meta.json)."""
import json, os, shutil, sys, re
sid, src, detected_by, note = sys.argv[1], sys.argv[2], sys.argv[3], sys.argv[4]
prop = re.match(r'(C\d+)', sid).group(1)
dst = os.path.join('/verif/seeded', sid)
os.makedirs(dst, exist_ok=True)
shutil.copy(os.path.join(src, 'patch.diff'), os.path.join(dst, 'patch.diff'))
shutil.copy(os.path.join(src, 'demo.rs'), os.path.join(dst, 'demo.rs'))
agent = {}
try:
    agent = json.load(open(os.path.join(src, 'meta.json')))
except Exception as e:
    agent = {"note": "agent meta.json unreadable: %s" % e}
confirm = open(os.path.join(src, 'confirm.log')).read() if os.path.exists(os.path.join(src, 'confirm.log')) else ''
verdict = [l for l in confirm.splitlines() if l.startswith('VERDICT')]
meta = {
    "id": sid,
    "breaks_property": prop,
    "origin": "independent sub-agent given only the property text and a scratch worktree of /repo (nothing from /verif)",
    "summary": agent.get("summary"),
    "needs_to_manifest": agent.get("needs_to_manifest"),
    "files_touched": agent.get("files_touched"),
    "demo": "demo.rs = integration test tests/demo_%s.rs; fails with patch.diff applied, passes without" % prop,
    "confirmed_by_me": {
        "how": "tools/confirm_seed.sh %s: fresh scratch worktree of /repo HEAD; demo without patch, demo with patch, pinned suite (cargo test --lib, skipping the 3 tests outside the pinned baseline) with patch" % sid,
        "verdict": verdict[-1] if verdict else "not run",
        "log": [l for l in confirm.splitlines() if l.strip()][:14],
    },
    "checks_run_against_it": "git -C /repo apply patch.diff; ./check <id> quick; git -C /repo checkout -- .  (tools/try_patch.sh)",
    "detected_by_quick_checks": detected_by.split(','),
    "note": note,
}
json.dump(meta, open(os.path.join(dst, 'meta.json'), 'w'), indent=1)
print("saved", dst, meta["confirmed_by_me"]["verdict"])
