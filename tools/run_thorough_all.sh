#!/bin/sh
# usage: tools/run_thorough_all.sh [ids...]  -- runs the thorough tier of the given (default: all) properties
cd "$(dirname "$0")/.." || exit 2
IDS="$*"; [ -z "$IDS" ] && IDS="C01 C02 C03 C04 C05 C06 C07 C08 C09 C10 C11 C12 C13 C14 C15 C16 C17 C18 C19 C20"
./check setup
for i in $IDS; do
  s=$(date +%s)
  ./check $i thorough > thorough-$i.log 2>&1; rc=$?
  e=$(date +%s)
  echo "$i rc=$rc $((e-s))s :: $(grep -E '^(OK|VIOLATION|INCONCLUSIVE)' thorough-$i.log | tail -2 | tr '\n' ' ')" | cut -c1-300
done
