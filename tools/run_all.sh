#!/bin/sh
# usage: tools/run_all.sh [tier] [seed]   -- runs every check, prints one line per property (rc = exit code of the check)
TIER="${1:-quick}"; SEED="${2:-0}"
cd "$(dirname "$0")/.." || exit 2
T=$(mktemp)
for i in 01 02 03 04 05 06 07 08 09 10 11 12 13 14 15 16 17 18 19 20; do
  s=$(date +%s)
  VERIF_SEED=$SEED ./check C$i $TIER > "$T" 2>/dev/null
  rc=$?
  e=$(date +%s)
  echo "C$i rc=$rc $((e-s))s :: $(tail -1 "$T")" | cut -c1-200
done
rm -f "$T"
