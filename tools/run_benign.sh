#!/bin/sh
# usage: tools/run_benign.sh [patches...]  -- applies every behaviour-preserving variant in benign/ (isolated copy, /repo
# untouched) and runs ALL quick checks: any VIOLATION here is a false alarm of the machinery (the property still holds).
cd "$(dirname "$0")/.." || exit 2
export MUT_DIR=/tmp/mut-benign
PS="$*"; [ -z "$PS" ] && PS=$(ls benign/*.diff)
for p in $PS; do
  line="$(basename $p .diff):"
  for i in 01 02 03 04 05 06 07 08 09 10 11 12 13 14 15 16 17 18 19 20; do
    out=$(tools/try_patch_iso.sh $p C$i 2>&1 | tail -3)
    if echo "$out" | grep -q "^VIOLATION"; then line="$line C$i=ALARM($(echo "$out" | grep -v '^VIOLATION' | tail -1 | cut -c1-160))"; elif echo "$out" | grep -q "^OK property"; then line="$line C$i=ok"; else line="$line C$i=?($(echo "$out" | tail -1 | cut -c1-80))"; fi
  done
  echo "$line"
done
