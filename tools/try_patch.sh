#!/bin/sh
# usage: tools/try_patch.sh <patch.diff> <Cxx> [tier]  -- apply a seeded change to /repo, run one check, always restore
P="$(readlink -f "$1")"
cd /repo || exit 3
git status --short | grep -q . && { echo "/repo not clean"; exit 3; }
git apply "$P" || { echo "PATCH DID NOT APPLY"; exit 3; }
cd /verif && ./check "$2" "${3:-quick}" 2>&1 | grep -v "^proptest" | tail -4 | cut -c1-500
echo "exit=$?"
cd /repo && git checkout -- . && git status --short
