#!/bin/sh
# usage: tools/fuzz_campaign.sh <Cxx> <target> <runs-per-worker> <max_len> <out.json>
# Bounded libFuzzer campaign (16 workers, fixed run counts, seeds derived from VERIF_SEED) over a fresh
# working copy of corpus/<target>, plus one worker starting from an empty corpus. Every crash artifact is
# re-run through the plain binary; a reproducing one becomes a replay file and a VIOLATION line (exit 1).
ID="$1"; T="$2"; RUNS="$3"; MAXLEN="$4"; OUT="$5"
ROOT="$(cd "$(dirname "$0")/.." && pwd)"
SEED="${VERIF_SEED:-0}"
FZ="$ROOT/harness/fuzz"
BIN="$FZ/target/x86_64-unknown-linux-gnu/release/$T"
PLAIN="$ROOT/harness/target/release/verif-pbt"
START=$(date +%s)
cd "$ROOT/harness" || exit 2
if ! cargo +nightly fuzz build --fuzz-dir "$FZ" -s none "$T" >"$FZ/build-$T.log" 2>&1; then
    echo "{\"target\": \"$T\", \"engine\": \"unavailable\", \"reason\": \"cargo +nightly fuzz build failed (see harness/fuzz/build-$T.log)\", \"evaluations\": 0}" > "$OUT"
    echo "fuzz engine unavailable for $T (build failed) - recorded in the evidence, exit code decided by the property-based engine"
    exit 0
fi
WORK="$FZ/corpus-work/$T"; ART="$FZ/artifacts/$T"; EMPTY="$FZ/corpus-work/$T-empty"
rm -rf "$WORK" "$ART" "$EMPTY"; mkdir -p "$WORK" "$ART" "$EMPTY"
cp "$ROOT/corpus/$T/"* "$WORK/" 2>/dev/null
CORPUS_IN=$(ls "$WORK" | wc -l)
PIDS=""
W=0
while [ $W -lt 16 ]; do
    S=$((SEED * 16 + W + 1))
    DIR="$WORK"; [ $W -eq 15 ] && DIR="$EMPTY"
    "$BIN" "$DIR" -runs="$RUNS" -seed="$S" -len_control=0 -max_len="$MAXLEN" -artifact_prefix="$ART/w$W-" -print_final_stats=1 >"$ART/worker$W.log" 2>&1 &
    PIDS="$PIDS $!"
    W=$((W + 1))
done
for P in $PIDS; do wait $P; done
EXECS=$(grep -h "stat::number_of_executed_units" "$ART"/worker*.log | awk '{s+=$2} END {print s+0}')
CORPUS_OUT=$(ls "$WORK" | wc -l)
EMPTY_OUT=$(ls "$EMPTY" | wc -l)
COV=$(grep -h "cov:" "$ART"/worker*.log | sed 's/.*cov: \([0-9]*\).*/\1/' | sort -n | tail -1)
RC=0; NCRASH=0; REPRO=0; NOREPRO=0
for A in "$ART"/w*-crash-* "$ART"/w*-oom-* "$ART"/w*-timeout-*; do
    [ -f "$A" ] || continue
    NCRASH=$((NCRASH + 1))
    case "$A" in
      *-crash-*)
        if ! VERIF_ROOT="$ROOT" "$PLAIN" fuzz-artifact "$ID" "$T" "$A"; then REPRO=$((REPRO + 1)); RC=1; else NOREPRO=$((NOREPRO + 1)); fi ;;
      *) echo "fuzz: $A is a timeout/oom artifact: reported as inconclusive, not as a violation" ;;
    esac
done
END=$(date +%s)
cat > "$OUT" <<JSON
{"target": "$T", "engine": "libFuzzer (cargo-fuzz, sanitizer none, oracle inside the target)", "workers": 16, "runs_per_worker": $RUNS,
 "evaluations": $EXECS, "distinct_nontrivial": $((CORPUS_OUT + EMPTY_OUT)), "corpus_in": $CORPUS_IN, "corpus_out": $CORPUS_OUT, "empty_corpus_worker_out": $EMPTY_OUT,
 "max_coverage_edges": ${COV:-0}, "artifacts": $NCRASH, "reproduced_violations": $REPRO, "non_reproducing_artifacts": $NOREPRO, "planned_executions": $((RUNS * 16)), "seed_base": $SEED, "max_len": $MAXLEN, "wall_s": $((END - START)),
 "note": "distinct_nontrivial here = inputs libFuzzer kept because they reached new coverage (final corpus sizes)"}
JSON
exit $RC
