#!/usr/bin/env python3
"""Regenerates /verif/MANIFEST.json from the table below (kept in one place so the file is always valid)."""
import json, os, subprocess, sys
ROOT = os.path.dirname(os.path.dirname(os.path.abspath(__file__)))

HOOK_COMMIT = "b2411c3"

TRUST = ("Trusted base: rustc, num-bigint, sha2/sha3, proptest (and libFuzzer in the thorough tier); the reference model "
         "(/verif/harness/refmodel: BigUint fields, flat Fq12, affine chord-and-tangent law, ZCash encoding, RFC 9380, textbook ate pairing), "
         "which is self-tested at every start-up against the affine definition, four RFC 9380 appendix-J vectors and the published e(g1,g2). "
         "Generated-input search: no claim beyond the explored cases.")

# id -> (technique, level text, design_ref, extra level_note)
CHECKS = {
 "C01": ("model-based stateful property testing (proptest register-machine programs vs affine chord-and-tangent model)",
         "Generated programs of group operations over a register file of points of every class and representative are executed by the crate and by an independent affine model in lock-step; every register is compared after every step. Exploration: thousands (quick) to hundreds of thousands (thorough) of programs, exceptional branches counted per class.",
         "5/C01", ""),
}

NOT_YET = {}

def main():
    props = [json.loads(l)["id"] for l in open(os.path.join(ROOT, "properties.jsonl"))]
    checks = []
    na = []
    for pid in props:
        if pid in CHECKS:
            tech, text, ref, note = CHECKS[pid]
            checks.append({
                "property_id": pid,
                "quick_cmd": "./check %s quick" % pid,
                "thorough_cmd": "./check %s thorough" % pid,
                "evidence_file": "/verif/evidence/%s.json" % pid,
                "replay_cmd_template": "./check replay {path}",
                "engine": "verif-pbt",
                "level_claimed": {"category": "exploration", "text": text, "design_ref": "DESIGN.md section " + ref},
                "level_note": (note + " " if note else "") + TRUST,
                "technique": tech,
            })
        else:
            na.append({"property_id": pid, "reason": NOT_YET.get(pid, "check not built yet in this revision of /verif (planned in DESIGN.md section 5); nothing is claimed for it")})
    m = {
        "version": 1,
        "setup_cmd": "./check setup",
        "hooks": {
            "guard": "verif-hooks",
            "enable": "cargo feature of pairing-plus; the harness depends on pairing-plus = { path = \"/repo\", features = [\"verif-hooks\"] }",
            "baseline_off_cmd": "cd /repo && cargo test --workspace --no-fail-fast --offline",
            "source_commits": [HOOK_COMMIT],
            "add_only": True,
        },
        "engines": [
            {"name": "verif-pbt", "path": "/verif/harness/pbt", "serves_properties": sorted(CHECKS.keys()),
             "kind_free_text": "proptest TestRunner driven from a binary: deterministic seeds derived from VERIF_SEED, sharded over 16 threads, recipes as cases, explicit reference-model oracle, shrinking to a JSON replay file"},
        ],
        "checks": checks,
        "not_applicable": na,
        "notes": "All checks: ./check <Cxx> quick|thorough; exit 0 held, 1 VIOLATION (with replay file), 2 INCONCLUSIVE (infrastructure). Known findings: /verif/known_findings.txt. Design: /verif/DESIGN.md.",
    }
    json.dump(m, open(os.path.join(ROOT, "MANIFEST.json"), "w"), indent=1)
    print("MANIFEST.json: %d checks, %d not_applicable" % (len(checks), len(na)))

if __name__ == "__main__":
    main()
