#!/usr/bin/env python3
"""Regenerates /verif/MANIFEST.json from the table below (kept in one place so the file is always valid)."""
import json, os, subprocess, sys
ROOT = os.path.dirname(os.path.dirname(os.path.abspath(__file__)))

HOOK_COMMIT = "b2411c3"

TRUST = ("Trusted base: rustc, num-bigint, sha2/sha3, proptest (and libFuzzer in the thorough tier); the reference model "
         "(/verif/harness/refmodel: BigUint fields, flat Fq12, affine chord-and-tangent law, ZCash encoding, RFC 9380, textbook ate pairing), "
         "which is self-tested at every start-up against the affine definition, four RFC 9380 appendix-J vectors and the published e(g1,g2). "
         "Generated-input search: no claim beyond the explored cases.")

# id -> (technique, level text, design_ref, extra level_note)
CHECKS = {
 "C01": ("model-based stateful property testing (proptest register-machine programs vs affine chord-and-tangent model)",
         "Generated programs of group operations over a register file of points of every class and Jacobian representative are executed by the crate and by an independent affine model in lock-step; every register is compared after every step, exceptional branches (P=Q, P=-Q, identity, same-y, order-3, equal points in different representatives, batch with identity) are counted per class. Representatives with related coordinates (Y = 1/2, Y = Z, X = Y ...), points with structured x. Histories: thousands of distinct arguments through the operation on one thread with re-evaluation of earlier ones (bounded memos), and 16 threads alternating between two arguments against the single-threaded reference. Representatives chosen so that the intermediates of the next (mixed) addition are related (r = cH).",
         "5/C01", ""),
 "C02": ("property-based differential testing against model [k]P + exhaustive enumeration of single-bit scalars, windows and recommendations",
         "Every multiplication path (mul_assign, CurveAffine::mul, precomp_3/256 tables, Wnaf in both staging orders and shared variants, hook path with explicit windows 2..=22) is compared with the model's [k]P on structured scalars and all point classes; wNAF context reuse is explored as generated histories compared with a fresh context; the finite sub-domains (256 single-bit scalars x paths, every recommended window, recommendation range) are enumerated. Scalars at multiples of r plus small offsets (ladder revisits its base). Histories: thousands of distinct arguments through the operation on one thread with re-evaluation of earlier ones (bounded memos), and 16 threads alternating between two arguments against the single-threaded reference. Scalars at coincidences of the interleaved comb of mul_precomp_256.",
         "5/C02", "Hook: verif_wnaf wrappers (windows not reachable through Wnaf)."),
 "C03": ("property-based testing against a textbook ate pairing over a flat Fq12 model and the published e(g1,g2)",
         "Pairs with known discrete logs incl. identities and scalars >= r: exact agreement with an independent textbook pairing on a subset, bilinearity against the published e(g1,g2) raised to ab in the model, non-degeneracy, order, call direction; operands computed by the crate's own arithmetic (identities reached by P + (-P), [r]P); call histories on related points (negations, beta-twists) compared with the textbook value. A long history of thousands of pairings with distinct arguments on one thread, earlier pairs again against published^(ab). Projective arguments in generated representatives (scale factors from all of Fq2). One operand in five is a subgroup point found by search with a coordinate in a special band (leading bits of q / zero, low 16 bits 0 / 1 / all ones).",
         "5/C03", ""),
 "C04": ("property-based differential testing of the four decoders against a model decoder (accepted point or first failing stage)",
         "Structured byte strings (valid encodings of every point class incl. each small prime order, all 8 flag combinations, out-of-range components, x without root, uniform bytes) are decoded by the crate (checked and unchecked) and by a model decoder that returns the point or the first failing validation stage; every outcome cell per format is populated and counted. Provenance: the checked decoder applied to the crate's own re-encoding of an unchecked-decoded point must give the verdict of the bytes. Curve points with x just below the modulus. Histories: thousands of distinct arguments through the operation on one thread with re-evaluation of earlier ones (bounded memos), and 16 threads alternating between two arguments against the single-threaded reference. Periodic junk behind every flag combination; subgroup points with coordinates in special numeric bands (searched corpus).",
         "5/C04", ""),
 "C05": ("property-based round-trip and byte-exact differential testing against a model ZCash encoder",
         "Both encodings of points of every class (affine and via generated projective representatives) are compared byte-for-byte with an encoder written from the format README and decoded back; in the reverse direction every accepted byte string must re-encode to itself. The EncodedPoint value returned by the encoder is decoded directly (no copy through bytes); points with structured x (just below the modulus, shared leading bits). Histories: thousands of distinct arguments through the operation on one thread with re-evaluation of earlier ones (bounded memos), and 16 threads alternating between two arguments against the single-threaded reference. Curve points from a prescribed ordinate (limbs tying with (q-1)/2); searched subgroup points with banded coordinates.",
         "5/C05", ""),
 "C06": ("property-based differential testing against an RFC 9380 model pipeline + RFC known-answer vectors",
         "hash_to_curve / encode_to_curve for both groups and four expanders on generated (msg, dst) are compared with a from-the-RFC pipeline (exact point equality, model subgroup test, determinism); four RFC 9380 appendix-J vectors are checked directly. Related requests incl. msg|tag boundary shifts and out-of-domain calls in between. Histories: thousands of distinct arguments through the operation on one thread with re-evaluation of earlier ones (bounded memos), and 16 threads alternating between two arguments against the single-threaded reference. Messages of 64 KiB .. 16 MiB (thorough: 256 MiB) around piece-wise absorption thresholds through the whole pipeline.",
         "5/C06", "Isogeny coefficient tables of the model are a frozen copy of the pinned tree (DESIGN.md 2.2)."),
 "C07": ("property-based testing: model predicate on generated coordinate pairs + stateful safe-API programs with an invariant after every step",
         "The membership predicate is compared with (identity or on-curve and [r]P = O) on arbitrary pairs, every small-order class, twists and off-curve pairs; programs built only from safe sources and safe operations are executed and after every step the value must be a member (sources tested by the model, derived values equal to the model's group-law value); sources include arbitrary byte strings fed to the checked decoders / deserializers (whatever is accepted must be a member) and order-r points of isomorphic curves for the predicate. Predicate histories: after decoding / testing a point, the predicate on pairs derived from it (same x other y, ...). Histories: thousands of distinct arguments through the operation on one thread with re-evaluation of earlier ones (bounded memos), and 16 threads alternating between two arguments against the single-threaded reference.",
         "5/C07", ""),
 "C08": ("property-based differential testing against BigUint arithmetic",
         "Every Fq / Fr operation and every FqRepr / FrRepr operation named by the property is compared with integer arithmetic on boundary-heavy generated operands; hard-coded constants are observed through behaviour. The checks are written against the concrete types with method-call syntax (inherent methods would shadow the derived trait methods), operands include Montgomery-limb patterns and limb-spanning offsets from the modulus, and every result must also be the canonical element for the crate's own == / is_zero. Montgomery limb pairs with products at 2^127 / 2^128, limbs equal to the modulus limbs, limbs tying with p and (p-1)/2.",
         "5/C08", ""),
 "C09": ("property-based differential testing against a flat quotient-ring model of Fq12",
         "Fq2 / Fq6 / Fq12 ring operations, inverses, non-residue multiplications, norm, conjugation, Frobenius with arbitrary powers and the sparse products are compared with arithmetic in Fq[w]/(w^12-2w^6+2) (Frobenius by generic powering) on structurally diverse elements. Elements of norm one over every subfield (unitary elements). Histories: thousands of distinct arguments through the operation on one thread with re-evaluation of earlier ones (bounded memos), and 16 threads alternating between two arguments against the single-threaded reference. Components related to each other (equal, negated, times v, swapped).",
         "5/C09", ""),
 "C10": ("property-based testing with exponent bookkeeping against one model multiplication + exhaustive enumeration of the window heuristic",
         "Lists of points with known discrete logs (duplicates, inverse pairs, identities, zero and word-straddling scalars, mismatched lengths, lengths at every window-selection boundary) go through the default, explicit-window (1..=20) and table-driven entry points and are compared with [sum k_i a_i]G; find_pippinger_window is enumerated; tables are used buffers with stale content; valid calls after a rejected out-of-domain call on the same thread. Lists beyond 2^20 entries. Histories: thousands of distinct arguments through the operation on one thread with re-evaluation of earlier ones (bounded memos), and 16 threads alternating between two arguments against the single-threaded reference. Lists of 65536 terms sharing one scalar; whole 64-bit words zero in every scalar.",
         "5/C10", ""),
 "C11": ("property-based testing of pairing products against the published e(g1,g2) raised to the exponent sum in the model",
         "Generated lists of pairs with identities, repetitions and two-/three-term cancellations: joint Miller loop = product of singles = published^(sum a_i b_i), exactly 1 on cancellation, helper functions agree, prepared elements re-used in other orders and sub-lists. Very long lists around power-of-two sizes up to 1026 pairs; prepared elements copied into occupied slots with clone_from. Histories: thousands of distinct arguments through the operation on one thread with re-evaluation of earlier ones (bounded memos), and 16 threads alternating between two arguments against the single-threaded reference. The pair list passed as six kinds of iterable. Equal points sharing one prepared element by reference (G2 side, G1 side, both) while the other side keeps one prepared element per pair.",
         "5/C11", ""),
 "C12": ("property-based differential testing against a generic model power f^(3(q^12-1)/r)",
         "Elements of every subfield class, Miller outputs and products: exact equality with square-and-multiply in the flat model ring, failure exactly for 0, multiplicativity, order, subfields to 1. Cyclotomic / GT elements and their inverses, conjugates, Frobenius images; sequences on related arguments (f, conj f, 1/f, ...). Histories: thousands of distinct arguments through the operation on one thread with re-evaluation of earlier ones (bounded memos), and 16 threads alternating between two arguments against the single-threaded reference.",
         "5/C12", ""),
 "C13": ("property-based differential testing against RFC 9380 section 5 written in the model",
         "expand_message for four expanders on lengths around every block boundary incl. the must-abort class, block reduction on values around multiples of the modulus, hash_to_field for Fq / Fr / Fq2. XMD over six SHA-2 variants (digest not half the block for four of them); two-part blocks whose low part is around small multiples of the modulus at every split position; related requests incl. boundary shifts. Histories: thousands of distinct arguments through the operation on one thread with re-evaluation of earlier ones (bounded memos), and 16 threads alternating between two arguments against the single-threaded reference. Exhaustive sweep of every message length (0..=16800 quick, 70000 thorough) and every output length for eight expanders. Messages of 64 KiB .. 16 MiB (thorough: 256 MiB) around piece-wise absorption thresholds, all eight expanders.",
         "5/C13", ""),
 "C14": ("property-based differential testing against the model composition with constructed colliding inputs",
         "map_to_curve and map2_to_curve on generated inputs incl. 0, exceptional roots, u1 = +-u0 and model-constructed partners with coinciding / inverse SSWU images, compared with clear_cofactor(iso(sswu(u0)) + iso(sswu(u1))) in the model; subgroup; no panic. (This check found the defect repaired by the fix: commit.) Inputs constructed by inverting the SSWU map on stage-special points (isogeny kernel, small order, pure cofactor, points shared with the target curve) and backwards from structured intermediates. Histories: thousands of distinct arguments through the operation on one thread with re-evaluation of earlier ones (bounded memos), and 16 threads alternating between two arguments against the single-threaded reference. Second inputs whose SSWU intermediate t1 = Z u1^2 is tied to t0 (t1 = -1 - t0: same denominators / Jacobian Z; -t0, 1/t0, t0 + 1, t0^2, -1 - 1/t0) while the images are unrelated.",
         "5/C14 and 6", ""),
 "C15": ("property-based differential testing against the RFC straight-line SSWU with measured branch-cell coverage",
         "osswu_map on generated t for both groups compared as affine points with the RFC map; every case classified by the model into its square-root branch cell (16 for G2) and the histogram recorded; the addition chains compared with model powers. Inputs constructed backwards from structured intermediates (N, Zu^2, u^2, x1 of shape (c,0), (0,c), (c,c), (c,-c)); canonical limb combinations. Histories: thousands of distinct arguments through the operation on one thread with re-evaluation of earlier ones (bounded memos), and 16 threads alternating between two arguments against the single-threaded reference. Inputs constructed from a prescribed output ordinate (cubic solved over Fq).",
         "5/C15", "Hooks: OSSWUMap trait, chains, constants."),
 "C16": ("property-based differential testing against the rational map with frozen RFC tables + homomorphism relation",
         "isogeny_map on points of the isogenous curves of every class incl. rational kernel and order-121 points in arbitrary Jacobian representatives compared with the affine rational map; identity / kernel to identity; homomorphism with the sum taken by the model law on E'. Structured-x points incl. the points E' shares with the target curve; representatives with related coordinates. Histories: thousands of distinct arguments through the operation on one thread with re-evaluation of earlier ones (bounded memos), and 16 threads alternating between two arguments against the single-threaded reference. Roots of every truncation of the map polynomials.",
         "5/C16", "Hooks: IsogenyMap trait, tables (diagnostic). Frozen-table argument in DESIGN.md 2.2."),
 "C17": ("property-based differential testing against model [h_eff]P on the full curve group",
         "clear_h on full-curve, small-order, order l*r and subgroup points in arbitrary representatives compared with [h_eff]P, model subgroup test, additivity, the two addition chains. Representatives with related coordinates (Y = 1/2: doubling keeps Z). Histories: thousands of distinct arguments through the operation on one thread with re-evaluation of earlier ones (bounded memos), and 16 threads alternating between two arguments against the single-threaded reference.",
         "5/C17", "Hooks: ClearH trait, chain wrappers."),
 "C18": ("property-based testing against Euler's criterion, b^2 = a and integer / lexicographic order in the model",
         "sqrt / legendre / sgn0 / Ord on Fq, Fr, Fq2 on guaranteed residues, guaranteed non-residues, embedded and imaginary elements. Fq2 inputs constructed from a structured intermediate alpha = a^((q-1)/2); Fr inputs with every order of the 2-power part; canonical limb combinations. Histories: thousands of distinct arguments through the operation on one thread with re-evaluation of earlier ones (bounded memos), and 16 threads alternating between two arguments against the single-threaded reference. Elements with a prescribed norm; limbs tying with the modulus.",
         "5/C18", ""),
 "C19": ("property-based testing of SerDes against a model that decides from the bytes alone (value + exact consumption, or error)",
         "Six types x both flags: written bytes equal the model image; valid, truncated, trailing, wrong-flag, non-reduced, rejected-point and random streams are read through a chunking, counting reader and the outcome is compared with the model's decision. Related streams back to back, multi-item streams through one reader, chunking writers, a failing writer before a good one. Histories: thousands of distinct arguments through the operation on one thread with re-evaluation of earlier ones (bounded memos), and 16 threads alternating between two arguments against the single-threaded reference. Searched subgroup points with banded coordinates.",
         "5/C19", ""),
 "C20": ("property-based concurrency testing: generated workloads x thread assignments x prefix histories, bit-identical to a sequential run (TSan pass in the thorough tier)",
         "Generated workloads run sequentially twice (different order / prefixes) and concurrently on 2..16 barrier-released threads sharing a wNAF table and prepared pairing elements; all results must be bit-identical; bursts of 4..16 threads repeating a few operations densely (check-then-use races on process-wide state); the same operations in fresh child processes in different orders (state captured from the first caller); thorough adds a ThreadSanitizer pass. Interleavings are sampled, not enumerated. Reused wNAF contexts across bases and windows; long histories and two-input bursts over 27 operations; sibling hash requests with shifted msg|tag boundary. MSMs of 1030 / 4100 terms in histories and bursts. Cold start: the first library work of a fresh process done by 2..16 barrier-released threads at once, compared with the warm sequential reference (races in one-time initialisation).",
         "5/C20", "The OS owns the schedule; see DESIGN.md section 8."),
}

NOT_YET = {}

def main():
    props = [json.loads(l)["id"] for l in open(os.path.join(ROOT, "properties.jsonl"))]
    checks = []
    na = []
    for pid in props:
        if pid in CHECKS:
            tech, text, ref, note = CHECKS[pid]
            checks.append({
                "property_id": pid,
                "quick_cmd": "./check %s quick" % pid,
                "thorough_cmd": "./check %s thorough" % pid,
                "evidence_file": "/verif/evidence/%s.json" % pid,
                "replay_cmd_template": "./check replay {path}",
                "engine": "verif-pbt",
                "level_claimed": {"category": "exploration", "text": text, "design_ref": "DESIGN.md section " + ref},
                "level_note": (note + " " if note else "") + TRUST,
                "technique": tech,
            })
        else:
            na.append({"property_id": pid, "reason": NOT_YET.get(pid, "check not built yet in this revision of /verif (planned in DESIGN.md section 5); nothing is claimed for it")})
    m = {
        "version": 1,
        "setup_cmd": "./check setup",
        "hooks": {
            "guard": "verif-hooks",
            "enable": "cargo feature of pairing-plus; the harness depends on pairing-plus = { path = \"/repo\", features = [\"verif-hooks\"] }",
            "baseline_off_cmd": "cd /repo && cargo test --workspace --no-fail-fast --offline",
            "source_commits": [HOOK_COMMIT],
            "add_only": True,
        },
        "engines": [
            {"name": "verif-pbt", "path": "/verif/harness/pbt", "serves_properties": sorted(CHECKS.keys()),
             "kind_free_text": "proptest TestRunner driven from a binary: deterministic seeds derived from VERIF_SEED, sharded over 16 threads, recipes as cases, explicit reference-model oracle, shrinking to a JSON replay file; enumerated finite sub-domains; corpus replay through the byte-level entries"},
            {"name": "verif-fuzz", "path": "/verif/harness/fuzz", "serves_properties": ["C04", "C05", "C08", "C09", "C13", "C18", "C19"],
             "kind_free_text": "cargo-fuzz / libFuzzer targets (decode, serdes, expand, field) with the reference-model oracle inside the target; bounded campaigns in the thorough tier (tools/fuzz_campaign.sh), crash artifacts re-run through the plain binary"},
            {"name": "tsan-pass", "path": "/verif/tools/tsan_pass.sh", "serves_properties": ["C20"],
             "kind_free_text": "ThreadSanitizer build (-Zsanitizer=thread, -Zbuild-std) of the harness and the crate running a reduced C20 workload in the thorough tier"},
        ],
        "checks": checks,
        "not_applicable": na,
        "notes": "All checks: ./check <Cxx> quick|thorough; exit 0 held, 1 VIOLATION (with replay file), 2 INCONCLUSIVE (infrastructure). Known findings: /verif/known_findings.txt. Design: /verif/DESIGN.md.",
    }
    json.dump(m, open(os.path.join(ROOT, "MANIFEST.json"), "w"), indent=1)
    print("MANIFEST.json: %d checks, %d not_applicable" % (len(checks), len(na)))

if __name__ == "__main__":
    main()
