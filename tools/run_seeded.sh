#!/bin/sh
# usage: tools/run_seeded.sh [ids...]  -- applies every saved seeded change (isolated copy, /repo untouched), runs the
# quick check of the property it breaks (and of the other checks listed in its meta.json), prints a detection matrix.
cd "$(dirname "$0")/.." || exit 2
export MUT_DIR=/tmp/mut-seeded
IDS="$*"; [ -z "$IDS" ] && IDS=$(ls seeded | sort)
for id in $IDS; do
  [ -f seeded/$id/patch.diff ] || continue
  checks=$(python3 -c "import json;print(' '.join(json.load(open('seeded/$id/meta.json'))['detected_by_quick_checks']))")
  line="$id:"
  for c in $checks; do
    out=$(tools/try_patch_iso.sh seeded/$id/patch.diff $c 2>&1 | tail -3)
    if echo "$out" | grep -q "^VIOLATION property=$c"; then line="$line $c=DETECTED"; elif echo "$out" | grep -q "^OK property"; then line="$line $c=MISSED"; else line="$line $c=?($(echo "$out" | tail -1 | cut -c1-60))"; fi
  done
  echo "$line"
done
