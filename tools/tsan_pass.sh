#!/bin/sh
# usage: tools/tsan_pass.sh <out.json>
# ThreadSanitizer pass for C20: the harness (and the crate under test) rebuilt with -Zsanitizer=thread and
# an instrumented std (-Zbuild-std), then a reduced C20 workload run. A data race reported by TSan on an
# explored execution is a violation; an unavailable toolchain is recorded and is not a failure.
OUT="$1"
ROOT="$(cd "$(dirname "$0")/.." && pwd)"
SEED="${VERIF_SEED:-0}"
START=$(date +%s)
cd "$ROOT/harness" || exit 2
if ! RUSTFLAGS="-Zsanitizer=thread" cargo +nightly build -Zbuild-std --target x86_64-unknown-linux-gnu --release -p verif-pbt --target-dir "$ROOT/harness/target/tsan" >"$ROOT/harness/build-tsan.log" 2>&1; then
    echo '{"engine": "unavailable", "reason": "TSan build failed (see harness/build-tsan.log)", "evaluations": 0}' > "$OUT"
    echo "TSan build unavailable - recorded, not a failure"
    exit 0
fi
BIN="$ROOT/harness/target/tsan/x86_64-unknown-linux-gnu/release/verif-pbt"
LOG="$ROOT/harness/target/tsan/run.log"
TSAN_OPTIONS="halt_on_error=0 exitcode=0 report_signal_unsafe=0" VERIF_EVIDENCE_SUFFIX=".tsan" VERIF_SCALE="${VERIF_TSAN_SCALE:-0.5}" VERIF_SEED=$((SEED + 77)) "$BIN" run C20 quick >"$LOG" 2>&1; RC=$?
RACES=$(grep -c "WARNING: ThreadSanitizer" "$LOG")
EVALS=0
[ -f "$ROOT/evidence/C20.tsan.json" ] && EVALS=$(python3 -c "import json;print(json.load(open('$ROOT/evidence/C20.tsan.json'))['coverage']['evaluations'])") && rm -f "$ROOT/evidence/C20.tsan.json"
END=$(date +%s)
echo "{\"engine\": \"ThreadSanitizer (-Zsanitizer=thread, -Zbuild-std)\", \"evaluations\": $EVALS, \"distinct_nontrivial\": 0, \"tsan_reports\": $RACES, \"run_exit\": $RC, \"wall_s\": $((END - START))}" > "$OUT"
if [ "$RACES" -gt 0 ]; then
    mkdir -p "$ROOT/replays"; cp "$LOG" "$ROOT/replays/C20-tsan-report.txt"
    grep -A12 "WARNING: ThreadSanitizer" "$LOG" | head -40
    echo "VIOLATION property=C20 replay=$ROOT/replays/C20-tsan-report.txt"
    exit 1
fi
[ $RC -eq 1 ] && { grep VIOLATION "$LOG"; exit 1; }
exit 0
