#!/bin/sh
# usage: tools/confirm_seed.sh <Cxx> [worktree-dir]
# Independently confirms a seeded change delivered in <worktree>/seeded: the patch applies to a clean
# checkout of /repo's HEAD, compiles, the pinned suite passes with it, the demo fails with it and
# passes without it. Prints a one-line verdict and writes <worktree>/seeded/confirm.log.
ID="$1"; WT="${2:-/tmp/wt/$ID}"
LOG="$WT/seeded/confirm.log"
cd "$WT" || exit 3
DEMO=$(ls tests/demo_*.rs 2>/dev/null | head -1)
[ -z "$DEMO" ] && [ -f seeded/demo.rs ] && { mkdir -p tests; cp seeded/demo.rs tests/demo_$ID.rs; DEMO=tests/demo_$ID.rs; }
DEMONAME=$(basename "$DEMO" .rs)
FEAT=""
grep -q "verif_hooks\|verif_wnaf" "$DEMO" 2>/dev/null && FEAT="--features verif-hooks"
{
echo "== $ID in $WT  demo=$DEMO feat=$FEAT"
git checkout -q -- src Cargo.toml 2>/dev/null
git apply seeded/patch.diff || { echo "VERDICT $ID: patch does not apply"; exit 1; }
echo "-- demo WITH patch (must fail)"
cargo test --offline --release $FEAT --test "$DEMONAME" 2>&1 | grep -E "^test result|error(\[|:)" | head -5
cargo test --offline --release $FEAT --test "$DEMONAME" >/dev/null 2>&1; WITH=$?
echo "-- demo WITHOUT patch (must pass)"
git stash -q -- src
cargo test --offline --release $FEAT --test "$DEMONAME" 2>&1 | grep -E "^test result|error(\[|:)" | head -5
cargo test --offline --release $FEAT --test "$DEMONAME" >/dev/null 2>&1; WITHOUT=$?
git stash pop -q
echo "-- pinned suite WITH patch (must pass)"
mkdir -p /tmp/wt/aside && mv "$DEMO" /tmp/wt/aside/$ID-demo.rs
cargo test --offline --lib -- --skip bls12_engine_tests --skip g2_curve_tests --skip fq12_field_tests 2>&1 | grep -E "^test result|FAILED|panicked" | head -5
cargo test --offline --lib -- --skip bls12_engine_tests --skip g2_curve_tests --skip fq12_field_tests >/dev/null 2>&1; SUITE=$?
mv /tmp/wt/aside/$ID-demo.rs "$DEMO"
echo "with=$WITH without=$WITHOUT suite=$SUITE"
if [ $WITH -ne 0 ] && [ $WITHOUT -eq 0 ] && [ $SUITE -eq 0 ]; then echo "VERDICT $ID: CONFIRMED"; else echo "VERDICT $ID: NOT CONFIRMED"; fi
} > "$LOG" 2>&1
tail -1 "$LOG"
