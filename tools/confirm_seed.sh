#!/bin/sh
# usage: tools/confirm_seed.sh <Cxx> [deliverables-dir]
# Independently confirms a seeded change in a FRESH scratch worktree of /repo's HEAD (no git stash: the
# stash stack is shared between worktrees): the patch applies and compiles, the demo passes without it and
# fails with it, the pinned suite passes with it. Writes <deliverables-dir>/confirm.log, prints the verdict.
ID="$1"; DEL="${2:-/tmp/wt/$ID/seeded}"
WT="/tmp/confirm/$ID"
LOG="$DEL/confirm.log"
rm -rf "$WT"; git -C /repo worktree prune; mkdir -p /tmp/confirm
git -C /repo worktree add -q --detach "$WT" HEAD || exit 3
cp /repo/Cargo.lock "$WT/"; mkdir -p "$WT/.cargo" "$WT/tests"; printf '[net]\noffline = true\n' > "$WT/.cargo/config.toml"
cp "$DEL/demo.rs" "$WT/tests/demo_$ID.rs"
export CARGO_TARGET_DIR="${CONFIRM_TARGET:-/tmp/confirm-target}"
FEAT=""; grep -q "verif_hooks\|verif_wnaf" "$DEL/demo.rs" && FEAT="--features verif-hooks"
cd "$WT" || exit 3
{
echo "== $ID fresh worktree $WT (HEAD $(git rev-parse --short HEAD)) feat=$FEAT"
echo "-- demo WITHOUT patch (must pass)"
cargo test --offline --release $FEAT --test "demo_$ID" > "$WT/o1.txt" 2>&1; WITHOUT=$?
grep -E "^test result|^error" "$WT/o1.txt" | head -4
git apply "$DEL/patch.diff" || { echo "VERDICT $ID: patch does not apply"; exit 1; }
git diff --stat | tail -1
echo "-- demo WITH patch (must fail)"
cargo test --offline --release $FEAT --test "demo_$ID" > "$WT/o2.txt" 2>&1; WITH=$?
grep -E "^test result|^error" "$WT/o2.txt" | head -4
echo "-- pinned suite WITH patch (must pass)"
cargo test --offline --lib -- --skip bls12_engine_tests --skip g2_curve_tests --skip fq12_field_tests > "$WT/o3.txt" 2>&1; SUITE=$?
grep -E "^test result|FAILED|panicked" "$WT/o3.txt" | head -4
echo "with=$WITH without=$WITHOUT suite=$SUITE"
if [ $WITH -ne 0 ] && [ $WITHOUT -eq 0 ] && [ $SUITE -eq 0 ]; then echo "VERDICT $ID: CONFIRMED"; else echo "VERDICT $ID: NOT CONFIRMED"; fi
} > "$LOG" 2>&1
cd /; git -C /repo worktree remove --force "$WT"
tail -1 "$LOG"
