#!/usr/bin/env python3
"""usage: tools/mutation_campaign.py <n-mutants> <rng-seed> [out.jsonl]

Automatic single-line mutants of the crate's non-test source, each tested on an ISOLATED copy (scratch worktree of
/repo under $MUT_DIR, default /tmp/mut-camp, plus a copy of the harness pointing at it; /repo is never touched):
the harness is rebuilt against the mutant and the quick checks of the properties anchored in the mutated file are run
until one reports a violation. Outcomes: DETECTED:<Cxx> | SURVIVED | NOCOMPILE | INCONCLUSIVE. Survivors keep their
patch (<out>.survivors/<k>.diff) for the follow-up (does the pinned suite kill it? is it equivalent?).
This is a tool for assessing the checks (DESIGN.md 10.6), not a registered check."""
import json, os, random, re, subprocess, sys, time

N = int(sys.argv[1]); SEED = int(sys.argv[2])
OUT = sys.argv[3] if len(sys.argv) > 3 else '/tmp/wt/mutation_campaign.jsonl'
M = os.environ.get('MUT_DIR', '/tmp/mut-camp')
VERIF = os.path.dirname(os.path.dirname(os.path.abspath(__file__)))

FILES = {
    'src/bls12_381/ec/mod.rs': ['C01', 'C02', 'C10', 'C07', 'C17'],
    'src/bls12_381/ec/g1.rs': ['C04', 'C05', 'C07', 'C19', 'C03'],
    'src/bls12_381/ec/g2.rs': ['C04', 'C05', 'C07', 'C19', 'C03'],
    'src/bls12_381/fq2.rs': ['C09', 'C18', 'C13', 'C15'],
    'src/bls12_381/fq6.rs': ['C09', 'C12'],
    'src/bls12_381/fq12.rs': ['C09', 'C12', 'C03'],
    'src/bls12_381/fq.rs': ['C08', 'C13', 'C18', 'C09'],
    'src/bls12_381/fr.rs': ['C08', 'C13', 'C18'],
    'src/bls12_381/mod.rs': ['C03', 'C11', 'C12'],
    'src/bls12_381/osswu_map/mod.rs': ['C15', 'C14'],
    'src/bls12_381/osswu_map/g1.rs': ['C15', 'C14'],
    'src/bls12_381/osswu_map/g2.rs': ['C15', 'C14'],
    'src/bls12_381/osswu_map/chain.rs': ['C15', 'C14'],
    'src/bls12_381/isogeny/mod.rs': ['C16', 'C14'],
    'src/bls12_381/isogeny/g1.rs': ['C16', 'C14'],
    'src/bls12_381/isogeny/g2.rs': ['C16', 'C14'],
    'src/bls12_381/cofactor.rs': ['C17', 'C14'],
    'src/hash_to_field.rs': ['C13', 'C06'],
    'src/hash_to_curve.rs': ['C06'],
    'src/map_to_curve.rs': ['C14', 'C06'],
    'src/serdes.rs': ['C19', 'C07'],
    'src/wnaf.rs': ['C02', 'C20'],
    'src/signum.rs': ['C18', 'C15'],
    'src/lib.rs': ['C03', 'C11', 'C07'],
}

OPS = [
    (r'\badd_assign\(', 'sub_assign('), (r'\bsub_assign\(', 'add_assign('),
    (r'\badd_assign_mixed\(', 'sub_assign_mixed('),
    (r' == ', ' != '), (r' != ', ' == '), (r' <= ', ' < '), (r' >= ', ' > '), (r' < ', ' <= '), (r' > ', ' >= '),
    (r' && ', ' || '), (r' \|\| ', ' && '),
    (r'\btrue\b', 'false'), (r'\bfalse\b', 'true'),
    (r'\bc0\b', 'c1'), (r'\bc1\b', 'c0'), (r'\bc2\b', 'c0'),
    (r'\.x\b', '.y'), (r'\.y\b', '.x'), (r'\.z\b', '.x'),
    (r' \+ 1\b', ' + 2'), (r' - 1\b', ' - 2'), (r' \+ ', ' - '), (r' - ', ' + '),
    (r' >> ', ' << '), (r' << ', ' >> '), (r' & ', ' | '), (r' \| ', ' & '),
    (r'\.rev\(\)', ''), (r'\.skip\(1\)', ''), (r'!(\w)', r'\1'),
    (r'\bis_zero\(\)', 'is_zero() == false'),
]
DELETABLE = re.compile(r'^\s*[\w\.\[\]]+\.(negate|double|square|conjugate|frobenius_map\(\d+\)|mul_by_nonresidue|negate_if\([^)]*\)|mul_assign\([^)]*\)|add_assign\([^)]*\)|sub_assign\([^)]*\))\(?\)?;\s*$')
INT = re.compile(r'(?<![\w\.x])(\d{1,3})(?![\w\.])')
HEX = re.compile(r'0x[0-9a-f]{8,}')


def sh(cmd, cwd=None, timeout=3600):
    return subprocess.run(cmd, shell=True, cwd=cwd, stdout=subprocess.PIPE, stderr=subprocess.STDOUT, text=True, timeout=timeout)


def setup():
    if not os.path.isdir(M + '/repo'):
        os.makedirs(M, exist_ok=True)
        sh('git -C /repo worktree prune')
        r = sh('git -C /repo worktree add -q --detach %s/repo HEAD' % M)
        if r.returncode != 0:
            print(r.stdout); sys.exit(3)
        sh('cp /repo/Cargo.lock %s/repo/' % M)
    sh('git -C %s/repo checkout -q --detach $(git -C /repo rev-parse HEAD) && git -C %s/repo checkout -q -- .' % (M, M))
    os.makedirs(M + '/verif', exist_ok=True)
    sh('rsync -a --delete --exclude harness/target --exclude harness/fuzz/target --exclude .git --exclude replays --exclude evidence %s/ %s/verif/' % (VERIF, M))
    sh('sed -i \'s#path = "/repo"#path = "%s/repo"#\' %s/verif/harness/pbt/Cargo.toml' % (M, M))


def candidates(path):
    lines = open(path).read().split('\n')
    out = []
    for i, l in enumerate(lines):
        if re.search(r'#\[cfg\(test\)\]|#\[test\]', l):
            break
        s = l.strip()
        if not s or s.startswith('//') or s.startswith('#[') or s.startswith('use ') or 'debug_assert' in s or s.startswith('assert') or 'verif' in s:
            continue
        out.append(i)
    return lines, out


def mutate(rng):
    for _ in range(200):
        f = rng.choice(list(FILES))
        path = M + '/repo/' + f
        if not os.path.exists(path):
            continue
        lines, cand = candidates(path)
        if not cand:
            continue
        i = rng.choice(cand)
        l = lines[i]
        code = l.split('//')[0].split('/*')[0]
        if 'write!(' in code or 'fmt::' in code or 'panic!(' in code or 'description' in code:
            continue
        choices = []
        for pat, rep in OPS:
            for m in re.finditer(pat, code):
                choices.append(('op:' + pat, m.start(), m.end(), m.expand(rep) if '\\1' in rep else rep))
        if DELETABLE.match(code):
            choices.append(('delete-statement', 0, len(code), code[:len(code) - len(code.lstrip())] + '// (statement deleted)'))
        for m in INT.finditer(code):
            choices.append(('int+1', m.start(1), m.end(1), str(int(m.group(1)) + 1)))
        for m in HEX.finditer(code):
            pos = rng.randrange(m.start() + 2, m.end())
            d = code[pos]
            nd = rng.choice([c for c in '0123456789abcdef' if c != d])
            choices.append(('hex-digit', pos, pos + 1, nd))
        want_hex = rng.random() < 0.12
        choices = [c for c in choices if (c[0] == 'hex-digit') == want_hex]
        if not choices:
            continue
        name, a, b, rep = rng.choice(choices)
        new = code[:a] + rep + code[b:] + l[len(code):]
        if new == l:
            continue
        lines[i] = new
        open(path, 'w').write('\n'.join(lines))
        return f, i + 1, name, l.strip(), new.strip()
    return None


def main():
    rng = random.Random(SEED)
    setup()
    surv_dir = OUT + '.survivors'
    os.makedirs(surv_dir, exist_ok=True)
    out = open(OUT, 'a')
    for k in range(N):
        sh('git -C %s/repo checkout -q -- .' % M)
        mu = mutate(rng)
        if mu is None:
            continue
        f, line, op, old, new = mu
        rec = {'k': k, 'seed': SEED, 'file': f, 'line': line, 'op': op, 'old': old, 'new': new}
        t0 = time.time()
        b = sh('cargo build --release -p verif-pbt 2>&1 | tail -5', cwd=M + '/verif/harness', timeout=1800)
        if 'error' in b.stdout and 'could not compile' in b.stdout:
            rec['outcome'] = 'NOCOMPILE'
        else:
            rec['outcome'] = 'SURVIVED'
            rec['checks'] = {}
            for c in FILES[f]:
                try:
                    r = sh('./check %s quick 2>&1 | tail -3' % c, cwd=M + '/verif', timeout=2400)
                    o = r.stdout
                except subprocess.TimeoutExpired:
                    o = 'TIMEOUT'
                if 'VIOLATION property=' + c in o:
                    rec['checks'][c] = 'VIOLATION'
                    rec['outcome'] = 'DETECTED:' + c
                    msg = [x for x in o.split('\n') if x and not x.startswith('VIOLATION')]
                    rec['message'] = (msg[-1] if msg else '')[:300]
                    break
                elif 'OK property=' + c in o:
                    rec['checks'][c] = 'OK'
                else:
                    rec['checks'][c] = 'INCONCLUSIVE: ' + o.strip().split('\n')[-1][:200]
                    rec['outcome'] = 'INCONCLUSIVE'
                    break
            if rec['outcome'] == 'SURVIVED':
                d = sh('git -C %s/repo diff' % M).stdout
                open('%s/%d-%d.diff' % (surv_dir, SEED, k), 'w').write(d)
        rec['secs'] = round(time.time() - t0, 1)
        out.write(json.dumps(rec) + '\n'); out.flush()
        print(k, rec['outcome'], f, line, op, flush=True)
    sh('git -C %s/repo checkout -q -- .' % M)


main()
