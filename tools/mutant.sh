#!/bin/sh
# usage: tools/mutant.sh <sed-expr> <file-in-repo> <Cxx> [tier]   -- apply a one-line mutation, run the check, always restore
cd /repo || exit 3
sed -i "$1" "$2"
if git diff --quiet; then echo "MUTATION DID NOT APPLY"; exit 3; fi
git diff | grep '^[-+]' | grep -v '^[-+][-+]' | head -6
cd /verif && ./check "$3" "${4:-quick}" 2>&1 | grep -v "^proptest" | tail -3 | cut -c1-400
cd /repo && git checkout -- . && git status --short
