#!/usr/bin/env python3
"""Regenerates Appendix A of DESIGN.md from seeded/*/meta.json."""
import json, os, re, glob
ROOT = os.path.dirname(os.path.dirname(os.path.abspath(__file__)))
rows = []
for d in sorted(glob.glob(os.path.join(ROOT, 'seeded', '*'))):
    mp = os.path.join(d, 'meta.json')
    if not os.path.exists(mp):
        continue
    m = json.load(open(mp))
    def short(s, n):
        s = (s or '').replace('\n', ' ').replace('|', '/')
        return s if len(s) <= n else s[:n - 1].rsplit(' ', 1)[0] + ' ...'
    first = 'missed' if 'missed' in (m.get('note') or '') else 'detected'
    rows.append('| %s | %s | %s | %s | %s | %s |' % (m['id'], short(m.get('summary'), 230), short(m.get('needs_to_manifest'), 200), first, ', '.join(m.get('detected_by_quick_checks', [])), short(m.get('note'), 260)))
hdr = '''## Appendix A. Independently seeded changes (`seeded/<id>/`) and which checks report them

Each change was produced by a sub-agent that was given only the property record and a scratch worktree of `/repo`
(nothing from `/verif`; from the second round on, one line per earlier idea so that the mechanisms differ), confirmed by me
in a fresh scratch worktree (`tools/confirm_seed.sh`: demo passes without the patch, fails with it, pinned suite passes
with it), then applied, checked with the quick tier and undone (`tools/try_patch.sh` on `/repo`, or the equivalent
`tools/try_patch_iso.sh` on an isolated copy while long runs were using `/repo`). "first run" is the result of the
property's own quick check before any strengthening; "reported by" is the state of the committed machinery.
Generated from `seeded/*/meta.json` by `tools/gen_appendix.py`.

| id | change | needs | first run | reported by (now) | note |
|---|---|---|---|---|---|
'''
text = hdr + '\n'.join(rows) + '\n'
p = os.path.join(ROOT, 'DESIGN.md')
s = open(p).read()
i = s.index('## Appendix A.')
j = s.find('\n## ', i + 5)
s = s[:i] + text + (s[j:] if j > 0 else '')
open(p, 'w').write(s)
n_miss = sum(1 for r in rows if '| missed |' in r)
print('appendix: %d seeds, %d missed at first run' % (len(rows), n_miss))
