#!/bin/sh
# usage: tools/mutant_iso.sh <sed-expr> <file-in-repo> <Cxx> [tier] -- one-line mutation tested on the isolated copy
M="${MUT_DIR:-/tmp/mut}"
[ -d $M/repo ] || { echo "run tools/try_patch_iso.sh once first"; exit 3; }
git -C $M/repo checkout -q -- .
sed -i "$1" "$M/repo/$2"
git -C $M/repo diff > /tmp/mut/last.diff
[ -s /tmp/mut/last.diff ] || { echo "MUTATION DID NOT APPLY"; exit 3; }
grep '^[-+]' /tmp/mut/last.diff | grep -v '^[-+][-+]' | head -4
git -C $M/repo checkout -q -- .
exec /verif/tools/try_patch_iso.sh /tmp/mut/last.diff "$3" "${4:-quick}"
