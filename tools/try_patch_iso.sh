#!/bin/sh
# usage: tools/try_patch_iso.sh <patch.diff> <Cxx> [tier]
# Same as try_patch.sh but on an isolated copy (scratch worktree of /repo + copy of the harness whose path
# dependency points at that worktree), so /repo itself stays untouched while long runs are using it.
P="$(readlink -f "$1")"
M="${MUT_DIR:-/tmp/mut}"
if [ ! -d $M/repo ]; then mkdir -p $M; git -C /repo worktree prune; git -C /repo worktree add -q --detach $M/repo HEAD || exit 3; cp /repo/Cargo.lock $M/repo/; fi
git -C $M/repo checkout -q --detach "$(git -C /repo rev-parse HEAD)" && git -C $M/repo checkout -q -- . && git -C $M/repo clean -fdq -e Cargo.lock -e target
mkdir -p $M/verif
rsync -a --delete --exclude harness/target --exclude harness/fuzz/target --exclude .git --exclude replays --exclude evidence ${VERIF_SRC:-/verif}/ $M/verif/
sed -i "s#path = \"/repo\"#path = \"$M/repo\"#" $M/verif/harness/pbt/Cargo.toml
git -C $M/repo apply "$P" || { echo "PATCH DID NOT APPLY"; exit 3; }
cd $M/verif && ./check "$2" "${3:-quick}" 2>&1 | grep -v "^proptest" | tail -4 | cut -c1-500
git -C $M/repo checkout -q -- .
