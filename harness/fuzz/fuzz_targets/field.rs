#![no_main]
//! libFuzzer target "field": bytes -> structured arguments -> crate call -> reference-model oracle.
//! A semantic disagreement (or a crate panic where none is allowed) aborts, so libFuzzer saves the input.
use libfuzzer_sys::fuzz_target;

fuzz_target!(|data: &[u8]| {
    if let Err(m) = verif_pbt::fuzz_entry::run("field", data) {
        eprintln!("FUZZ-VIOLATION target=field {}", m);
        std::process::abort();
    }
});
