#![no_main]
//! libFuzzer target "serdes": bytes -> structured arguments -> crate call -> reference-model oracle.
//! A semantic disagreement (or a crate panic where none is allowed) aborts, so libFuzzer saves the input.
use libfuzzer_sys::fuzz_target;

fuzz_target!(|data: &[u8]| {
    // libfuzzer-sys installs a panic hook that aborts the process; the oracle catches the panics the
    // properties require (e.g. expand_message_xmd beyond 255 blocks) and reports unexpected ones itself,
    // so the harness hook (record message, keep unwinding) replaces it.
    static HOOK: std::sync::Once = std::sync::Once::new();
    HOOK.call_once(verif_pbt::engine::install_panic_hook);
    if let Err(m) = verif_pbt::fuzz_entry::run("serdes", data) {
        eprintln!("FUZZ-VIOLATION target=serdes {}", m);
        std::process::abort();
    }
});
