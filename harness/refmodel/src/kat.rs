//! Known answers that do not come from the crate under test.
//!
//! * RFC 9380 appendix J vectors (J.9.1 G1 RO "" and "abc", J.10.1 G2 RO "", J.9.2 G1 NU "").
//! * e(g1, g2) as published in the relic / zkcrypto test vector (re-derived independently by the
//!   textbook pairing at design time, DESIGN.md F3).

use crate::curve::Pt;
use crate::fld::{Fq, Fq12, Fq2};
use crate::h2c::{encode_to_curve_g1, hash_to_curve_g1, hash_to_curve_g2, Expander};

pub const DST_G1_RO: &[u8] = b"QUUX-V01-CS02-with-BLS12381G1_XMD:SHA-256_SSWU_RO_";
pub const DST_G1_NU: &[u8] = b"QUUX-V01-CS02-with-BLS12381G1_XMD:SHA-256_SSWU_NU_";
pub const DST_G2_RO: &[u8] = b"QUUX-V01-CS02-with-BLS12381G2_XMD:SHA-256_SSWU_RO_";

pub fn rfc_g1_ro_empty() -> Pt<Fq> {
    Pt::Aff(
        Fq::from_hex("052926add2207b76ca4fa57a8734416c8dc95e24501772c814278700eed6d1e4e8cf62d9c09db0fac349612b759e79a1"),
        Fq::from_hex("08ba738453bfed09cb546dbb0783dbb3a5f1f566ed67bb6be0e8c67e2e81a4cc68ee29813bb7994998f3eae0c9c6a265"),
    )
}
pub fn rfc_g1_ro_abc() -> Pt<Fq> {
    Pt::Aff(
        Fq::from_hex("03567bc5ef9c690c2ab2ecdf6a96ef1c139cc0b2f284dca0a9a7943388a49a3aee664ba5379a7655d3c68900be2f6903"),
        Fq::from_hex("0b9c15f3fe6e5cf4211f346271d7b01c8f3b28be689c8429c85b67af215533311f0b8dfaaa154fa6b88176c229f2885d"),
    )
}
pub fn rfc_g1_nu_empty() -> Pt<Fq> {
    Pt::Aff(
        Fq::from_hex("184bb665c37ff561a89ec2122dd343f20e0f4cbcaec84e3c3052ea81d1834e192c426074b02ed3dca4e7676ce4ce48ba"),
        Fq::from_hex("04407b8d35af4dacc809927071fc0405218f1401a6d15af775810e4e460064bcc9468beeba82fdc751be70476c888bf3"),
    )
}
pub fn rfc_g2_ro_empty() -> Pt<Fq2> {
    Pt::Aff(
        Fq2::from_hex(
            "0141ebfbdca40eb85b87142e130ab689c673cf60f1a3e98d69335266f30d9b8d4ac44c1038e9dcdd5393faf5c41fb78a",
            "05cb8437535e20ecffaef7752baddf98034139c38452458baeefab379ba13dff5bf5dd71b72418717047f5b0f37da03d",
        ),
        Fq2::from_hex(
            "0503921d7f6a12805e72940b963c0cf3471c7b2a524950ca195d11062ee75ec076daf2d4bc358c4b190c0c98064fdd92",
            "12424ac32561493f3fe3c260708a12b7c620e7be00099a974e259ddc7d1f6395c3c811cdd19f1e8dbf3e9ecfdcbab8d6",
        ),
    )
}

pub fn check_model_against_rfc_vectors() -> Result<(), String> {
    let e = Expander::XmdSha256;
    if hash_to_curve_g1(e, b"", DST_G1_RO).unwrap() != rfc_g1_ro_empty() {
        return Err("model != RFC J.9.1 (msg \"\")".into());
    }
    if hash_to_curve_g1(e, b"abc", DST_G1_RO).unwrap() != rfc_g1_ro_abc() {
        return Err("model != RFC J.9.1 (msg abc)".into());
    }
    if encode_to_curve_g1(e, b"", DST_G1_NU).unwrap() != rfc_g1_nu_empty() {
        return Err("model != RFC J.9.2 (msg \"\")".into());
    }
    if hash_to_curve_g2(e, b"", DST_G2_RO).unwrap() != rfc_g2_ro_empty() {
        return Err("model != RFC J.10.1 (msg \"\")".into());
    }
    Ok(())
}

/// published e(g1, g2), tower coordinates c[i][j] = (c0, c1) of v^j w^i
pub fn published_e_g1_g2() -> Fq12 {
    let t = [
        [
            Fq2::from_hex("1250ebd871fc0a92a7b2d83168d0d727272d441befa15c503dd8e90ce98db3e7b6d194f60839c508a84305aaca1789b6", "089a1c5b46e5110b86750ec6a532348868a84045483c92b7af5af689452eafabf1a8943e50439f1d59882a98eaa0170f"),
            Fq2::from_hex("1368bb445c7c2d209703f239689ce34c0378a68e72a6b3b216da0e22a5031b54ddff57309396b38c881c4c849ec23e87", "193502b86edb8857c273fa075a50512937e0794e1e65a7617c90d8bd66065b1fffe51d7a579973b1315021ec3c19934f"),
            Fq2::from_hex("01b2f522473d171391125ba84dc4007cfbf2f8da752f7c74185203fcca589ac719c34dffbbaad8431dad1c1fb597aaa5", "018107154f25a764bd3c79937a45b84546da634b8f6be14a8061e55cceba478b23f7dacaa35c8ca78beae9624045b4b6"),
        ],
        [
            Fq2::from_hex("19f26337d205fb469cd6bd15c3d5a04dc88784fbb3d0b2dbdea54d43b2b73f2cbb12d58386a8703e0f948226e47ee89d", "06fba23eb7c5af0d9f80940ca771b6ffd5857baaf222eb95a7d2809d61bfe02e1bfd1b68ff02f0b8102ae1c2d5d5ab1a"),
            Fq2::from_hex("11b8b424cd48bf38fcef68083b0b0ec5c81a93b330ee1a677d0d15ff7b984e8978ef48881e32fac91b93b47333e2ba57", "03350f55a7aefcd3c31b4fcb6ce5771cc6a0e9786ab5973320c806ad360829107ba810c5a09ffdd9be2291a0c25a99a2"),
            Fq2::from_hex("04c581234d086a9902249b64728ffd21a189e87935a954051c7cdba7b3872629a4fafc05066245cb9108f0242d0fe3ef", "0f41e58663bf08cf068672cbd01a7ec73baca4d72ca93544deff686bfd6df543d48eaa24afe47e1efde449383b676631"),
        ],
    ];
    Fq12::from_tower(&t)
}
