use refmodel::curve::*;
use refmodel::fld::*;
use refmodel::consts::C;
fn main() {
    let t = std::time::Instant::now();
    match refmodel::selftest(true) {
        Ok(v) => {
            for l in v {
                println!("ok: {}", l);
            }
        }
        Err(e) => {
            println!("SELFTEST FAILED: {}", e);
            std::process::exit(2);
        }
    }
    println!("{:?}", t.elapsed());
    if std::env::args().nth(1).as_deref() == Some("bench") {
        let k = &C().r - z(5);
        let t = std::time::Instant::now();
        for _ in 0..10 { let _ = e1().mul(&k, &g1_gen()); }
        println!("G1 mul fast: {:?}", t.elapsed() / 10);
        let t = std::time::Instant::now();
        for _ in 0..10 { let _ = e2().mul(&k, &g2_gen()); }
        println!("G2 mul fast: {:?}", t.elapsed() / 10);
        let t = std::time::Instant::now();
        let _ = e1().mul_def(&k, &g1_gen());
        println!("G1 mul def: {:?}", t.elapsed());
        let t = std::time::Instant::now();
        let _ = e2().mul_def(&k, &g2_gen());
        println!("G2 mul def: {:?}", t.elapsed());
        let t = std::time::Instant::now();
        let mut p = g1_gen();
        for _ in 0..100 { p = e1().add(&p, &g1_gen()); }
        println!("G1 affine add: {:?}", t.elapsed() / 100);
        let mut p = g2_gen();
        let t = std::time::Instant::now();
        for _ in 0..100 { p = e2().add(&p, &g2_gen()); }
        println!("G2 affine add: {:?}", t.elapsed() / 100);
        let t = std::time::Instant::now();
        let e = refmodel::pairing::pairing(&g1_gen(), &g2_gen());
        println!("pairing: {:?}", t.elapsed());
        let t = std::time::Instant::now();
        let m = refmodel::pairing::miller(&g1_gen(), &g2_gen());
        println!("miller: {:?}", t.elapsed());
        let t = std::time::Instant::now();
        let _ = e.mul(&m);
        println!("fq12 mul: {:?}", t.elapsed());
        let t = std::time::Instant::now();
        let _ = m.inv();
        println!("fq12 inv: {:?}", t.elapsed());
        let t = std::time::Instant::now();
        let _ = refmodel::h2c::hash_to_curve_g2(refmodel::h2c::Expander::XmdSha256, b"abc", b"dst");
        println!("h2c g2: {:?}", t.elapsed());
        let t = std::time::Instant::now();
        let _ = refmodel::h2c::hash_to_curve_g1(refmodel::h2c::Expander::XmdSha256, b"abc", b"dst");
        println!("h2c g1: {:?}", t.elapsed());
        let t = std::time::Instant::now();
        let _ = Fq::from_u64(12345).sqrt();
        println!("fq sqrt: {:?}", t.elapsed());
        let t = std::time::Instant::now();
        let _ = refmodel::consts::w_frob();
        println!("w_frob table: {:?}", t.elapsed());
    }
}
