fn main() {
    let t = std::time::Instant::now();
    match refmodel::selftest(true) {
        Ok(v) => {
            for l in v {
                println!("ok: {}", l);
            }
        }
        Err(e) => {
            println!("SELFTEST FAILED: {}", e);
            std::process::exit(2);
        }
    }
    println!("{:?}", t.elapsed());
}
