//! Textbook reduced ate pairing of BLS12-381: Q is untwisted into E(Fq12) by
//! psi(x, y) = (x w^-2, y w^-3), the Miller function f_{|x|,Q}(P) is accumulated with affine
//! chord-and-tangent lines over the flat Fq12, conjugated (x < 0), and raised to 3 (q^12-1)/r.

use crate::consts::C;
use crate::curve::{e12, Curve, Pt};
use crate::fld::{bit, Fld, Fq, Fq12, Fq2};

pub fn untwist(qp: &Pt<Fq2>) -> Pt<Fq12> {
    match qp {
        Pt::Inf => Pt::Inf,
        Pt::Aff(x, y) => {
            let winv = Fq12::w().inv().unwrap();
            let w2i = winv.sqr();
            let w3i = w2i.mul(&winv);
            Pt::Aff(Fq12::from_fq2_times_wk(x, 0).mul(&w2i), Fq12::from_fq2_times_wk(y, 0).mul(&w3i))
        }
    }
}

pub fn embed(p: &Pt<Fq>) -> Pt<Fq12> {
    match p {
        Pt::Inf => Pt::Inf,
        Pt::Aff(x, y) => Pt::Aff(Fq12::from_fq(x), Fq12::from_fq(y)),
    }
}

/// value at P of the line through T and S (tangent if T = S), and T + S
fn line(e: &Curve<Fq12>, t: &Pt<Fq12>, s: &Pt<Fq12>, p: &(Fq12, Fq12)) -> (Fq12, Pt<Fq12>) {
    let (tx, ty) = t.xy().expect("T finite");
    let (sx, sy) = s.xy().expect("S finite");
    if tx == sx && ty != sy {
        // vertical line
        return (p.0.sub(tx), Pt::Inf);
    }
    let lam = if tx == sx {
        tx.sqr().mul_u64(3).mul(&ty.dbl().inv().unwrap())
    } else {
        sy.sub(ty).mul(&sx.sub(tx).inv().unwrap())
    };
    let val = p.1.sub(ty).sub(&lam.mul(&p.0.sub(tx)));
    (val, e.add(t, s))
}

/// f_{|x|,Q}(P) for finite P in E(Fq), Q in E'(Fq2)
pub fn miller(p: &Pt<Fq>, qp: &Pt<Fq2>) -> Fq12 {
    let e = e12();
    let pe = embed(p);
    let qe = untwist(qp);
    debug_assert!(e.on_curve(&pe) && e.on_curve(&qe));
    let pxy = match &pe {
        Pt::Aff(x, y) => (x.clone(), y.clone()),
        Pt::Inf => panic!("miller: P must be finite"),
    };
    let n = &C().x_abs;
    let mut f = Fq12::one();
    let mut t = qe.clone();
    for i in (0..n.bits() - 1).rev() {
        let (l, t2) = line(&e, &t, &t, &pxy);
        f = f.sqr().mul(&l);
        t = t2;
        if bit(n, i) {
            let (l, t2) = line(&e, &t, &qe, &pxy);
            f = f.mul(&l);
            t = t2;
        }
    }
    f
}

pub fn final_exp(f: &Fq12) -> Fq12 {
    f.pow(&C().final_exp)
}

/// the reduced pairing; 1 if either argument is the identity
pub fn pairing(p: &Pt<Fq>, qp: &Pt<Fq2>) -> Fq12 {
    if p.is_inf() || qp.is_inf() {
        return Fq12::one();
    }
    final_exp(&miller(p, qp).conj())
}

pub fn selftest() -> Result<(), String> {
    let e = pairing(&crate::curve::g1_gen(), &crate::curve::g2_gen());
    if e != crate::kat::published_e_g1_g2() {
        return Err("textbook pairing != published e(g1,g2)".into());
    }
    Ok(())
}
