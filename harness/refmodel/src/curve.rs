//! Short Weierstrass curves y^2 = x^3 + a x + b over any model field: the affine
//! chord-and-tangent law (the *definition*), a homogeneous-projective fast path for scalar
//! multiplication (validated against the definition by `selftest`), and constructors for
//! points of prescribed kind.

use crate::consts::C;
use crate::fld::{bit, Fld, Fq, Fq12, Fq2, SqrtFld, Z};
use num_traits::{One, Zero};

#[derive(Clone, PartialEq, Eq, Debug, Hash)]
pub enum Pt<F> {
    Inf,
    Aff(F, F),
}

impl<F: Fld> Pt<F> {
    pub fn is_inf(&self) -> bool {
        matches!(self, Pt::Inf)
    }
    pub fn xy(&self) -> Option<(&F, &F)> {
        match self {
            Pt::Inf => None,
            Pt::Aff(x, y) => Some((x, y)),
        }
    }
}

#[derive(Clone, Debug)]
pub struct Curve<F> {
    pub a: F,
    pub b: F,
}

impl<F: Fld> Curve<F> {
    pub fn rhs(&self, x: &F) -> F {
        x.sqr().mul(x).add(&self.a.mul(x)).add(&self.b)
    }

    pub fn on_curve(&self, p: &Pt<F>) -> bool {
        match p {
            Pt::Inf => true,
            Pt::Aff(x, y) => y.sqr() == self.rhs(x),
        }
    }

    pub fn neg(&self, p: &Pt<F>) -> Pt<F> {
        match p {
            Pt::Inf => Pt::Inf,
            Pt::Aff(x, y) => Pt::Aff(x.clone(), y.neg()),
        }
    }

    /// The textbook group law, all cases explicit.
    pub fn add(&self, p: &Pt<F>, q: &Pt<F>) -> Pt<F> {
        let (x1, y1) = match p {
            Pt::Inf => return q.clone(),
            Pt::Aff(x, y) => (x, y),
        };
        let (x2, y2) = match q {
            Pt::Inf => return p.clone(),
            Pt::Aff(x, y) => (x, y),
        };
        let lam = if x1 == x2 {
            if y1 == y2 && !y1.is_zero() {
                // tangent
                let num = x1.sqr().mul_u64(3).add(&self.a);
                let den = y1.dbl();
                num.mul(&den.inv().unwrap())
            } else {
                // P = -Q (includes 2-torsion points P = Q with y = 0)
                return Pt::Inf;
            }
        } else {
            y2.sub(y1).mul(&x2.sub(x1).inv().unwrap())
        };
        let x3 = lam.sqr().sub(x1).sub(x2);
        let y3 = lam.mul(&x1.sub(&x3)).sub(y1);
        Pt::Aff(x3, y3)
    }

    pub fn sub(&self, p: &Pt<F>, q: &Pt<F>) -> Pt<F> {
        self.add(p, &self.neg(q))
    }

    pub fn dbl(&self, p: &Pt<F>) -> Pt<F> {
        self.add(p, p)
    }

    /// [k]P by the definition: double-and-add over the affine law (slow)
    pub fn mul_def(&self, k: &Z, p: &Pt<F>) -> Pt<F> {
        let mut r = Pt::Inf;
        for i in (0..k.bits()).rev() {
            r = self.dbl(&r);
            if bit(k, i) {
                r = self.add(&r, p);
            }
        }
        r
    }

    // ---- homogeneous projective fast path (X:Y:Z), x = X/Z, y = Y/Z ----

    fn padd(&self, p: &(F, F, F), q: &(F, F, F)) -> (F, F, F) {
        let (x1, y1, z1) = p;
        let (x2, y2, z2) = q;
        if z1.is_zero() {
            return q.clone();
        }
        if z2.is_zero() {
            return p.clone();
        }
        let u = y2.mul(z1).sub(&y1.mul(z2));
        let v = x2.mul(z1).sub(&x1.mul(z2));
        if v.is_zero() {
            if u.is_zero() {
                return self.pdbl(p);
            }
            return (F::zero(), F::one(), F::zero());
        }
        let v2 = v.sqr();
        let v3 = v2.mul(&v);
        let z12 = z1.mul(z2);
        let v2x1z2 = v2.mul(&x1.mul(z2));
        let w = u.sqr().mul(&z12).sub(&v3).sub(&v2x1z2.dbl());
        let x3 = v.mul(&w);
        let y3 = u.mul(&v2x1z2.sub(&w)).sub(&v3.mul(&y1.mul(z2)));
        let z3 = v3.mul(&z12);
        (x3, y3, z3)
    }

    fn pdbl(&self, p: &(F, F, F)) -> (F, F, F) {
        let (x, y, zc) = p;
        if zc.is_zero() || y.is_zero() {
            return (F::zero(), F::one(), F::zero());
        }
        let w = self.a.mul(&zc.sqr()).add(&x.sqr().mul_u64(3));
        let s = y.mul(zc);
        let b = x.mul(y).mul(&s);
        let h = w.sqr().sub(&b.mul_u64(8));
        let x3 = h.mul(&s).dbl();
        let y3 = w.mul(&b.mul_u64(4).sub(&h)).sub(&y.sqr().mul(&s.sqr()).mul_u64(8));
        let z3 = s.sqr().mul(&s).mul_u64(8);
        (x3, y3, z3)
    }

    /// [k]P, fast path (validated against `mul_def` by `selftest`)
    pub fn mul(&self, k: &Z, p: &Pt<F>) -> Pt<F> {
        let (x, y) = match p {
            Pt::Inf => return Pt::Inf,
            Pt::Aff(x, y) => (x, y),
        };
        let pp = (x.clone(), y.clone(), F::one());
        let mut r = (F::zero(), F::one(), F::zero());
        for i in (0..k.bits()).rev() {
            r = self.pdbl(&r);
            if bit(k, i) {
                r = self.padd(&r, &pp);
            }
        }
        if r.2.is_zero() {
            return Pt::Inf;
        }
        let zi = r.2.inv().unwrap();
        Pt::Aff(r.0.mul(&zi), r.1.mul(&zi))
    }

    pub fn mul_u64(&self, k: u64, p: &Pt<F>) -> Pt<F> {
        self.mul(&Z::from(k), p)
    }
}

impl<F: SqrtFld> Curve<F> {
    /// the two points with this x, if any:  (x, y) with y some root
    pub fn lift_x(&self, x: &F) -> Option<Pt<F>> {
        self.rhs(x).sqrt().map(|y| Pt::Aff(x.clone(), y))
    }

    /// a point of the full curve group determined by a word stream: first x (counting up in the
    /// stream) with a root; the next word picks the sign
    pub fn point_from_words(&self, next: &mut dyn FnMut() -> u64) -> Pt<F> {
        loop {
            let x = F::from_words(next);
            if let Some(Pt::Aff(x, y)) = self.lift_x(&x) {
                let y = if next() & 1 == 1 { y.neg() } else { y };
                return Pt::Aff(x, y);
            }
        }
    }
}

/// splitmix64: expands a generated seed into a word stream (a pure function of the seed)
pub struct Words(pub u64);
impl Words {
    pub fn next(&mut self) -> u64 {
        self.0 = self.0.wrapping_add(0x9E3779B97F4A7C15);
        let mut z = self.0;
        z = (z ^ (z >> 30)).wrapping_mul(0xBF58476D1CE4E5B9);
        z = (z ^ (z >> 27)).wrapping_mul(0x94D049BB133111EB);
        z ^ (z >> 31)
    }
}

// ---------------------------------------------------------------------------------------------
// the concrete curves
// ---------------------------------------------------------------------------------------------

/// E: y^2 = x^3 + 4 over Fq
pub fn e1() -> Curve<Fq> {
    Curve { a: Fq::zero(), b: Fq::from_u64(4) }
}

/// E': y^2 = x^3 + 4(1+u) over Fq2
pub fn e2() -> Curve<Fq2> {
    Curve { a: Fq2::zero(), b: Fq2::new(Fq::from_u64(4), Fq::from_u64(4)) }
}

/// 11-isogenous curve of RFC 9380 8.8.1
pub fn e1_iso() -> Curve<Fq> {
    Curve {
        a: Fq::from_hex("144698a3b8e9433d693a02c96d4982b0ea985383ee66a8d8e8981aefd881ac98936f8da0e0f97f5cf428082d584c1d"),
        b: Fq::from_hex("12e2908d11688030018b12e8753eee3b2016c1f0f24f4070a0b9c14fcef35ef55a23215a316ceaa5d1cc48e98e172be0"),
    }
}

/// 3-isogenous curve of RFC 9380 8.8.2: A' = 240 I, B' = 1012 (1 + I)
pub fn e2_iso() -> Curve<Fq2> {
    Curve {
        a: Fq2::new(Fq::zero(), Fq::from_u64(240)),
        b: Fq2::new(Fq::from_u64(1012), Fq::from_u64(1012)),
    }
}

/// E over Fq12 (for the textbook pairing)
pub fn e12() -> Curve<Fq12> {
    Curve { a: Fq12::zero(), b: Fq12::from_u64(4) }
}

pub fn g1_gen() -> Pt<Fq> {
    Pt::Aff(
        Fq::new(crate::fld::zdec("3685416753713387016781088315183077757961620795782546409894578378688607592378376318836054947676345821548104185464507")),
        Fq::new(crate::fld::zdec("1339506544944476473020471379941921221584933875938349620426543736416511423956333506472724655353366534992391756441569")),
    )
}

pub fn g2_gen() -> Pt<Fq2> {
    use crate::fld::zdec;
    Pt::Aff(
        Fq2::new(
            Fq::new(zdec("352701069587466618187139116011060144890029952792775240219908644239793785735715026873347600343865175952761926303160")),
            Fq::new(zdec("3059144344244213709971259814753781636986470325476647558659373206291635324768958432433509563104347017837885763365758")),
        ),
        Fq2::new(
            Fq::new(zdec("1985150602287291935568054521177171638300868978215655730859378665066344726373823718423869104263333984641494340347905")),
            Fq::new(zdec("927553665492332455747201965776037880757740193453592970025027978793976877002675564980949289727957565575433344219582")),
        ),
    )
}

/// full group orders
pub fn n1() -> Z {
    &C().h1 * &C().r
}
pub fn n2() -> Z {
    &C().h2 * &C().r
}

/// primes dividing h1 with their exponents (F5)
pub const H1_PRIMES: [(u64, u32); 5] = [(3, 1), (11, 2), (10177, 2), (859267, 2), (52437899, 2)];
/// small primes dividing h2 with exponents; the remaining factor is a 135-bit prime
pub const H2_SMALL_PRIMES: [(u64, u32); 5] = [(13, 2), (23, 2), (2713, 1), (11953, 1), (262069, 1)];

pub fn h2_big_prime() -> Z {
    let mut h = C().h2.clone();
    for (p, e) in H2_SMALL_PRIMES.iter() {
        for _ in 0..*e {
            let pz = Z::from(*p);
            assert!((&h % &pz).is_zero());
            h = h / pz;
        }
    }
    h
}

/// A point of exact prime order `l` (l | n, l^e || n) on `curve` with group order n, derived
/// from a seed: [n / l^e] R has l-power order; multiply by l until the next step would kill it.
pub fn point_of_order<F: SqrtFld>(curve: &Curve<F>, n: &Z, l: &Z, e: u32, seed: u64) -> Pt<F> {
    let mut w = Words(seed);
    let mut le = Z::one();
    for _ in 0..e {
        le = le * l;
    }
    let cof = n / &le;
    loop {
        let r = curve.point_from_words(&mut || w.next());
        let mut p = curve.mul(&cof, &r);
        if p.is_inf() {
            continue;
        }
        loop {
            let nxt = curve.mul(l, &p);
            if nxt.is_inf() {
                return p;
            }
            p = nxt;
        }
    }
}

/// start-up self-test of the fast path against the definition and of the constants
pub fn selftest() -> Result<(), String> {
    fn chk<F: SqrtFld>(name: &str, c: &Curve<F>, n: &Z, small: &[(u64, u32)]) -> Result<(), String> {
        let mut w = Words(0x5e1f7e57 ^ (name.len() as u64));
        for i in 0..2 {
            let p = c.point_from_words(&mut || w.next());
            if !c.on_curve(&p) {
                return Err(format!("{}: generated point off curve", name));
            }
            let k = Z::from(w.next()) * Z::from(w.next()) + Z::from(i as u64);
            if c.mul(&k, &p) != c.mul_def(&k, &p) {
                return Err(format!("{}: fast mul != definition", name));
            }
            if !c.mul(n, &p).is_inf() {
                return Err(format!("{}: [n]P != O", name));
            }
        }
        for (l, e) in small.iter().take(2) {
            let p = point_of_order(c, n, &Z::from(*l), *e, 7);
            for k in [1u64, 2, 3, 4, 5, 7, *l - 1, *l, *l + 1] {
                let kz = Z::from(k);
                if c.mul(&kz, &p) != c.mul_def(&kz, &p) {
                    return Err(format!("{}: fast mul != definition on order-{} point, k={}", name, l, k));
                }
            }
            if !c.mul(&Z::from(*l), &p).is_inf() {
                return Err(format!("{}: order-{} point has wrong order", name, l));
            }
        }
        Ok(())
    }
    chk("E1", &e1(), &n1(), &H1_PRIMES)?;
    chk("E2", &e2(), &n2(), &H2_SMALL_PRIMES)?;
    chk("E1'", &e1_iso(), &n1(), &H1_PRIMES)?;
    chk("E2'", &e2_iso(), &n2(), &H2_SMALL_PRIMES)?;
    // generators: on curve, order r
    if !e1().on_curve(&g1_gen()) || !e1().mul(&C().r, &g1_gen()).is_inf() {
        return Err("g1 generator".into());
    }
    if !e2().on_curve(&g2_gen()) || !e2().mul(&C().r, &g2_gen()).is_inf() {
        return Err("g2 generator".into());
    }
    Ok(())
}
