//! ZCash BLS12-381 point encoding, written from src/bls12_381/README.md of the repository:
//! big-endian, Fq2 as c1 || c0, three flag bits in the most significant bits of byte 0
//! (bit 7 compression, bit 6 infinity, bit 5 "y is the lexicographically larger root").

use crate::consts::{q, C};
use crate::curve::{e1, e2, Curve, Pt};
use crate::fld::{Fld, Fq, Fq2, SqrtFld, Z};

/// validation stages in the order the property states them
#[derive(Clone, Copy, Debug, PartialEq, Eq, Hash, PartialOrd, Ord)]
pub enum Stage {
    FormFlag,
    InfSortFlags,
    CoordRange,
    Curve,
    Subgroup,
}

#[derive(Clone, Debug, PartialEq, Eq)]
pub enum Decoded<F> {
    Inf,
    /// coordinates as decoded; for the checked decoders a point of the order-r subgroup
    Coords(F, F),
}

impl<F: Fld> Decoded<F> {
    pub fn to_pt(&self) -> Pt<F> {
        match self {
            Decoded::Inf => Pt::Inf,
            Decoded::Coords(x, y) => Pt::Aff(x.clone(), y.clone()),
        }
    }
}

pub trait EncFld: SqrtFld {
    /// encoded size in bytes
    fn size() -> usize;
    fn to_be(&self) -> Vec<u8>;
    /// None if any component is >= q
    fn from_be(b: &[u8]) -> Option<Self>;
    fn curve() -> Curve<Self>;
}

fn fq_to_be(a: &Fq) -> Vec<u8> {
    let raw = a.0.to_bytes_be();
    let mut out = vec![0u8; 48 - raw.len()];
    out.extend_from_slice(&raw);
    out
}

fn fq_from_be(b: &[u8]) -> Option<Fq> {
    let v = Z::from_bytes_be(b);
    if &v < q() {
        Some(Fq(v))
    } else {
        None
    }
}

impl EncFld for Fq {
    fn size() -> usize {
        48
    }
    fn to_be(&self) -> Vec<u8> {
        fq_to_be(self)
    }
    fn from_be(b: &[u8]) -> Option<Self> {
        fq_from_be(b)
    }
    fn curve() -> Curve<Self> {
        e1()
    }
}

impl EncFld for Fq2 {
    fn size() -> usize {
        96
    }
    fn to_be(&self) -> Vec<u8> {
        let mut o = fq_to_be(&self.c1);
        o.extend_from_slice(&fq_to_be(&self.c0));
        o
    }
    fn from_be(b: &[u8]) -> Option<Self> {
        let c1 = fq_from_be(&b[..48]);
        let c0 = fq_from_be(&b[48..96]);
        Some(Fq2::new(c0?, c1?))
    }
    fn curve() -> Curve<Self> {
        e2()
    }
}

pub fn encode<F: EncFld>(p: &Pt<F>, compressed: bool) -> Vec<u8> {
    let n = if compressed { F::size() } else { 2 * F::size() };
    let mut out = match p {
        Pt::Inf => {
            let mut o = vec![0u8; n];
            o[0] |= 0x40;
            o
        }
        Pt::Aff(x, y) => {
            let mut o = x.to_be();
            if compressed {
                if y.lex_larger_than_neg() {
                    o[0] |= 0x20;
                }
            } else {
                o.extend_from_slice(&y.to_be());
            }
            o
        }
    };
    if compressed {
        out[0] |= 0x80;
    }
    debug_assert_eq!(out.len(), n);
    out
}

pub fn in_subgroup<F: EncFld>(p: &Pt<F>) -> bool {
    let c = F::curve();
    c.on_curve(p) && c.mul(&C().r, p).is_inf()
}

/// Decode `bytes` (length must be size or 2*size). `checked` adds the curve-equation test
/// (uncompressed) and the subgroup test. Returns the first failing stage.
pub fn decode<F: EncFld>(bytes: &[u8], compressed: bool, checked: bool) -> Result<Decoded<F>, Stage> {
    let n = if compressed { F::size() } else { 2 * F::size() };
    assert_eq!(bytes.len(), n);
    let b0 = bytes[0];
    let c_flag = b0 & 0x80 != 0;
    let i_flag = b0 & 0x40 != 0;
    let s_flag = b0 & 0x20 != 0;
    if c_flag != compressed {
        return Err(Stage::FormFlag);
    }
    if i_flag {
        // everything except the two top bits must be zero (this includes the sort flag)
        let rest_zero = (b0 & 0x3f) == 0 && bytes[1..].iter().all(|b| *b == 0);
        return if rest_zero { Ok(Decoded::Inf) } else { Err(Stage::InfSortFlags) };
    }
    if !compressed && s_flag {
        return Err(Stage::InfSortFlags);
    }
    let mut body = bytes.to_vec();
    body[0] &= 0x1f;
    let curve = F::curve();
    if compressed {
        let x = F::from_be(&body[..F::size()]).ok_or(Stage::CoordRange)?;
        let y = curve.rhs(&x).sqrt().ok_or(Stage::Curve)?;
        let y = if y.lex_larger_than_neg() == s_flag { y } else { y.neg() };
        // y = 0 cannot happen on these curves (no 2-torsion), so exactly one root is "larger"
        let p = Pt::Aff(x.clone(), y.clone());
        if checked && !curve.mul(&C().r, &p).is_inf() {
            return Err(Stage::Subgroup);
        }
        Ok(Decoded::Coords(x, y))
    } else {
        let x = F::from_be(&body[..F::size()]);
        let y = F::from_be(&body[F::size()..]);
        let (x, y) = match (x, y) {
            (Some(x), Some(y)) => (x, y),
            _ => return Err(Stage::CoordRange),
        };
        if checked {
            let p = Pt::Aff(x.clone(), y.clone());
            if !curve.on_curve(&p) {
                return Err(Stage::Curve);
            }
            if !curve.mul(&C().r, &p).is_inf() {
                return Err(Stage::Subgroup);
            }
        }
        Ok(Decoded::Coords(x, y))
    }
}

pub fn selftest() -> Result<(), String> {
    use crate::curve::{g1_gen, g2_gen};
    for comp in [true, false] {
        let b = encode(&g1_gen(), comp);
        if decode::<Fq>(&b, comp, true).map(|d| d.to_pt()) != Ok(g1_gen()) {
            return Err("G1 generator round trip".into());
        }
        let b = encode(&g2_gen(), comp);
        if decode::<Fq2>(&b, comp, true).map(|d| d.to_pt()) != Ok(g2_gen()) {
            return Err("G2 generator round trip".into());
        }
        let b = encode::<Fq>(&Pt::Inf, comp);
        if decode::<Fq>(&b, comp, true) != Ok(Decoded::Inf) {
            return Err("identity round trip".into());
        }
        // (0, 2) has order 3: on the curve, not in the subgroup
        let p3 = Pt::Aff(Fq::zero(), Fq::from_u64(2));
        let b = encode(&p3, comp);
        if decode::<Fq>(&b, comp, true) != Err(Stage::Subgroup) {
            return Err("order-3 point must fail the subgroup stage".into());
        }
        if decode::<Fq>(&b, comp, false).map(|d| d.to_pt()) != Ok(p3) {
            return Err("order-3 point must pass the unchecked decoder".into());
        }
    }
    Ok(())
}
