//! RFC 9380 written from the document: expand_message (5.3), hash_to_field (5.2), simplified
//! SWU (6.6.2, straight from the definition with inv0 / is_square / sgn0), the isogenies as
//! rational maps evaluated in affine coordinates (appendix E, coefficient tables frozen),
//! clear_cofactor as [h_eff]P, and the suite compositions.

use crate::consts::{q, C};
use crate::curve::{e1, e1_iso, e2, e2_iso, Curve, Pt};
use crate::fld::{Fld, Fq, Fq2, SqrtFld, Z};
use crate::iso_tables::*;
use digest::{ExtendableOutput, Input, XofReader};
use num_traits::Zero;
use sha2::Digest;

// ---------------------------------------------------------------------------------------------
// expand_message
// ---------------------------------------------------------------------------------------------

#[derive(Clone, Copy, Debug, PartialEq, Eq, Hash)]
pub enum Expander {
    XmdSha256,
    XmdSha512,
    XofShake128,
    XofShake256,
    // further Merkle-Damgard hashes (not part of a BLS12-381 suite; expand_message_xmd is generic in the hash)
    XmdSha224,
    XmdSha384,
    XmdSha512t224,
    XmdSha512t256,
}

impl Expander {
    /// the four expanders used by the hash-to-curve suites
    pub fn all() -> [Expander; 4] {
        [Expander::XmdSha256, Expander::XmdSha512, Expander::XofShake128, Expander::XofShake256]
    }
    /// all expanders of the model; the first four are `all()`
    pub fn all_extended() -> [Expander; 8] {
        [Expander::XmdSha256, Expander::XmdSha512, Expander::XofShake128, Expander::XofShake256, Expander::XmdSha224, Expander::XmdSha384, Expander::XmdSha512t224, Expander::XmdSha512t256]
    }
    /// (b_in_bytes, s_in_bytes) = (output size, input block size) of the hash, FIPS 180-4, for the XMD variants
    pub fn xmd_params(&self) -> Option<(usize, usize)> {
        match self {
            Expander::XmdSha256 => Some((32, 64)),
            Expander::XmdSha512 => Some((64, 128)),
            Expander::XmdSha224 => Some((28, 64)),
            Expander::XmdSha384 => Some((48, 128)),
            Expander::XmdSha512t224 => Some((28, 128)),
            Expander::XmdSha512t256 => Some((32, 128)),
            _ => None,
        }
    }
}

macro_rules! md {
    ($t:ty, $parts:expr) => {{
        let mut h = <$t>::new();
        for p in $parts {
            Digest::input(&mut h, p);
        }
        h.result().to_vec()
    }};
}

fn hash(e: Expander, parts: &[&[u8]]) -> Vec<u8> {
    match e {
        Expander::XmdSha256 => md!(sha2::Sha256, parts),
        Expander::XmdSha512 => md!(sha2::Sha512, parts),
        Expander::XmdSha224 => md!(sha2::Sha224, parts),
        Expander::XmdSha384 => md!(sha2::Sha384, parts),
        Expander::XmdSha512t224 => md!(sha2::Sha512Trunc224, parts),
        Expander::XmdSha512t256 => md!(sha2::Sha512Trunc256, parts),
        _ => unreachable!(),
    }
}

/// expand_message_xmd, RFC 9380 5.3.1. `None` means the RFC says ABORT.
pub fn expand_message_xmd(e: Expander, msg: &[u8], dst: &[u8], len_in_bytes: usize) -> Option<Vec<u8>> {
    let (b_in_bytes, s_in_bytes) = e.xmd_params().unwrap();
    let ell = (len_in_bytes + b_in_bytes - 1) / b_in_bytes;
    if ell > 255 || len_in_bytes > 65535 || dst.len() > 255 {
        return None;
    }
    let mut dst_prime = dst.to_vec();
    dst_prime.push(dst.len() as u8); // I2OSP(len(DST), 1)
    let z_pad = vec![0u8; s_in_bytes];
    let l_i_b_str = [(len_in_bytes >> 8) as u8, (len_in_bytes & 0xff) as u8];
    let b0 = hash(e, &[&z_pad, msg, &l_i_b_str, &[0u8], &dst_prime]);
    let mut b_prev = hash(e, &[&b0, &[1u8], &dst_prime]);
    let mut uniform = b_prev.clone();
    for i in 2..=ell {
        let x: Vec<u8> = b0.iter().zip(b_prev.iter()).map(|(a, b)| a ^ b).collect();
        b_prev = hash(e, &[&x, &[i as u8], &dst_prime]);
        uniform.extend_from_slice(&b_prev);
    }
    uniform.truncate(len_in_bytes);
    Some(uniform)
}

/// expand_message_xof, RFC 9380 5.3.2
pub fn expand_message_xof(e: Expander, msg: &[u8], dst: &[u8], len_in_bytes: usize) -> Option<Vec<u8>> {
    if len_in_bytes > 65535 || dst.len() > 255 {
        return None;
    }
    let mut dst_prime = dst.to_vec();
    dst_prime.push(dst.len() as u8);
    let l = [(len_in_bytes >> 8) as u8, (len_in_bytes & 0xff) as u8];
    let mut out = vec![0u8; len_in_bytes];
    match e {
        Expander::XofShake128 => {
            let mut h = sha3::Shake128::default();
            h.input(msg);
            h.input(&l);
            h.input(&dst_prime);
            h.xof_result().read(&mut out);
        }
        Expander::XofShake256 => {
            let mut h = sha3::Shake256::default();
            h.input(msg);
            h.input(&l);
            h.input(&dst_prime);
            h.xof_result().read(&mut out);
        }
        _ => unreachable!(),
    }
    Some(out)
}

pub fn expand_message(e: Expander, msg: &[u8], dst: &[u8], len_in_bytes: usize) -> Option<Vec<u8>> {
    if e.xmd_params().is_some() {
        expand_message_xmd(e, msg, dst, len_in_bytes)
    } else {
        expand_message_xof(e, msg, dst, len_in_bytes)
    }
}

/// OS2IP(block) mod p
pub fn os2ip_mod(block: &[u8], p: &Z) -> Z {
    Z::from_bytes_be(block) % p
}

/// hash_to_field for Fq (L = 64), m = 1
pub fn hash_to_fq(e: Expander, msg: &[u8], dst: &[u8], count: usize) -> Option<Vec<Fq>> {
    let bytes = expand_message(e, msg, dst, count * 64)?;
    Some((0..count).map(|i| Fq(os2ip_mod(&bytes[i * 64..(i + 1) * 64], q()))).collect())
}

/// hash_to_field for Fr with L = 48
pub fn hash_to_fr(e: Expander, msg: &[u8], dst: &[u8], count: usize) -> Option<Vec<Z>> {
    let bytes = expand_message(e, msg, dst, count * 48)?;
    Some((0..count).map(|i| os2ip_mod(&bytes[i * 48..(i + 1) * 48], &C().r)).collect())
}

/// hash_to_field for Fq2 (L = 64, m = 2): real part first
pub fn hash_to_fq2(e: Expander, msg: &[u8], dst: &[u8], count: usize) -> Option<Vec<Fq2>> {
    let bytes = expand_message(e, msg, dst, count * 128)?;
    Some(
        (0..count)
            .map(|i| {
                let o = i * 128;
                Fq2::new(Fq(os2ip_mod(&bytes[o..o + 64], q())), Fq(os2ip_mod(&bytes[o + 64..o + 128], q())))
            })
            .collect(),
    )
}

// ---------------------------------------------------------------------------------------------
// simplified SWU (6.6.2), literally
// ---------------------------------------------------------------------------------------------

pub fn z1() -> Fq {
    Fq::from_u64(11)
}

/// Z = -(2 + I)
pub fn z2() -> Fq2 {
    Fq2::new(Fq::from_u64(2).neg(), Fq::from_u64(1).neg())
}

fn inv0<F: Fld>(a: &F) -> F {
    a.inv().unwrap_or_else(F::zero)
}

/// map_to_curve_simple_swu(u) on y^2 = x^3 + A x + B with the given Z
pub fn sswu<F: SqrtFld>(curve: &Curve<F>, zc: &F, u: &F) -> Pt<F> {
    let a = &curve.a;
    let b = &curve.b;
    // 1. tv1 = inv0(Z^2 u^4 + Z u^2)
    let zu2 = zc.mul(&u.sqr());
    let tv1 = inv0(&zu2.sqr().add(&zu2));
    // 2. x1 = (-B/A)(1 + tv1) ; 3. if tv1 == 0: x1 = B/(Z A)
    let x1 = if tv1.is_zero() {
        b.mul(&zc.mul(a).inv().unwrap())
    } else {
        b.neg().mul(&a.inv().unwrap()).mul(&F::one().add(&tv1))
    };
    let gx1 = curve.rhs(&x1);
    let x2 = zu2.mul(&x1);
    let gx2 = curve.rhs(&x2);
    let (x, y) = if gx1.is_square() {
        (x1, gx1.sqrt().expect("gx1 square"))
    } else {
        (x2, gx2.sqrt().expect("gx2 must be square when gx1 is not"))
    };
    let y = if u.sgn0() != y.sgn0() { y.neg() } else { y };
    Pt::Aff(x, y)
}

pub fn sswu_g1(u: &Fq) -> Pt<Fq> {
    sswu(&e1_iso(), &z1(), u)
}
pub fn sswu_g2(u: &Fq2) -> Pt<Fq2> {
    sswu(&e2_iso(), &z2(), u)
}

/// which of x1 / x2 the map picked (true = x1, i.e. g(x1) is a square)
pub fn sswu_uses_x1<F: SqrtFld>(curve: &Curve<F>, zc: &F, u: &F) -> bool {
    let zu2 = zc.mul(&u.sqr());
    let tv1 = inv0(&zu2.sqr().add(&zu2));
    let x1 = if tv1.is_zero() {
        curve.b.mul(&zc.mul(&curve.a).inv().unwrap())
    } else {
        curve.b.neg().mul(&curve.a.inv().unwrap()).mul(&F::one().add(&tv1))
    };
    curve.rhs(&x1).is_square()
}

pub fn sswu_is_exceptional<F: SqrtFld>(zc: &F, u: &F) -> bool {
    let zu2 = zc.mul(&u.sqr());
    zu2.sqr().add(&zu2).is_zero()
}

/// the SSWU-exceptional inputs of G1 other than 0: u^2 = -1/11
pub fn g1_exceptional_roots() -> (Fq, Fq) {
    let t = Fq::from_u64(11).inv().unwrap().neg();
    let s = t.sqrt().expect("-1/11 is a square in Fq (F7)");
    (s.clone(), s.neg())
}

/// All field elements u' (possibly including +-u) whose SSWU image has the same x-coordinate
/// as sswu(u): solve x1(t) = X and x2(t) = X for t = Z u'^2 (two quadratics), keep verified ones.
pub fn sswu_same_x_preimages<F: SqrtFld>(curve: &Curve<F>, zc: &F, u: &F) -> Vec<F> {
    let p = sswu(curve, zc, u);
    match &p {
        Pt::Aff(x, _) => sswu_preimages_of_x(curve, zc, x),
        Pt::Inf => vec![],
    }
}

/// All u whose SSWU image has x-coordinate `xx` (empty when the map never produces that x).
pub fn sswu_preimages_of_x<F: SqrtFld>(curve: &Curve<F>, zc: &F, xx: &F) -> Vec<F> {
    let xx = xx.clone();
    let a = &curve.a;
    let b = &curve.b;
    let mut res: Vec<F> = vec![];
    let inv2 = F::from_u64(2).inv().unwrap();
    let zinv = zc.inv().unwrap();
    let try_t = |t: F, res: &mut Vec<F>| {
        if let Some(w) = t.mul(&zinv).sqrt() {
            if !w.is_zero() {
                for cand in [w.clone(), w.neg()] {
                    if let Pt::Aff(cx, _) = sswu(curve, zc, &cand) {
                        if cx == xx && !res.contains(&cand) {
                            res.push(cand);
                        }
                    }
                }
            }
        }
    };
    // x1(t) = X:  t^2 + t = c  where 1/c = -A X / B - 1
    let d = a.mul(&xx).mul(&b.inv().unwrap()).neg().sub(&F::one());
    if let Some(c) = d.inv() {
        let disc = F::one().add(&c.mul_u64(4));
        if let Some(s) = disc.sqrt() {
            for sg in [s.clone(), s.neg()] {
                let t = sg.sub(&F::one()).mul(&inv2);
                try_t(t, &mut res);
            }
        }
    }
    // x2(t) = t x1(t) = X:  t^2 + (1+k) t + (1+k) = 0 with k = A X / B
    let k = a.mul(&xx).mul(&b.inv().unwrap());
    let b_ = F::one().add(&k);
    let disc = b_.sqr().sub(&b_.mul_u64(4));
    if let Some(s) = disc.sqrt() {
        for sg in [s.clone(), s.neg()] {
            let t = sg.sub(&b_).mul(&inv2);
            try_t(t, &mut res);
        }
    }
    res
}

/// a partner u' not in {u, -u} with sswu(u') = sswu(u) (same = true) or = -sswu(u) (same = false)
pub fn sswu_partner<F: SqrtFld>(curve: &Curve<F>, zc: &F, u: &F, same: bool) -> Option<F> {
    let p = sswu(curve, zc, u);
    let target = if same { p.clone() } else { curve.neg(&p) };
    for c in sswu_same_x_preimages(curve, zc, u) {
        if c == *u || c == u.neg() {
            continue;
        }
        // sign of the image follows sgn0(u'): one of c, -c has each sign
        for cand in [c.clone(), c.neg()] {
            if sswu(curve, zc, &cand) == target {
                return Some(cand);
            }
        }
    }
    None
}

/// All u with sswu(u) = P exactly (sign included); empty for the identity or points outside the image.
pub fn sswu_preimages_of_point<F: SqrtFld>(curve: &Curve<F>, zc: &F, p: &Pt<F>) -> Vec<F> {
    let x = match p {
        Pt::Aff(x, _) => x,
        Pt::Inf => return vec![],
    };
    let mut res = vec![];
    for c in sswu_preimages_of_x(curve, zc, x) {
        for cand in [c.clone(), c.neg()] {
            if sswu(curve, zc, &cand) == *p && !res.contains(&cand) {
                res.push(cand);
            }
        }
    }
    res
}

// ---------------------------------------------------------------------------------------------
// isogenies (appendix E): rational maps with frozen coefficient tables
// ---------------------------------------------------------------------------------------------

pub struct IsoTables<F> {
    pub xnum: Vec<F>,
    pub xden: Vec<F>,
    pub ynum: Vec<F>,
    pub yden: Vec<F>,
}

pub fn iso11_tables() -> IsoTables<Fq> {
    let f = |t: &[&str]| t.iter().map(|s| Fq::from_hex(s)).collect::<Vec<_>>();
    IsoTables { xnum: f(&ISO11_XNUM), xden: f(&ISO11_XDEN), ynum: f(&ISO11_YNUM), yden: f(&ISO11_YDEN) }
}

pub fn iso3_tables() -> IsoTables<Fq2> {
    let f = |t: &[(&str, &str)]| t.iter().map(|(a, b)| Fq2::from_hex(a, b)).collect::<Vec<_>>();
    IsoTables { xnum: f(&ISO3_XNUM), xden: f(&ISO3_XDEN), ynum: f(&ISO3_YNUM), yden: f(&ISO3_YDEN) }
}

fn horner<F: Fld>(cs: &[F], x: &F) -> F {
    let mut acc = F::zero();
    for c in cs.iter().rev() {
        acc = acc.mul(x).add(c);
    }
    acc
}

/// x' = xnum(x)/xden(x), y' = y ynum(x)/yden(x); poles (kernel points) and O map to O
pub fn iso_map<F: Fld>(t: &IsoTables<F>, p: &Pt<F>) -> Pt<F> {
    let (x, y) = match p {
        Pt::Inf => return Pt::Inf,
        Pt::Aff(x, y) => (x, y),
    };
    let xd = horner(&t.xden, x);
    let yd = horner(&t.yden, x);
    if xd.is_zero() || yd.is_zero() {
        return Pt::Inf;
    }
    let xn = horner(&t.xnum, x);
    let yn = horner(&t.ynum, x);
    Pt::Aff(xn.mul(&xd.inv().unwrap()), y.mul(&yn).mul(&yd.inv().unwrap()))
}

pub fn iso_g1(p: &Pt<Fq>) -> Pt<Fq> {
    iso_map(&iso11_tables(), p)
}
pub fn iso_g2(p: &Pt<Fq2>) -> Pt<Fq2> {
    iso_map(&iso3_tables(), p)
}

// ---------------------------------------------------------------------------------------------
// clear_cofactor and the compositions
// ---------------------------------------------------------------------------------------------

pub fn clear_cofactor_g1(p: &Pt<Fq>) -> Pt<Fq> {
    e1().mul(&C().heff1, p)
}
pub fn clear_cofactor_g2(p: &Pt<Fq2>) -> Pt<Fq2> {
    e2().mul(&C().heff2, p)
}

pub fn map_to_curve_g1(u: &Fq) -> Pt<Fq> {
    clear_cofactor_g1(&iso_g1(&sswu_g1(u)))
}
pub fn map_to_curve_g2(u: &Fq2) -> Pt<Fq2> {
    clear_cofactor_g2(&iso_g2(&sswu_g2(u)))
}
pub fn map2_to_curve_g1(u0: &Fq, u1: &Fq) -> Pt<Fq> {
    let q0 = iso_g1(&sswu_g1(u0));
    let q1 = iso_g1(&sswu_g1(u1));
    clear_cofactor_g1(&e1().add(&q0, &q1))
}
pub fn map2_to_curve_g2(u0: &Fq2, u1: &Fq2) -> Pt<Fq2> {
    let q0 = iso_g2(&sswu_g2(u0));
    let q1 = iso_g2(&sswu_g2(u1));
    clear_cofactor_g2(&e2().add(&q0, &q1))
}

pub fn hash_to_curve_g1(e: Expander, msg: &[u8], dst: &[u8]) -> Option<Pt<Fq>> {
    let u = hash_to_fq(e, msg, dst, 2)?;
    Some(map2_to_curve_g1(&u[0], &u[1]))
}
pub fn encode_to_curve_g1(e: Expander, msg: &[u8], dst: &[u8]) -> Option<Pt<Fq>> {
    let u = hash_to_fq(e, msg, dst, 1)?;
    Some(map_to_curve_g1(&u[0]))
}
pub fn hash_to_curve_g2(e: Expander, msg: &[u8], dst: &[u8]) -> Option<Pt<Fq2>> {
    let u = hash_to_fq2(e, msg, dst, 2)?;
    Some(map2_to_curve_g2(&u[0], &u[1]))
}
pub fn encode_to_curve_g2(e: Expander, msg: &[u8], dst: &[u8]) -> Option<Pt<Fq2>> {
    let u = hash_to_fq2(e, msg, dst, 1)?;
    Some(map_to_curve_g2(&u[0]))
}

// ---------------------------------------------------------------------------------------------
// branch-cell classification for C15 (defined without any crate constant)
// ---------------------------------------------------------------------------------------------

/// For G2: (g(x1) is a square?, index of the root-of-unity class 0..4, sgn0(u)).
/// With c = (N D^7)(N D^15)^((q^2-9)/16) the textbook candidate root of g = N/D, the ratio
/// zeta = N/(c^2 D) is a 4th root of unity when g is a square and a primitive 8th root otherwise.
pub fn sswu_g2_cell(u: &Fq2) -> Option<(bool, u8, u8)> {
    let curve = e2_iso();
    let zc = z2();
    let a = &curve.a;
    let b = &curve.b;
    let zu2 = zc.mul(&u.sqr());
    let d = zu2.sqr().add(&zu2);
    if d.is_zero() {
        return None;
    }
    let num = b.mul(&d.add(&Fq2::one()));
    let den = a.mul(&d).neg();
    let gden = den.sqr().mul(&den);
    let gnum = num.sqr().mul(&num).add(&a.mul(&num).mul(&den.sqr())).add(&b.mul(&gden));
    if gnum.is_zero() {
        return None;
    }
    let d2 = gden.sqr();
    let d4 = d2.sqr();
    let d7 = d4.mul(&d2).mul(&gden);
    let d8 = d4.sqr();
    let d15 = d8.mul(&d7);
    let e = (q() * q() - Z::from(9u32)) / Z::from(16u32);
    let c = gnum.mul(&d7).mul(&gnum.mul(&d15).pow(&e));
    let sq = gnum.mul(&gden.inv()?).is_square();
    let zeta = gnum.mul(&c.sqr().mul(&gden).inv()?);
    // classify zeta
    let one = Fq2::one();
    let i = Fq2::new(Fq::zero(), Fq::one());
    let idx = if sq {
        if zeta == one {
            0
        } else if zeta == one.neg() {
            1
        } else if zeta == i {
            2
        } else if zeta == i.neg() {
            3
        } else {
            return None;
        }
    } else {
        // primitive 8th roots: zeta^2 = +-i ; split each by the sign of the real part
        let z2_ = zeta.sqr();
        let hi = zeta.c0.0 > C().q_m1_half;
        if z2_ == i {
            if hi { 0 } else { 1 }
        } else if z2_ == i.neg() {
            if hi { 2 } else { 3 }
        } else {
            return None;
        }
    };
    Some((sq, idx, u.sgn0()))
}

pub fn selftest() -> Result<(), String> {
    // curves and Z as the RFC requires: Z non-square, g(B/(ZA)) square
    if z1().is_square() || z2().is_square() {
        return Err("Z must be a non-square".into());
    }
    // isogeny maps E' onto E and is additive (model law on both sides)
    {
        let mut w = crate::curve::Words(99);
        let c = e1_iso();
        let p = c.point_from_words(&mut || w.next());
        let r = c.point_from_words(&mut || w.next());
        let (ip, ir) = (iso_g1(&p), iso_g1(&r));
        if !e1().on_curve(&ip) || ip.is_inf() {
            return Err("iso11 image not on E".into());
        }
        if e1().add(&ip, &ir) != iso_g1(&c.add(&p, &r)) {
            return Err("iso11 not additive".into());
        }
        let c = e2_iso();
        let p = c.point_from_words(&mut || w.next());
        let r = c.point_from_words(&mut || w.next());
        let (ip, ir) = (iso_g2(&p), iso_g2(&r));
        if !e2().on_curve(&ip) || ip.is_inf() {
            return Err("iso3 image not on E'".into());
        }
        if e2().add(&ip, &ir) != iso_g2(&c.add(&p, &r)) {
            return Err("iso3 not additive".into());
        }
    }
    // known answers (RFC 9380 appendix J; see kat.rs)
    crate::kat::check_model_against_rfc_vectors()?;
    let _ = Z::zero();
    Ok(())
}
