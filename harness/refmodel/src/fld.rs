//! Fields of the reference model: Fq = Z/q, Fq2 = Fq[u]/(u^2+1), and the *flat*
//! Fq12 = Fq[w]/(w^12 - 2 w^6 + 2)  (u = w^6 - 1, v = w^2).
//!
//! Everything is literally "integers mod q" on `BigUint`; nothing is shared with the crate
//! under test (no Montgomery form, no Karatsuba tower, no Frobenius tables).

use crate::consts::{q, C};
use num_bigint::BigUint;
use num_traits::{One, Zero};
use std::fmt::Debug;

pub type Z = BigUint;

pub fn z(n: u64) -> Z {
    Z::from(n)
}

pub fn zhex(s: &str) -> Z {
    let s = s.trim_start_matches("0x");
    Z::parse_bytes(s.as_bytes(), 16).expect("hex literal")
}

pub fn zdec(s: &str) -> Z {
    Z::parse_bytes(s.as_bytes(), 10).expect("dec literal")
}

pub fn hex(a: &Z) -> String {
    format!("{:x}", a)
}

/// (a - b) mod m for reduced a, b
pub fn submod(a: &Z, b: &Z, m: &Z) -> Z {
    if a >= b {
        a - b
    } else {
        m - b + a
    }
}

pub fn negmod(a: &Z, m: &Z) -> Z {
    if a.is_zero() {
        Z::zero()
    } else {
        m - a
    }
}

pub fn invmod(a: &Z, m: &Z) -> Option<Z> {
    let a = a % m;
    if a.is_zero() {
        None
    } else {
        Some(a.modpow(&(m - z(2)), m))
    }
}

pub trait Fld: Clone + PartialEq + Eq + Debug + Send + Sync + 'static {
    fn zero() -> Self;
    fn one() -> Self;
    fn from_u64(n: u64) -> Self;
    fn add(&self, o: &Self) -> Self;
    fn sub(&self, o: &Self) -> Self;
    fn mul(&self, o: &Self) -> Self;
    fn neg(&self) -> Self;
    fn inv(&self) -> Option<Self>;
    fn is_zero(&self) -> bool;
    fn sqr(&self) -> Self {
        self.mul(self)
    }
    fn dbl(&self) -> Self {
        self.add(self)
    }
    fn mul_u64(&self, n: u64) -> Self {
        self.mul(&Self::from_u64(n))
    }
    /// generic left-to-right square-and-multiply
    fn pow(&self, e: &Z) -> Self {
        let mut r = Self::one();
        let bits = e.bits();
        for i in (0..bits).rev() {
            r = r.sqr();
            if bit(e, i) {
                r = r.mul(self);
            }
        }
        r
    }
}

pub fn bit(e: &Z, i: usize) -> bool {
    ((e >> i) & Z::one()) == Z::one()
}

/// Fields in which the model can decide squareness, take roots and compute sgn0
pub trait SqrtFld: Fld {
    fn is_square(&self) -> bool;
    /// some square root (no sign convention)
    fn sqrt(&self) -> Option<Self>;
    /// RFC 9380 sgn0
    fn sgn0(&self) -> u8;
    /// element from a stream of uniform 64-bit words (rejection-free: reduces mod q)
    fn from_words(next: &mut dyn FnMut() -> u64) -> Self;
    /// lexicographic "is larger than its negation" in the ZCash ordering
    fn lex_larger_than_neg(&self) -> bool;
    /// some cube root, if one exists
    fn cube_root(&self) -> Option<Self>;
    /// the element with the given coordinates over Fq (Fq itself ignores the second one)
    fn from_fq_pair(c0: &Fq, c1: &Fq) -> Self;
}

/// cube root in a cyclic group of order n = 9 m (3 not dividing m) given as the non-zero elements of F:
/// x0 = a^(3^-1 mod m) is a root up to an element of the 3-Sylow subgroup (order 9), found by trial.
fn cbrt_by_sylow<F: Fld>(a: &F, n: &Z, cand: &dyn Fn(u64) -> F) -> Option<F> {
    if a.is_zero() {
        return Some(F::zero());
    }
    let three = Z::from(3u32);
    let nine = Z::from(9u32);
    assert!((n % &nine).is_zero());
    let m = n / &nine;
    assert!(!(&m % &three).is_zero());
    if a.pow(&(n / &three)) != F::one() {
        return None;
    }
    let k = if &m % &three == Z::one() { Z::from(2u32) } else { Z::one() };
    let e = (Z::one() + &k * &m) / &three;
    let x0 = a.pow(&e);
    let mut i = 0u64;
    let g = loop {
        let g = cand(i).pow(&m);
        if !g.is_zero() && g.pow(&three) != F::one() {
            break g;
        }
        i += 1;
    };
    let mut zt = F::one();
    for _ in 0..9 {
        let c = x0.mul(&zt);
        if c.sqr().mul(&c) == *a {
            return Some(c);
        }
        zt = zt.mul(&g);
    }
    None
}

// ---------------------------------------------------------------------------------------------
// Fq
// ---------------------------------------------------------------------------------------------

#[derive(Clone, PartialEq, Eq, Hash, PartialOrd, Ord)]
pub struct Fq(pub Z);

impl Debug for Fq {
    fn fmt(&self, f: &mut std::fmt::Formatter) -> std::fmt::Result {
        write!(f, "0x{:x}", self.0)
    }
}

impl Fq {
    pub fn new(v: Z) -> Fq {
        Fq(v % q())
    }
    pub fn from_hex(s: &str) -> Fq {
        Fq::new(zhex(s))
    }
    pub fn hex(&self) -> String {
        format!("{:096x}", self.0)
    }
    /// Euler's criterion: 0, 1 (residue), -1 (non-residue)
    pub fn euler(&self) -> i8 {
        if self.0.is_zero() {
            return 0;
        }
        let e = self.0.modpow(&C().q_m1_half, q());
        if e.is_one() {
            1
        } else {
            -1
        }
    }
}

impl Fld for Fq {
    fn zero() -> Self {
        Fq(Z::zero())
    }
    fn one() -> Self {
        Fq(Z::one())
    }
    fn from_u64(n: u64) -> Self {
        Fq(z(n) % q())
    }
    fn add(&self, o: &Self) -> Self {
        Fq((&self.0 + &o.0) % q())
    }
    fn sub(&self, o: &Self) -> Self {
        Fq(submod(&self.0, &o.0, q()))
    }
    fn mul(&self, o: &Self) -> Self {
        Fq((&self.0 * &o.0) % q())
    }
    fn neg(&self) -> Self {
        Fq(negmod(&self.0, q()))
    }
    fn inv(&self) -> Option<Self> {
        invmod(&self.0, q()).map(Fq)
    }
    fn is_zero(&self) -> bool {
        self.0.is_zero()
    }
    fn pow(&self, e: &Z) -> Self {
        Fq(self.0.modpow(e, q()))
    }
}

impl SqrtFld for Fq {
    fn from_fq_pair(c0: &Fq, _c1: &Fq) -> Self {
        c0.clone()
    }
    fn cube_root(&self) -> Option<Self> {
        cbrt_by_sylow(self, &(q() - Z::one()), &|i| Fq::from_u64(2 + i))
    }
    fn is_square(&self) -> bool {
        self.euler() >= 0
    }
    fn sqrt(&self) -> Option<Self> {
        // q = 3 mod 4
        let s = self.0.modpow(&C().q_p1_quarter, q());
        if (&s * &s) % q() == self.0 {
            Some(Fq(s))
        } else {
            None
        }
    }
    fn sgn0(&self) -> u8 {
        if bit(&self.0, 0) {
            1
        } else {
            0
        }
    }
    fn from_words(next: &mut dyn FnMut() -> u64) -> Self {
        let mut v = Z::zero();
        for _ in 0..8 {
            v = (v << 64) + z(next());
        }
        Fq(v % q())
    }
    fn lex_larger_than_neg(&self) -> bool {
        self.0 > negmod(&self.0, q())
    }
}

// ---------------------------------------------------------------------------------------------
// Fq2
// ---------------------------------------------------------------------------------------------

#[derive(Clone, PartialEq, Eq, Hash)]
pub struct Fq2 {
    pub c0: Fq,
    pub c1: Fq,
}

impl Debug for Fq2 {
    fn fmt(&self, f: &mut std::fmt::Formatter) -> std::fmt::Result {
        write!(f, "[{:?} + {:?}*u]", self.c0, self.c1)
    }
}

impl Fq2 {
    pub fn new(c0: Fq, c1: Fq) -> Fq2 {
        Fq2 { c0, c1 }
    }
    pub fn from_hex(c0: &str, c1: &str) -> Fq2 {
        Fq2::new(Fq::from_hex(c0), Fq::from_hex(c1))
    }
    pub fn norm(&self) -> Fq {
        self.c0.sqr().add(&self.c1.sqr())
    }
    pub fn conj(&self) -> Fq2 {
        Fq2::new(self.c0.clone(), self.c1.neg())
    }
    /// lexicographic order, u-coefficient most significant
    pub fn lex_cmp(&self, o: &Fq2) -> std::cmp::Ordering {
        match self.c1.0.cmp(&o.c1.0) {
            std::cmp::Ordering::Equal => self.c0.0.cmp(&o.c0.0),
            x => x,
        }
    }
    pub fn hex(&self) -> String {
        format!("{}+{}*u", self.c0.hex(), self.c1.hex())
    }
}

impl Fld for Fq2 {
    fn zero() -> Self {
        Fq2::new(Fq::zero(), Fq::zero())
    }
    fn one() -> Self {
        Fq2::new(Fq::one(), Fq::zero())
    }
    fn from_u64(n: u64) -> Self {
        Fq2::new(Fq::from_u64(n), Fq::zero())
    }
    fn add(&self, o: &Self) -> Self {
        Fq2::new(self.c0.add(&o.c0), self.c1.add(&o.c1))
    }
    fn sub(&self, o: &Self) -> Self {
        Fq2::new(self.c0.sub(&o.c0), self.c1.sub(&o.c1))
    }
    fn mul(&self, o: &Self) -> Self {
        // (a + bu)(c + du) = (ac - bd) + (ad + bc) u
        let ac = self.c0.mul(&o.c0);
        let bd = self.c1.mul(&o.c1);
        let ad = self.c0.mul(&o.c1);
        let bc = self.c1.mul(&o.c0);
        Fq2::new(ac.sub(&bd), ad.add(&bc))
    }
    fn neg(&self) -> Self {
        Fq2::new(self.c0.neg(), self.c1.neg())
    }
    fn inv(&self) -> Option<Self> {
        let n = self.norm().inv()?;
        Some(Fq2::new(self.c0.mul(&n), self.c1.neg().mul(&n)))
    }
    fn is_zero(&self) -> bool {
        self.c0.is_zero() && self.c1.is_zero()
    }
}

impl SqrtFld for Fq2 {
    fn from_fq_pair(c0: &Fq, c1: &Fq) -> Self {
        Fq2::new(c0.clone(), c1.clone())
    }
    fn cube_root(&self) -> Option<Self> {
        self.cbrt()
    }
    fn is_square(&self) -> bool {
        // a is a square in Fq2 iff its norm is a square in Fq (norm map is onto, kernel argument)
        self.norm().euler() >= 0
    }
    fn sqrt(&self) -> Option<Self> {
        if self.is_zero() {
            return Some(Fq2::zero());
        }
        if self.c1.is_zero() {
            // element of Fq: root is real or purely imaginary (-1 is a non-residue, q = 3 mod 4)
            return match self.c0.sqrt() {
                Some(s) => Some(Fq2::new(s, Fq::zero())),
                None => {
                    let t = self.c0.neg().sqrt().expect("-a must be a residue");
                    Some(Fq2::new(Fq::zero(), t))
                }
            };
        }
        let s = self.norm().sqrt()?;
        let inv2 = Fq::from_u64(2).inv().unwrap();
        for sg in [s.clone(), s.neg()] {
            let t = self.c0.add(&sg).mul(&inv2);
            if let Some(c) = t.sqrt() {
                if c.is_zero() {
                    continue;
                }
                let d = self.c1.mul(&c.dbl().inv().unwrap());
                let cand = Fq2::new(c, d);
                if cand.sqr() == *self {
                    return Some(cand);
                }
            }
        }
        None
    }
    fn sgn0(&self) -> u8 {
        // RFC 9380 4.1 for m = 2: sign_0 OR (zero_0 AND sign_1)
        let s0 = self.c0.sgn0();
        let z0 = self.c0.is_zero();
        let s1 = self.c1.sgn0();
        if s0 == 1 || (z0 && s1 == 1) {
            1
        } else {
            0
        }
    }
    fn from_words(next: &mut dyn FnMut() -> u64) -> Self {
        let c0 = Fq::from_words(next);
        let c1 = Fq::from_words(next);
        Fq2::new(c0, c1)
    }
    fn lex_larger_than_neg(&self) -> bool {
        self.lex_cmp(&self.neg()) == std::cmp::Ordering::Greater
    }
}

impl Fq2 {
    /// some cube root, if one exists. q^2 - 1 = 9 m with 3 not dividing m: x0 = a^(3^-1 mod m) is a
    /// root up to a 9th root of unity, which is found by trying the nine powers of a generator of the
    /// 3-Sylow subgroup.
    pub fn cbrt(&self) -> Option<Fq2> {
        if self.is_zero() {
            return Some(Fq2::zero());
        }
        let n = q() * q() - Z::one();
        let nine = Z::from(9u32);
        assert!((&n % &nine).is_zero());
        let m = &n / &nine;
        assert!(!(&m % Z::from(3u32)).is_zero());
        // a is a cube iff a^((q^2-1)/3) = 1
        if self.pow(&(&n / Z::from(3u32))) != Fq2::one() {
            return None;
        }
        // e = 3^-1 mod m
        let mm = &m % Z::from(3u32);
        // 3 e = 1 + k m  ->  choose k in {1, 2} with (1 + k m) divisible by 3
        let k = if mm == Z::one() { Z::from(2u32) } else { Z::one() };
        let e = (Z::one() + &k * &m) / Z::from(3u32);
        let x0 = self.pow(&e);
        // generator of the 3-Sylow subgroup: c^m for the first c of order divisible by 9
        let mut c = Fq2::new(Fq::from_u64(1), Fq::from_u64(1));
        let g = loop {
            let g = c.pow(&m);
            if g.pow(&Z::from(3u32)) != Fq2::one() {
                break g;
            }
            c = c.add(&Fq2::new(Fq::from_u64(1), Fq::zero()));
        };
        let mut zt = Fq2::one();
        for _ in 0..9 {
            let cand = x0.mul(&zt);
            if cand.sqr().mul(&cand) == *self {
                return Some(cand);
            }
            zt = zt.mul(&g);
        }
        None
    }
}

// ---------------------------------------------------------------------------------------------
// flat Fq12
// ---------------------------------------------------------------------------------------------

#[derive(Clone, PartialEq, Eq, Hash)]
pub struct Fq12(pub [Z; 12]);

impl Debug for Fq12 {
    fn fmt(&self, f: &mut std::fmt::Formatter) -> std::fmt::Result {
        write!(f, "Fq12[{}]", self.hex())
    }
}

fn zarr12() -> [Z; 12] {
    Default::default()
}

impl Fq12 {
    pub fn from_coeffs(c: [Z; 12]) -> Fq12 {
        let mut o = zarr12();
        for i in 0..12 {
            o[i] = &c[i] % q();
        }
        Fq12(o)
    }
    pub fn w() -> Fq12 {
        let mut c = zarr12();
        c[1] = Z::one();
        Fq12(c)
    }
    pub fn from_fq(a: &Fq) -> Fq12 {
        let mut c = zarr12();
        c[0] = a.0.clone();
        Fq12(c)
    }
    /// (a0 + a1 u) * w^k for k < 6, with u = w^6 - 1
    pub fn from_fq2_times_wk(a: &Fq2, k: usize) -> Fq12 {
        assert!(k < 6);
        let mut c = zarr12();
        c[k] = a.c0.sub(&a.c1).0;
        c[k + 6] = a.c1.0.clone();
        Fq12(c)
    }
    /// tower element given as t[i][j] = Fq2 coefficient of v^j w^i  (i in 0..2, j in 0..3)
    pub fn from_tower(t: &[[Fq2; 3]; 2]) -> Fq12 {
        let mut acc = Fq12::zero();
        for i in 0..2 {
            for j in 0..3 {
                acc = acc.add(&Fq12::from_fq2_times_wk(&t[i][j], 2 * j + i));
            }
        }
        acc
    }
    pub fn to_tower(&self) -> [[Fq2; 3]; 2] {
        let mut out: [[Fq2; 3]; 2] = [
            [Fq2::zero(), Fq2::zero(), Fq2::zero()],
            [Fq2::zero(), Fq2::zero(), Fq2::zero()],
        ];
        for k in 0..6 {
            let y = Fq(self.0[k + 6].clone());
            let x = Fq(self.0[k].clone()).add(&y);
            out[k % 2][k / 2] = Fq2::new(x, y);
        }
        out
    }
    /// x -> x^(q^k): coefficients are fixed, w is mapped to w^(q^k)
    pub fn frobenius(&self, k: usize) -> Fq12 {
        let wk = &crate::consts::w_frob()[k % 12];
        // Horner in w^(q^k)
        let mut acc = Fq12::zero();
        for i in (0..12).rev() {
            acc = acc.mul(wk).add(&Fq12::from_fq(&Fq(self.0[i].clone())));
        }
        acc
    }
    /// x^(q^6): w -> -w
    pub fn conj(&self) -> Fq12 {
        let mut c = self.0.clone();
        for i in (1..12).step_by(2) {
            c[i] = negmod(&c[i], q());
        }
        Fq12(c)
    }
    pub fn hex(&self) -> String {
        self.0.iter().map(|c| format!("{:x}", c)).collect::<Vec<_>>().join(",")
    }
}

// polynomial helpers over Fq (little-endian coefficient vectors)
fn pdeg(p: &[Z]) -> isize {
    let mut d = p.len() as isize - 1;
    while d >= 0 && p[d as usize].is_zero() {
        d -= 1;
    }
    d
}

fn pdivmod(a: &[Z], b: &[Z]) -> (Vec<Z>, Vec<Z>) {
    let qm = q();
    let mut a: Vec<Z> = a.to_vec();
    let db = pdeg(b);
    assert!(db >= 0);
    let db = db as usize;
    let inv = invmod(&b[db], qm).unwrap();
    let mut qt = vec![Z::zero(); std::cmp::max(a.len() as isize - db as isize, 1) as usize];
    loop {
        let da = pdeg(&a);
        if da < db as isize {
            break;
        }
        let da = da as usize;
        let c = (&a[da] * &inv) % qm;
        qt[da - db] = c.clone();
        for i in 0..=db {
            let t = (&c * &b[i]) % qm;
            a[da - db + i] = submod(&a[da - db + i], &t, qm);
        }
    }
    (qt, a)
}

fn pmul(a: &[Z], b: &[Z]) -> Vec<Z> {
    let qm = q();
    let mut t = vec![Z::zero(); a.len() + b.len() - 1];
    for (i, x) in a.iter().enumerate() {
        if x.is_zero() {
            continue;
        }
        for (j, y) in b.iter().enumerate() {
            t[i + j] = (&t[i + j] + x * y) % qm;
        }
    }
    t
}

fn psub(a: &[Z], b: &[Z]) -> Vec<Z> {
    let qm = q();
    let n = std::cmp::max(a.len(), b.len());
    (0..n)
        .map(|i| {
            let x = if i < a.len() { a[i].clone() } else { Z::zero() };
            let y = if i < b.len() { b[i].clone() } else { Z::zero() };
            submod(&x, &y, qm)
        })
        .collect()
}

fn modulus_poly() -> Vec<Z> {
    // w^12 - 2 w^6 + 2
    let mut m = vec![Z::zero(); 13];
    m[0] = z(2);
    m[6] = q() - z(2);
    m[12] = Z::one();
    m
}

impl Fld for Fq12 {
    fn zero() -> Self {
        Fq12(zarr12())
    }
    fn one() -> Self {
        let mut c = zarr12();
        c[0] = Z::one();
        Fq12(c)
    }
    fn from_u64(n: u64) -> Self {
        let mut c = zarr12();
        c[0] = z(n) % q();
        Fq12(c)
    }
    fn add(&self, o: &Self) -> Self {
        let mut c = zarr12();
        for i in 0..12 {
            c[i] = (&self.0[i] + &o.0[i]) % q();
        }
        Fq12(c)
    }
    fn sub(&self, o: &Self) -> Self {
        let mut c = zarr12();
        for i in 0..12 {
            c[i] = submod(&self.0[i], &o.0[i], q());
        }
        Fq12(c)
    }
    fn mul(&self, o: &Self) -> Self {
        // schoolbook product, then w^12 = 2 w^6 - 2
        let mut t: Vec<Z> = vec![Z::zero(); 23];
        for i in 0..12 {
            if self.0[i].is_zero() {
                continue;
            }
            for j in 0..12 {
                if o.0[j].is_zero() {
                    continue;
                }
                t[i + j] += &self.0[i] * &o.0[j];
            }
        }
        // reduce coefficients first to keep numbers non-negative and small
        let qm = q();
        for k in 0..23 {
            t[k] = &t[k] % qm;
        }
        for k in (12..23).rev() {
            let c = t[k].clone();
            if !c.is_zero() {
                let two_c = (&c + &c) % qm;
                t[k - 6] = (&t[k - 6] + &two_c) % qm;
                t[k - 12] = submod(&t[k - 12], &two_c, qm);
                t[k] = Z::zero();
            }
        }
        let mut c = zarr12();
        for i in 0..12 {
            c[i] = t[i].clone();
        }
        Fq12(c)
    }
    fn neg(&self) -> Self {
        let mut c = zarr12();
        for i in 0..12 {
            c[i] = negmod(&self.0[i], q());
        }
        Fq12(c)
    }
    fn inv(&self) -> Option<Self> {
        if self.is_zero() {
            return None;
        }
        // extended Euclid on (modulus, a) over Fq[w]
        let qm = q();
        let mut r0 = modulus_poly();
        let mut r1: Vec<Z> = self.0.to_vec();
        let mut s0: Vec<Z> = vec![Z::zero()];
        let mut s1: Vec<Z> = vec![Z::one()];
        while pdeg(&r1) > 0 {
            let (qt, rem) = pdivmod(&r0, &r1);
            r0 = r1;
            r1 = rem;
            let s2 = psub(&s0, &pmul(&qt, &s1));
            s0 = s1;
            s1 = s2;
        }
        // r1 is now a non-zero constant (the modulus is irreducible, a != 0)
        if pdeg(&r1) < 0 {
            return None;
        }
        let c = invmod(&r1[0], qm).unwrap();
        let res: Vec<Z> = s1.iter().map(|v| (v * &c) % qm).collect();
        let (_, rem) = pdivmod(&res, &modulus_poly());
        let mut out = zarr12();
        for i in 0..12 {
            if i < rem.len() {
                out[i] = rem[i].clone();
            }
        }
        let out = Fq12(out);
        debug_assert!(out.mul(self) == Fq12::one());
        Some(out)
    }
    fn is_zero(&self) -> bool {
        self.0.iter().all(|c| c.is_zero())
    }
}

// ---------------------------------------------------------------------------------------------
// roots of small polynomials over Fq (used to construct inputs whose OUTPUT coordinate is prescribed)
// ---------------------------------------------------------------------------------------------

/// polynomials over Fq as coefficient vectors, lowest degree first, no trailing zeros
fn fqptrim(mut a: Vec<Fq>) -> Vec<Fq> {
    while a.last().map(|c| c.is_zero()).unwrap_or(false) {
        a.pop();
    }
    a
}
fn fqpmul(a: &[Fq], b: &[Fq]) -> Vec<Fq> {
    if a.is_empty() || b.is_empty() {
        return vec![];
    }
    let mut r = vec![Fq::zero(); a.len() + b.len() - 1];
    for (i, x) in a.iter().enumerate() {
        for (j, y) in b.iter().enumerate() {
            r[i + j] = r[i + j].add(&x.mul(y));
        }
    }
    fqptrim(r)
}
fn fqprem(a: &[Fq], m: &[Fq]) -> Vec<Fq> {
    let mut r = fqptrim(a.to_vec());
    let dm = m.len() - 1;
    let lead_inv = m[dm].inv().unwrap();
    while r.len() > dm {
        let d = r.len() - 1;
        let c = r[d].mul(&lead_inv);
        for i in 0..=dm {
            let t = c.mul(&m[i]);
            r[d - dm + i] = r[d - dm + i].sub(&t);
        }
        r = fqptrim(r);
    }
    r
}
fn fqpsub(a: &[Fq], b: &[Fq]) -> Vec<Fq> {
    let n = std::cmp::max(a.len(), b.len());
    let mut r = vec![Fq::zero(); n];
    for i in 0..n {
        let x = a.get(i).cloned().unwrap_or_else(Fq::zero);
        let y = b.get(i).cloned().unwrap_or_else(Fq::zero);
        r[i] = x.sub(&y);
    }
    fqptrim(r)
}
fn fqpgcd(a: &[Fq], b: &[Fq]) -> Vec<Fq> {
    let (mut a, mut b) = (fqptrim(a.to_vec()), fqptrim(b.to_vec()));
    while !b.is_empty() {
        let r = fqprem(&a, &b);
        a = b;
        b = r;
    }
    if let Some(l) = a.last().cloned() {
        let li = l.inv().unwrap();
        a = a.iter().map(|c| c.mul(&li)).collect();
    }
    a
}
fn fqppowmod(base: &[Fq], e: &Z, m: &[Fq]) -> Vec<Fq> {
    let mut acc = vec![Fq::one()];
    let nb = e.bits();
    for i in (0..nb).rev() {
        acc = fqprem(&fqpmul(&acc, &acc), m);
        if bit(e, i) {
            acc = fqprem(&fqpmul(&acc, base), m);
        }
    }
    acc
}

/// all roots in Fq of the polynomial f (coefficients lowest first, degree <= 4 intended)
pub fn poly_roots_fq(f: &[Fq]) -> Vec<Fq> {
    let f = fqptrim(f.to_vec());
    if f.len() <= 1 {
        return vec![];
    }
    // g = gcd(x^q - x, f): the product of the distinct linear factors
    let x = vec![Fq::zero(), Fq::one()];
    let xq = fqppowmod(&x, q(), &f);
    let g = fqpgcd(&fqpsub(&xq, &x), &f);
    let mut roots = vec![];
    let mut stack = vec![g];
    let half = (q() - Z::from(1u32)) >> 1;
    let mut shift = 1u64;
    while let Some(g) = stack.pop() {
        match g.len() {
            0 | 1 => {}
            2 => roots.push(g[0].neg().mul(&g[1].inv().unwrap())),
            _ => {
                // split with gcd((x + s)^((q-1)/2) - 1, g)
                loop {
                    let lin = vec![Fq::from_u64(shift), Fq::one()];
                    shift += 1;
                    let h = fqpsub(&fqppowmod(&lin, &half, &g), &[Fq::one()]);
                    let d = fqpgcd(&h, &g);
                    if d.len() > 1 && d.len() < g.len() {
                        // g / d by repeated remainder: quotient via long division
                        let mut rem = g.clone();
                        let mut quo = vec![Fq::zero(); g.len() - d.len() + 1];
                        let dd = d.len() - 1;
                        let li = d[dd].inv().unwrap();
                        while rem.len() > dd {
                            let k = rem.len() - 1;
                            let c = rem[k].mul(&li);
                            quo[k - dd] = c.clone();
                            for i in 0..=dd {
                                let t = c.mul(&d[i]);
                                rem[k - dd + i] = rem[k - dd + i].sub(&t);
                            }
                            rem = fqptrim(rem);
                        }
                        stack.push(d);
                        stack.push(fqptrim(quo));
                        break;
                    }
                    if shift > 200 {
                        break;
                    }
                }
            }
        }
    }
    roots
}
