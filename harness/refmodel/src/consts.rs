//! BLS12-381 constants, all re-derived from the curve parameter x at start-up.

use crate::fld::{zdec, zhex, Fld, Fq12, Z};
use num_bigint::BigUint;
use num_traits::{One, Zero};
use std::sync::OnceLock;

pub struct Consts {
    /// |x| = 0xd201000000010000 (x itself is negative)
    pub x_abs: Z,
    pub q: Z,
    pub r: Z,
    pub q_m1_half: Z,
    pub q_p1_quarter: Z,
    /// cofactor of G1: (x-1)^2/3
    pub h1: Z,
    /// cofactor of G2
    pub h2: Z,
    /// RFC 9380 h_eff for G1: 1 - x
    pub heff1: Z,
    /// RFC 9380 h_eff for G2: 3 (x^2 - 1) h2
    pub heff2: Z,
    /// 3 (q^12 - 1) / r
    pub final_exp: Z,
    /// (q^12 - 1) / r
    pub final_exp_nothree: Z,
}

static CONSTS: OnceLock<Consts> = OnceLock::new();
static WFROB: OnceLock<Vec<Fq12>> = OnceLock::new();

#[allow(non_snake_case)]
pub fn C() -> &'static Consts {
    CONSTS.get_or_init(|| {
        let x = zhex("d201000000010000");
        let one = Z::one();
        // with x negative: x - 1 = -(|x| + 1); (x-1)^2 = (|x|+1)^2 ; x^4 - x^2 + 1 is even in x
        let xp1 = &x + &one;
        let x2 = &x * &x;
        let x4 = &x2 * &x2;
        let r = &x4 - &x2 + &one;
        // q = (x-1)^2 (x^4 - x^2 + 1)/3 + x   with x negative
        let q = (&xp1 * &xp1 * &r) / BigUint::from(3u32) - &x;
        // published values (BLS12-381 definition) as decimal literals
        let q_lit = zdec("4002409555221667393417789825735904156556882819939007885332058136124031650490837864442687629129015664037894272559787");
        let r_lit = zdec("52435875175126190479447740508185965837690552500527637822603658699938581184513");
        assert_eq!(q, q_lit, "q re-derived from x");
        assert_eq!(r, r_lit, "r re-derived from x");
        assert_eq!(((&xp1 * &xp1 * &r) % BigUint::from(3u32)), Z::zero());
        let h1 = (&xp1 * &xp1) / BigUint::from(3u32);
        // h2 = (x^8 - 4x^7 + 5x^6 - 4x^4 + 6x^3 - 4x^2 - 4x + 13)/9, x negative:
        //    = (X^8 + 4X^7 + 5X^6 - 4X^4 - 6X^3 - 4X^2 + 4X + 13)/9 with X = |x|
        let x3 = &x2 * &x;
        let x6 = &x3 * &x3;
        let x7 = &x6 * &x;
        let x8 = &x4 * &x4;
        let four = BigUint::from(4u32);
        let pos = &x8 + &four * &x7 + BigUint::from(5u32) * &x6 + &four * &x + BigUint::from(13u32);
        let neg = &four * &x4 + BigUint::from(6u32) * &x3 + &four * &x2;
        let num = pos - neg;
        assert_eq!(&num % BigUint::from(9u32), Z::zero());
        let h2 = num / BigUint::from(9u32);
        // group orders: #E(Fq) = h1 r = q + 1 - t with t = x + 1  => q + 1 + |x| - 1 = q + |x|
        assert_eq!(&h1 * &r, &q + &x, "#E(Fq) = q + 1 - t");
        let heff1 = &x + &one; // 1 - x
        let heff2 = BigUint::from(3u32) * (&x2 - &one) * &h2;
        let q12 = {
            let q2 = &q * &q;
            let q4 = &q2 * &q2;
            &q4 * &q4 * &q4
        };
        let fe = (&q12 - &one) / &r;
        assert_eq!((&q12 - &one) % &r, Z::zero());
        Consts {
            q_m1_half: (&q - &one) >> 1,
            q_p1_quarter: (&q + &one) >> 2,
            x_abs: x,
            h1,
            h2,
            heff1,
            heff2,
            final_exp: &fe * BigUint::from(3u32),
            final_exp_nothree: fe,
            q,
            r,
        }
    })
}

pub fn q() -> &'static Z {
    &C().q
}

pub fn r() -> &'static Z {
    &C().r
}

/// w^(q^k) for k = 0..12, by generic powering (k = 1) and repeated application
pub fn w_frob() -> &'static Vec<Fq12> {
    WFROB.get_or_init(|| {
        let w = Fq12::w();
        let wq = w.pow(q());
        let mut v = vec![w.clone(), wq.clone()];
        // w^(q^(k+1)) = (w^(q^k))^q ; computed by powering again (no shortcut through the table)
        for k in 1..11 {
            let nxt = v[k].pow(q());
            v.push(nxt);
        }
        // sanity: w^(q^12) = w
        assert_eq!(v[11].pow(q()), w, "Frobenius has order 12 on Fq12");
        v
    })
}
