//! Independent reference model for BLS12-381 as used by algorand/pairing-plus.
//! Written from the mathematical definitions, the ZCash serialization README and RFC 9380;
//! shares no code with the crate under test.

pub mod consts;
pub mod curve;
pub mod enc;
pub mod fld;
pub mod h2c;
pub mod iso_tables;
pub mod kat;
pub mod pairing;

/// Oracle self-tests run at the start of every check. A failure is an infrastructure
/// failure (exit 2), never a property violation.
pub fn selftest(with_pairing: bool) -> Result<Vec<String>, String> {
    let mut done = vec![];
    let _ = consts::C();
    done.push("constants re-derived from x (q, r, h1, h2, #E = q + 1 - t)".to_string());
    curve::selftest()?;
    done.push("projective fast path == affine definition on E, E', both isogenous curves; [n]P = O; generators of order r".to_string());
    h2c::selftest()?;
    done.push("isogenies land on target and are additive; Z non-square; 4 RFC 9380 appendix-J vectors reproduced".to_string());
    enc::selftest()?;
    done.push("encoder/decoder round trip on generator, identity, order-3 point".to_string());
    if with_pairing {
        pairing::selftest()?;
        done.push("textbook ate pairing reproduces the published e(g1,g2)".to_string());
    }
    Ok(done)
}
