//! Engine A: proptest driven from a binary. Deterministic (seed derived from property, sub-check,
//! shard and VERIF_SEED), sharded over threads, counting and classifying every case, shrinking a
//! failure to a replay file.

use proptest::strategy::{BoxedStrategy, Strategy};
use proptest::test_runner::{Config, RngAlgorithm, TestCaseError, TestError, TestRng, TestRunner};
use serde::de::DeserializeOwned;
use serde::Serialize;
use serde_json::{json, Value};
use sha2::Digest;
use std::cell::{Cell, RefCell};
use std::collections::{BTreeMap, HashSet};
use std::hash::{Hash, Hasher};
use std::panic::{catch_unwind, AssertUnwindSafe};

#[derive(Clone, Copy, Debug, PartialEq, Eq)]
pub enum Tier {
    Quick,
    Thorough,
}

impl Tier {
    pub fn name(&self) -> &'static str {
        match self {
            Tier::Quick => "quick",
            Tier::Thorough => "thorough",
        }
    }
}

#[derive(Clone, Debug)]
pub struct Ctx {
    pub property: String,
    pub tier: Tier,
    pub seed: u64,
    pub scale: f64,
    pub threads: usize,
    /// debug-assertion / overflow-check build?
    pub profile: String,
    /// open known findings: (property, signature)
    pub known: Vec<(String, String, String)>,
}

// ---------------------------------------------------------------------------------------------
// panic bookkeeping: crate calls go through `cr`; anything else that panics is a harness bug
// ---------------------------------------------------------------------------------------------

thread_local! {
    static LAST_PANIC: RefCell<String> = RefCell::new(String::new());
}

pub fn install_panic_hook() {
    std::panic::set_hook(Box::new(|info| {
        let msg = if let Some(s) = info.payload().downcast_ref::<&str>() {
            s.to_string()
        } else if let Some(s) = info.payload().downcast_ref::<String>() {
            s.clone()
        } else {
            "<non-string panic>".to_string()
        };
        let loc = info.location().map(|l| format!("{}:{}", l.file(), l.line())).unwrap_or_default();
        LAST_PANIC.with(|p| *p.borrow_mut() = format!("{} at {}", msg, loc));
    }));
}

pub fn last_panic() -> String {
    LAST_PANIC.with(|p| p.borrow().clone())
}

/// run a call into the crate under test; a panic becomes a violation message
pub fn cr<T>(what: &str, f: impl FnOnce() -> T) -> Result<T, String> {
    catch_unwind(AssertUnwindSafe(f)).map_err(|_| format!("crate panicked in {}: {}", what, last_panic()))
}

/// true iff the call panicked
pub fn cr_panics<T>(f: impl FnOnce() -> T) -> bool {
    catch_unwind(AssertUnwindSafe(f)).is_err()
}

// ---------------------------------------------------------------------------------------------
// per-case bookkeeping
// ---------------------------------------------------------------------------------------------

#[derive(Default, Debug)]
pub struct Info {
    pub classes: Vec<String>,
    pub nontrivial: bool,
}

impl Info {
    pub fn class(&mut self, c: impl Into<String>) {
        self.classes.push(c.into());
    }
    pub fn nt(&mut self) {
        self.nontrivial = true;
    }
    pub fn nt_if(&mut self, b: bool) {
        if b {
            self.nontrivial = true;
        }
    }
}

#[derive(Default, Debug, Clone)]
pub struct Stats {
    pub evaluations: u64,
    pub classes: BTreeMap<String, u64>,
    pub nontrivial: HashSet<u64>,
    pub nontrivial_evals: u64,
    /// (class label or "", case)
    pub samples: Vec<(String, Value)>,
    pub known_excluded: u64,
}

impl Stats {
    pub fn merge(&mut self, o: Stats) {
        self.evaluations += o.evaluations;
        for (k, v) in o.classes {
            *self.classes.entry(k).or_insert(0) += v;
        }
        self.nontrivial.extend(o.nontrivial);
        self.nontrivial_evals += o.nontrivial_evals;
        self.known_excluded += o.known_excluded;
        for s in o.samples {
            self.add_sample(s.0, s.1);
        }
    }
    fn add_sample(&mut self, class: String, v: Value) {
        // at most one sample per class label, at most 12 in total
        if self.samples.len() >= 12 || self.samples.iter().any(|(c, _)| *c == class) {
            return;
        }
        self.samples.push((class, v));
    }
    /// record one successfully checked case
    pub fn record(&mut self, case_json: &Value, info: &Info) {
        self.evaluations += 1;
        for c in &info.classes {
            *self.classes.entry(c.clone()).or_insert(0) += 1;
        }
        if info.nontrivial {
            self.nontrivial_evals += 1;
            let mut h = std::collections::hash_map::DefaultHasher::new();
            case_json.to_string().hash(&mut h);
            self.nontrivial.insert(h.finish());
        }
        let label = if info.nontrivial {
            info.classes.iter().find(|c| !self.samples.iter().any(|(s, _)| s == *c)).cloned()
        } else {
            None
        };
        if let Some(l) = label {
            self.add_sample(l, truncate_value(case_json));
        } else if self.samples.is_empty() && info.nontrivial {
            self.add_sample(String::new(), truncate_value(case_json));
        }
    }
}

fn truncate_value(v: &Value) -> Value {
    let s = v.to_string();
    if s.len() > 1500 {
        json!({ "truncated_case": format!("{}…", &s[..1500]) })
    } else {
        v.clone()
    }
}

#[derive(Debug, Clone)]
pub struct Failure {
    pub sub: String,
    pub message: String,
    pub case: Value,
    pub shard: usize,
}

#[derive(Debug, Default)]
pub struct SubResult {
    pub name: String,
    pub rule: String,
    pub stats: Stats,
    pub failure: Option<Failure>,
    pub harness_error: Option<String>,
    pub exhaustive: bool,
    pub wall_s: f64,
}

// ---------------------------------------------------------------------------------------------
// sub-checks
// ---------------------------------------------------------------------------------------------

pub trait DynSub: Sync + Send {
    fn name(&self) -> &str;
    fn rule(&self) -> &str;
    fn run(&self, ctx: &Ctx) -> SubResult;
    /// strict re-execution of one saved case
    fn replay(&self, case: &Value) -> Result<(), String>;
}

pub type CheckFn<C> = fn(&C, &mut Info) -> Result<(), String>;

pub struct Sub<C> {
    pub name: &'static str,
    pub rule: &'static str,
    pub quick: u32,
    pub thorough: u32,
    pub strategy: fn() -> BoxedStrategy<C>,
    pub check: CheckFn<C>,
}

pub fn derive_seed(property: &str, sub: &str, shard: usize, seed: u64) -> [u8; 32] {
    let mut h = sha2::Sha256::new();
    h.input(property.as_bytes());
    h.input(&[0u8]);
    h.input(sub.as_bytes());
    h.input(&[0u8]);
    h.input(&(shard as u64).to_le_bytes());
    h.input(&seed.to_le_bytes());
    let d = h.result();
    let mut out = [0u8; 32];
    out.copy_from_slice(&d);
    out
}

/// the first oracle failure seen by any shard, recorded BEFORE shrinking starts: if the crate under test then hangs
/// while the failing case is being shrunk (a broken loop condition does that), the watchdog still reports the
/// violation it has in hand instead of an inconclusive run
static PENDING: std::sync::Mutex<Option<Failure>> = std::sync::Mutex::new(None);

pub fn pending_failure() -> Option<Failure> {
    PENDING.lock().ok().and_then(|g| g.clone())
}

fn known_sig(msg: &str) -> Option<&str> {
    // messages may start with "[sig:<signature>]"
    if msg.starts_with("[sig:") {
        msg.find(']').map(|i| &msg[5..i])
    } else {
        None
    }
}

impl<C> Sub<C>
where
    C: Serialize + DeserializeOwned + std::fmt::Debug + Clone + 'static,
{
    fn run_shard(&self, ctx: &Ctx, shard: usize, cases: u32) -> (Stats, Option<Failure>, Option<String>) {
        let cfg = Config {
            cases,
            failure_persistence: None,
            max_shrink_iters: 400,
            max_global_rejects: 65536,
            ..Config::default()
        };
        let seed32 = derive_seed(&ctx.property, self.name, shard, ctx.seed);
        let mut runner = TestRunner::new_with_rng(cfg, TestRng::from_seed(RngAlgorithm::ChaCha, &seed32));
        let stats = RefCell::new(Stats::default());
        let failed = Cell::new(false);
        let harness_err: RefCell<Option<String>> = RefCell::new(None);
        let strategy = (self.strategy)();
        let check = self.check;
        let known = &ctx.known;
        let property = &ctx.property;
        let res = runner.run(&strategy, |case| {
            let mut info = Info::default();
            let _ = crate::adapt::take_noncanonical();
            let r = catch_unwind(AssertUnwindSafe(|| check(&case, &mut info)));
            // a value read from the crate that is inconsistent with the crate's own equality is a failure
            // of whatever operation produced it, even if its integer value was the expected one
            let r = match (r, crate::adapt::take_noncanonical()) {
                (Ok(Ok(())), Some(m)) => Ok(Err(m)),
                (other, _) => other,
            };
            match r {
                Ok(Ok(())) => {
                    if !failed.get() {
                        let v = serde_json::to_value(&case).unwrap_or(Value::Null);
                        stats.borrow_mut().record(&v, &info);
                    }
                    Ok(())
                }
                Ok(Err(msg)) => {
                    if let Some(sig) = known_sig(&msg) {
                        if known.iter().any(|(p, s, _)| p == property && s == sig) {
                            if !failed.get() {
                                stats.borrow_mut().known_excluded += 1;
                            }
                            return Ok(());
                        }
                    }
                    if !failed.get() {
                        if let Ok(mut g) = PENDING.lock() {
                            if g.is_none() {
                                *g = Some(Failure { sub: self.name.to_string(), message: msg.clone(), case: serde_json::to_value(&case).unwrap_or(Value::Null), shard });
                            }
                        }
                    }
                    failed.set(true);
                    Err(TestCaseError::fail(msg))
                }
                Err(_) => {
                    let m = format!("harness panic (not in a crate call): {}", last_panic());
                    if harness_err.borrow().is_none() {
                        *harness_err.borrow_mut() = Some(m.clone());
                    }
                    failed.set(true);
                    Err(TestCaseError::fail(m))
                }
            }
        });
        let failure = match res {
            Ok(()) => None,
            Err(TestError::Fail(reason, value)) => Some(Failure {
                sub: self.name.to_string(),
                message: reason.message().to_string(),
                case: serde_json::to_value(&value).unwrap_or(Value::Null),
                shard,
            }),
            Err(TestError::Abort(reason)) => {
                *harness_err.borrow_mut() = Some(format!("proptest aborted: {}", reason.message()));
                None
            }
        };
        let he = harness_err.borrow().clone();
        (stats.into_inner(), failure, he)
    }
}

impl<C> DynSub for Sub<C>
where
    C: Serialize + DeserializeOwned + std::fmt::Debug + Clone + 'static,
{
    fn name(&self) -> &str {
        self.name
    }
    fn rule(&self) -> &str {
        self.rule
    }
    fn run(&self, ctx: &Ctx) -> SubResult {
        let t0 = std::time::Instant::now();
        let base = match ctx.tier {
            Tier::Quick => self.quick,
            Tier::Thorough => self.thorough,
        };
        let total = std::cmp::max(1, (base as f64 * ctx.scale).round() as u32);
        let shards = std::cmp::max(1, std::cmp::min(ctx.threads as u32, total / 4)) as usize;
        let per = total / shards as u32;
        let extra = total % shards as u32;
        let mut results: Vec<Option<(Stats, Option<Failure>, Option<String>)>> = (0..shards).map(|_| None).collect();
        std::thread::scope(|s| {
            let mut hs = vec![];
            for (i, slot) in results.iter_mut().enumerate() {
                let n = per + if (i as u32) < extra { 1 } else { 0 };
                let me = &*self;
                hs.push(s.spawn(move || {
                    install_panic_hook();
                    *slot = Some(me.run_shard(ctx, i, n));
                }));
            }
            for h in hs {
                let _ = h.join();
            }
        });
        let mut out = SubResult { name: self.name.to_string(), rule: self.rule.to_string(), ..Default::default() };
        for r in results.into_iter() {
            match r {
                Some((st, f, he)) => {
                    out.stats.merge(st);
                    if out.failure.is_none() {
                        out.failure = f;
                    }
                    if out.harness_error.is_none() {
                        out.harness_error = he;
                    }
                }
                None => {
                    out.harness_error = Some("shard thread died".into());
                }
            }
        }
        out.wall_s = t0.elapsed().as_secs_f64();
        out
    }
    fn replay(&self, case: &Value) -> Result<(), String> {
        let c: C = serde_json::from_value(case.clone()).map_err(|e| format!("cannot decode case: {}", e))?;
        let mut info = Info::default();
        let _ = crate::adapt::take_noncanonical();
        match catch_unwind(AssertUnwindSafe(|| (self.check)(&c, &mut info))) {
            Ok(Ok(())) => match crate::adapt::take_noncanonical() {
                Some(m) => Err(m),
                None => Ok(()),
            },
            Ok(r) => r,
            Err(_) => Err(format!("harness panic: {}", last_panic())),
        }
    }
}

/// A sub-check that enumerates a finite domain itself (exhaustive sub-domains).
pub struct EnumSub {
    pub name: &'static str,
    pub rule: &'static str,
    /// enumerates; calls `rec(case_json, info)` for every checked case; returns the first violation
    pub run: fn(&Ctx, &mut dyn FnMut(Value, Info)) -> Result<(), (String, Value)>,
    /// re-check a single enumerated case
    pub replay: fn(&Value) -> Result<(), String>,
    pub exhaustive: bool,
}

impl DynSub for EnumSub {
    fn name(&self) -> &str {
        self.name
    }
    fn rule(&self) -> &str {
        self.rule
    }
    fn run(&self, ctx: &Ctx) -> SubResult {
        let t0 = std::time::Instant::now();
        let mut out = SubResult { name: self.name.to_string(), rule: self.rule.to_string(), exhaustive: self.exhaustive, ..Default::default() };
        let mut stats = Stats::default();
        let r = catch_unwind(AssertUnwindSafe(|| {
            (self.run)(ctx, &mut |v, info| {
                stats.record(&v, &info);
            })
        }));
        match r {
            Ok(Ok(())) => {}
            Ok(Err((msg, case))) => {
                out.failure = Some(Failure { sub: self.name.to_string(), message: msg, case, shard: 0 });
            }
            Err(_) => out.harness_error = Some(format!("harness panic: {}", last_panic())),
        }
        out.stats = stats;
        out.wall_s = t0.elapsed().as_secs_f64();
        out
    }
    fn replay(&self, case: &Value) -> Result<(), String> {
        match catch_unwind(AssertUnwindSafe(|| (self.replay)(case))) {
            Ok(r) => r,
            Err(_) => Err(format!("harness panic: {}", last_panic())),
        }
    }
}

/// helper: run `f(i)` for i in 0..n on `threads` threads, in index order of results
pub fn par_map<T: Send>(threads: usize, n: usize, f: impl Fn(usize) -> T + Sync) -> Vec<T> {
    let mut out: Vec<Option<T>> = (0..n).map(|_| None).collect();
    let next = std::sync::atomic::AtomicUsize::new(0);
    let slots = std::sync::Mutex::new(&mut out);
    std::thread::scope(|s| {
        for _ in 0..std::cmp::max(1, std::cmp::min(threads, n)) {
            s.spawn(|| {
                install_panic_hook();
                loop {
                    let i = next.fetch_add(1, std::sync::atomic::Ordering::SeqCst);
                    if i >= n {
                        break;
                    }
                    let v = f(i);
                    slots.lock().unwrap()[i] = Some(v);
                }
            });
        }
    });
    out.into_iter().map(|o| o.expect("par_map slot")).collect()
}

pub fn boxed<S: Strategy + 'static>(s: S) -> BoxedStrategy<S::Value> {
    s.boxed()
}
