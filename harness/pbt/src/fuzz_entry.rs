//! Byte-level entry points: one function per libFuzzer target. The same functions replay the
//! committed corpus in the quick tier and any saved crash file (`verif-pbt replay-bytes`).
//! Every entry returns Err(message) on a semantic disagreement with the reference model
//! (or a crate panic where none is allowed); the fuzz target turns that into a crash.

use crate::adapt::*;
use crate::engine::{cr, cr_panics, Info};
use crate::props::{c04, c08, c09, c13, c18, c19};
use crate::recipes::{FeR, Fq2R, ReprR};
use pairing_plus::bls12_381 as crt;
use refmodel::enc::{decode, Decoded, EncFld};
use refmodel::fld::{Fq, Fq2};
use refmodel::h2c::expand_message;

pub const TARGETS: [&str; 4] = ["decode", "serdes", "expand", "field"];

pub fn run(target: &str, data: &[u8]) -> Result<(), String> {
    match target {
        "decode" => decode_entry(data),
        "serdes" => serdes_entry(data),
        "expand" => expand_entry(data),
        "field" => field_entry(data),
        _ => Err(format!("unknown fuzz target {}", target)),
    }
}

/// which properties a target serves
pub fn serves(target: &str) -> &'static [&'static str] {
    match target {
        "decode" => &["C04", "C05"],
        "serdes" => &["C19"],
        "expand" => &["C13"],
        "field" => &["C08", "C09", "C18"],
        _ => &[],
    }
}

fn padded(data: &[u8], n: usize) -> Vec<u8> {
    let mut v = data.iter().copied().take(n).collect::<Vec<u8>>();
    v.resize(n, 0);
    v
}

// ---- decode: C04 + C05 (reverse direction) ----------------------------------------------------------

fn decode_one<G: Grp>(fmt: u8, bytes: &[u8]) -> Result<(), String>
where
    G::F: EncFld,
{
    let compressed = fmt % 2 == 0;
    for checked in [true, false] {
        let want = decode::<G::F>(bytes, compressed, checked);
        let got = c04::crate_decode::<G>(fmt, bytes, checked)?;
        if got != want {
            return Err(format!(
                "{} {} decoding of {}: crate {:?}, specification {:?}",
                c04::fmt_name(fmt),
                if checked { "checked" } else { "unchecked" },
                c04::hex(bytes),
                got.as_ref().map(|_| "accept").map_err(|s| *s),
                want.as_ref().map(|_| "accept").map_err(|s| *s)
            ));
        }
        // accepted strings re-encode to themselves
        if let Ok(Ok(aff)) = G::decode_bytes(compressed, bytes, checked) {
            let re = G::encode_aff(&aff, compressed)?;
            if re != bytes {
                return Err(format!("{}: accepted byte string {} re-encodes to {}", c04::fmt_name(fmt), c04::hex(bytes), c04::hex(&re)));
            }
            let _: Option<Decoded<G::F>> = None;
        }
    }
    Ok(())
}

pub fn decode_entry(data: &[u8]) -> Result<(), String> {
    if data.is_empty() {
        return Ok(());
    }
    let fmt = data[0] & 3;
    let bytes = padded(&data[1..], c04::fmt_len(fmt));
    if fmt < 2 {
        decode_one::<G1m>(fmt, &bytes)
    } else {
        decode_one::<G2m>(fmt, &bytes)
    }
}

// ---- serdes: C19 ---------------------------------------------------------------------------------

pub fn serdes_entry(data: &[u8]) -> Result<(), String> {
    if data.len() < 2 {
        return Ok(());
    }
    let ty = match data[0] % 6 {
        0 => c19::Ty::Fr,
        1 => c19::Ty::Fq12,
        2 => c19::Ty::G1,
        3 => c19::Ty::G2,
        4 => c19::Ty::G1Affine,
        _ => c19::Ty::G2Affine,
    };
    let compressed = data[1] & 1 == 1;
    let chunks: Vec<u8> = match (data[1] >> 1) & 3 {
        0 => vec![],
        1 => vec![1],
        2 => vec![7, 48, 3],
        _ => vec![1 + (data[1] >> 3)],
    };
    let stream = &data[2..];
    let mut info = Info::default();
    use refmodel::enc::encode;
    match ty {
        c19::Ty::Fr => c19::run_read::<crt::Fr>(&ty, compressed, stream, &chunks, |v| Ok(c19::be_fixed(&fr_m(v), 32)), &mut info),
        c19::Ty::Fq12 => c19::run_read::<crt::Fq12>(
            &ty,
            compressed,
            stream,
            &chunks,
            |v| {
                let t = fq12_m(v).to_tower();
                let mut img = vec![];
                for i in 0..2 {
                    for j in 0..3 {
                        img.extend_from_slice(&c19::be_fixed(&t[i][j].c0 .0, 48));
                        img.extend_from_slice(&c19::be_fixed(&t[i][j].c1 .0, 48));
                    }
                }
                Ok(img)
            },
            &mut info,
        ),
        c19::Ty::G1 => c19::run_read::<crt::G1>(&ty, compressed, stream, &chunks, |v| Ok(encode(&proj_m::<G1m>(v), compressed)), &mut info),
        c19::Ty::G1Affine => c19::run_read::<crt::G1Affine>(&ty, compressed, stream, &chunks, |v| Ok(encode(&aff_m::<G1m>(v), compressed)), &mut info),
        c19::Ty::G2 => c19::run_read::<crt::G2>(&ty, compressed, stream, &chunks, |v| Ok(encode(&proj_m::<G2m>(v), compressed)), &mut info),
        c19::Ty::G2Affine => c19::run_read::<crt::G2Affine>(&ty, compressed, stream, &chunks, |v| Ok(encode(&aff_m::<G2m>(v), compressed)), &mut info),
    }
}

// ---- expand: C13 ---------------------------------------------------------------------------------

pub fn expand_entry(data: &[u8]) -> Result<(), String> {
    if data.len() < 4 {
        return Ok(());
    }
    let e = c13::expander_of(data[0]);
    let len = u16::from_le_bytes([data[1], data[2]]) as usize;
    let dlen = std::cmp::min(data[3] as usize, data.len() - 4);
    let dst = &data[4..4 + dlen];
    let msg = &data[4 + dlen..];
    let b = e.xmd_params().map(|p| p.0).unwrap_or(32);
    if e.xmd_params().is_some() && (len + b - 1) / b > 255 {
        if !cr_panics(|| c13::crate_expand(e, msg, dst, len)) {
            return Err(format!("{:?}: request of {} bytes (> 255 blocks) returned bytes instead of aborting", e, len));
        }
    } else {
        let want = expand_message(e, msg, dst, len).ok_or("model refused an in-range request")?;
        let got = cr("expand_message", || c13::crate_expand(e, msg, dst, len))?;
        if got != want {
            return Err(format!("{:?} expand_message(msg {} bytes, dst {} bytes, len {}) differs from RFC 9380", e, msg.len(), dst.len(), len));
        }
    }
    // block reduction on the leading bytes
    let blk = c13::BlockR::Lit(padded(&data[4..], 64));
    let blk2 = c13::BlockR::Lit(padded(if data.len() > 68 { &data[68..] } else { &[] }, 64));
    let mut info = Info::default();
    c13::check_okm(&c13::OkmCase { a: blk, b: blk2 }, &mut info)
}

// ---- field: C08 / C09 / C18 ---------------------------------------------------------------------------

fn limbs(data: &[u8], off: usize, n: usize) -> Vec<u64> {
    (0..n)
        .map(|i| {
            let mut b = [0u8; 8];
            for k in 0..8 {
                b[k] = data.get(off + 8 * i + k).copied().unwrap_or(0);
            }
            u64::from_le_bytes(b)
        })
        .collect()
}

pub fn field_entry(data: &[u8]) -> Result<(), String> {
    if data.len() < 2 {
        return Ok(());
    }
    let sel = data[0] % 8;
    let d = &data[1..];
    let mut info = Info::default();
    let fe = |off: usize, n: usize| FeR::Limbs(limbs(d, off, n));
    let shift = u32::from_le_bytes([d.get(0).copied().unwrap_or(0), d.get(1).copied().unwrap_or(0), 0, 0]) % 520;
    match sel {
        0 => c08::check_fq_ops(&c08::OpsCase { a: fe(2, 6), b: fe(50, 6), exp: limbs(d, 98, ((d.len().saturating_sub(98)) / 8).min(12)), frob: shift }, &mut info),
        1 => c08::check_fr_ops(&c08::OpsCase { a: fe(2, 4), b: fe(34, 4), exp: limbs(d, 66, ((d.len().saturating_sub(66)) / 8).min(12)), frob: shift }, &mut info),
        2 => c08::check_fq_repr(&c08::ReprCase { a: ReprR::Raw(limbs(d, 2, 6)), b: ReprR::Raw(limbs(d, 50, 6)), shift, small: limbs(d, 98, 1)[0] }, &mut info),
        3 => c08::check_fr_repr(&c08::ReprCase { a: ReprR::Raw(limbs(d, 2, 4)), b: ReprR::Raw(limbs(d, 34, 4)), shift, small: limbs(d, 66, 1)[0] }, &mut info),
        4 => c09::check_fq2(&c09::Fq2Case { a: Fq2R(fe(2, 6), fe(50, 6)), b: Fq2R(fe(98, 6), fe(146, 6)), k: c09::FrobK::Mult12(shift, d.get(0).copied().unwrap_or(0)) }, &mut info),
        5 => {
            let mask = u16::from_le_bytes([d.get(0).copied().unwrap_or(0xff), d.get(1).copied().unwrap_or(0xff)]);
            let a = c09::ExtR::Coeffs((0..12).map(|i| fe(2 + 48 * i, 6)).collect(), mask | 0x0001);
            let b = c09::ExtR::Coeffs((0..12).map(|i| fe(578 + 48 * i, 6)).collect(), 0x0fff);
            c09::check_fq12(&c09::Fq12Case { a, b, s0: Fq2R(fe(2, 6), fe(50, 6)), s1: Fq2R(fe(98, 6), fe(146, 6)), s4: Fq2R(fe(194, 6), fe(242, 6)), k: c09::FrobK::Small(d.get(0).copied().unwrap_or(0)) }, &mut info)
        }
        6 => {
            let mask = u16::from_le_bytes([d.get(0).copied().unwrap_or(0xff), 0]) & 0x3f;
            let a = c09::ExtR::Coeffs((0..6).map(|i| fe(2 + 48 * i, 6)).collect(), mask | 0x0001);
            let b = c09::ExtR::Coeffs((0..6).map(|i| fe(290 + 48 * i, 6)).collect(), 0x003f);
            c09::check_fq6(&c09::Fq6Case { a, b, s0: Fq2R(fe(2, 6), fe(50, 6)), s1: Fq2R(fe(98, 6), fe(146, 6)), k: c09::FrobK::Small(d.get(1).copied().unwrap_or(0)) }, &mut info)
        }
        _ => {
            let kind = match d.get(0).copied().unwrap_or(0) % 5 {
                0 => c18::Fq2Kind::Plain,
                1 => c18::Fq2Kind::Squared,
                2 => c18::Fq2Kind::SquaredTimesNonResidue,
                3 => c18::Fq2Kind::Real,
                _ => c18::Fq2Kind::Imag,
            };
            c18::check_fq2(&c18::Fq2Case { a: Fq2R(fe(2, 6), fe(50, 6)), kind, b: Fq2R(fe(98, 6), fe(146, 6)) }, &mut info)
        }
    }
}

#[allow(dead_code)]
fn _t(_: Fq, _: Fq2) {}
