//! Generators produce *recipes* (small serialisable values); the model turns recipes into
//! mathematical objects. Shrinking moves toward simple recipes; the shrunk recipe is the replay.

use crate::adapt::{Grp, G1m, G2m};
use num_traits::{One, Zero};
use proptest::prelude::*;
use refmodel::consts::{q, r, C};
use refmodel::curve::{point_of_order, Pt, Words};
use refmodel::fld::{Fld, Fq, Fq2, SqrtFld, Z};
use serde::{Deserialize, Serialize};
use std::sync::OnceLock;

// ---------------------------------------------------------------------------------------------
// field elements
// ---------------------------------------------------------------------------------------------

/// recipe for an element of a prime field Z/p with `n` 64-bit limbs
#[derive(Clone, Debug, Serialize, Deserialize, PartialEq, Eq, Hash)]
pub enum FeR {
    Zero,
    One,
    Two,
    /// p - 1 - k
    PMinus(u8),
    /// p - 2^j + d (mod p): offsets from the modulus that span more than one limb
    PMinusPow2(u16, i8),
    /// (p-1)/2 + k  (k = 0: largest "non-negative half", k = 1: (p+1)/2)
    Half(u8),
    /// 2^k mod p
    Pow2(u16),
    /// 2^k - 1 mod p
    Pow2M1(u16),
    /// 2^k + 1 mod p
    Pow2P1(u16),
    /// R = 2^(64 n) mod p, the Montgomery radix
    MontR,
    MontR2,
    MontRM1,
    /// small integer
    Small(u16),
    /// uniform: limbs reduced mod p
    Limbs(Vec<u64>),
    /// the element whose internal Montgomery representation has the given limb pattern
    /// (per limb 0 -> 0, 1 -> 1, 2 -> 2^63, 3 -> 2^64-1; top limb only 0/1): value = pattern * R^-1 mod p.
    /// Puts all-ones / single-bit limbs into the limbs the carry chains actually see.
    MontPattern(Vec<u8>),
    /// the element whose CANONICAL limbs are combinations of two words: per limb 0 -> 0, 1 -> w1, 2 -> w2,
    /// 3 -> w1^w2, 4 -> w1+w2 (wrapping), 5 -> !w1, 6 -> w1 again shifted by one limb position is covered by
    /// the pattern itself; top limb masked to stay below the modulus. Repeated / cancelling limbs defeat
    /// limb-folding shortcuts (xor / sum of limbs used as a zero or equality test).
    LimbCombo(u64, u64, Vec<u8>),
    /// the element whose Montgomery limbs are `rest` except that limbs i < j (below the top limb) are a pair whose
    /// PRODUCT sits just below 2^127 (which = 0) or 2^128 (which = 1): a_i = a | 2^63, a_j = (2^127 or 2^128 - 1 - d) / a_i.
    /// Doubled cross products and column sums of a schoolbook / Comba multiplication overflow exactly there.
    MontProductEdge { a: u64, i: u8, j: u8, which: u8, d: u8, rest: Vec<u64> },
    /// limbs that TIE with a reference constant (0: p, 1: (p-1)/2, 2: R = 2^(64 n) mod p) in the top `ties` limbs; the
    /// next limb is all-ones / zero / the reference limb -1 / +1 / from `low` (kind 0..=4), the lower limbs come from
    /// `low`. With `mont` the limbs are the internal Montgomery form (value = limbs * R^-1), otherwise the canonical
    /// integer. Multi-limb comparisons and borrow chains against a constant are decided exactly in such values.
    TieWith { reference: u8, mont: bool, ties: u8, kind: u8, low: Vec<u64> },
    /// the negative of the inner element (used for related components: (a, -a) in Fq2)
    NegOf(Box<FeR>),
    /// p - 1 - k for k up to 255
    PMinusK(u8),
    /// a value below p that agrees with p in its leading `n` bits and is otherwise taken from the limbs
    SharesTopBits(u8, Vec<u64>),
}

impl FeR {
    pub fn build(&self, p: &Z, nlimbs: usize) -> Z {
        let one = Z::one();
        let v = match self {
            FeR::Zero => Z::zero(),
            FeR::One => one,
            FeR::Two => Z::from(2u32),
            FeR::PMinus(k) => p - &one - Z::from(*k as u32 % 8),
            FeR::PMinusPow2(j, d) => {
                let bits = p.bits();
                let pw = Z::one() << (*j as usize % (bits - 1));
                let base = p - pw;
                if *d >= 0 {
                    base + Z::from(*d as u32)
                } else {
                    let dd = Z::from((-(*d as i32)) as u32);
                    if base >= dd { base - dd } else { base }
                }
            }
            FeR::Half(k) => ((p - &one) >> 1) + Z::from(*k as u32 % 4),
            FeR::Pow2(k) => one << (*k as usize % (64 * nlimbs)),
            FeR::Pow2M1(k) => (one.clone() << (*k as usize % (64 * nlimbs))) - &one,
            FeR::Pow2P1(k) => (one.clone() << (*k as usize % (64 * nlimbs))) + &one,
            FeR::MontR => one << (64 * nlimbs),
            FeR::MontR2 => one << (128 * nlimbs),
            FeR::MontRM1 => (one.clone() << (64 * nlimbs)) - &one,
            FeR::Small(k) => Z::from(*k as u32),
            FeR::Limbs(l) => crate::adapt::limbs_to_z(l),
            FeR::MontPattern(pat) => {
                // limbs of the modulus (little endian)
                let pl: Vec<u64> = crate::adapt::z_to_limbs(p, nlimbs);
                let limbs: Vec<u64> = (0..nlimbs)
                    .map(|i| {
                        let sel = pat.get(i).copied().unwrap_or(0) % 8;
                        // the top limb stays below the modulus' top limb: 0, 1, or the modulus limb minus one
                        let sel = if i == nlimbs - 1 { [0u8, 1, 0, 1, 6, 6, 6, 0][sel as usize] } else { sel };
                        match sel {
                            0 => 0,
                            1 => 1,
                            2 => 1u64 << 63,
                            3 => u64::MAX,
                            // 4..7: the modulus limb itself and its neighbours (borrow / carry chains of hand-written
                            // subtractions from the modulus stop or ripple exactly there)
                            4 => pl[i],
                            5 => pl[i].wrapping_add(1),
                            6 => pl[i].wrapping_sub(1),
                            _ => !pl[i],
                        }
                    })
                    .collect();
                let m = crate::adapt::limbs_to_z(&limbs) % p;
                let r = (Z::one() << (64 * nlimbs)) % p;
                let rinv = r.modpow(&(p - Z::from(2u32)), p);
                (m * rinv) % p
            }
            FeR::MontProductEdge { a, i, j, which, d, rest } => {
                let lower = nlimbs - 1;
                let i = *i as usize % lower;
                let mut j = *j as usize % lower;
                if j == i {
                    j = (i + 1) % lower;
                }
                let ai = *a | (1u64 << 63);
                let target: u128 = if which % 2 == 0 { (1u128 << 127) - 1 - (*d as u128) } else { u128::MAX - (*d as u128) };
                let aj = std::cmp::min(target / (ai as u128), u64::MAX as u128) as u64;
                let mut limbs: Vec<u64> = (0..nlimbs).map(|k| rest.get(k).copied().unwrap_or(0)).collect();
                limbs[i] = ai;
                limbs[j] = aj;
                let top_bits = (p.bits() - 1) % 64;
                limbs[nlimbs - 1] &= (1u64 << top_bits) - 1;
                let m = crate::adapt::limbs_to_z(&limbs) % p;
                let r = (Z::one() << (64 * nlimbs)) % p;
                let rinv = r.modpow(&(p - Z::from(2u32)), p);
                (m * rinv) % p
            }
            FeR::TieWith { reference, mont, ties, kind, low } => {
                let refv: Z = match reference % 3 {
                    0 => p.clone(),
                    1 => (p - &one) >> 1,
                    _ => (Z::one() << (64 * nlimbs)) % p,
                };
                let rl = crate::adapt::z_to_limbs(&refv, nlimbs);
                let ties = 1 + (*ties as usize % (nlimbs - 1));
                let mut limbs: Vec<u64> = (0..nlimbs).map(|k| low.get(k).copied().unwrap_or(0x9e37_79b9_7f4a_7c15u64.wrapping_mul(k as u64 + 1))).collect();
                for k in 0..ties {
                    limbs[nlimbs - 1 - k] = rl[nlimbs - 1 - k];
                }
                let nx = nlimbs - 1 - ties;
                limbs[nx] = match kind % 5 {
                    0 => u64::MAX,
                    1 => 0,
                    2 => rl[nx].wrapping_sub(1),
                    3 => rl[nx].wrapping_add(1),
                    _ => limbs[nx],
                };
                let m = crate::adapt::limbs_to_z(&limbs) % p;
                if *mont {
                    let r = (Z::one() << (64 * nlimbs)) % p;
                    let rinv = r.modpow(&(p - Z::from(2u32)), p);
                    (m * rinv) % p
                } else {
                    m
                }
            }
            FeR::NegOf(inner) => {
                let v = inner.build(p, nlimbs);
                if v.is_zero() { v } else { p - v }
            }
            FeR::PMinusK(k) => p - &one - Z::from(*k as u32),
            FeR::SharesTopBits(n, l) => {
                let bits = p.bits();
                let n = std::cmp::min(*n as usize, bits - 1);
                let low_bits = bits - n;
                let mask = (Z::one() << low_bits) - Z::one();
                let top = (p >> low_bits) << low_bits;
                let cand = &top | (crate::adapt::limbs_to_z(l) & &mask);
                // p itself has some set bit below the top n bits; values >= p are folded below it
                if &cand >= p { top } else { cand }
            }
            FeR::LimbCombo(w1, w2, pat) => {
                let top_bits = (p.bits() - 1) % 64; // bits available in the top limb without reaching p
                let limbs: Vec<u64> = (0..nlimbs)
                    .map(|i| {
                        let v = match pat.get(i).copied().unwrap_or(0) % 6 {
                            0 => 0,
                            1 => *w1,
                            2 => *w2,
                            3 => *w1 ^ *w2,
                            4 => w1.wrapping_add(*w2),
                            _ => !*w1,
                        };
                        if i == nlimbs - 1 { v & ((1u64 << top_bits) - 1) } else { v }
                    })
                    .collect();
                crate::adapt::limbs_to_z(&limbs)
            }
        };
        v % p
    }
    pub fn class(&self) -> &'static str {
        match self {
            FeR::Zero => "zero",
            FeR::One => "one",
            FeR::Limbs(_) => "uniform",
            FeR::Small(_) | FeR::Two => "small",
            FeR::MontPattern(_) => "montgomery-limb-pattern",
            FeR::LimbCombo(_, _, _) => "canonical-limb-combination",
            FeR::TieWith { .. } => "limbs-tie-with-a-constant",
            FeR::MontProductEdge { .. } => "montgomery-limb-product-edge",
            _ => "boundary",
        }
    }
    pub fn fq(&self) -> Fq {
        Fq(self.build(q(), 6))
    }
    pub fn fr(&self) -> Z {
        self.build(r(), 4)
    }
}

/// canonical limbs built from two words: random selections, and short curated groups whose xor / wrapping
/// sum cancels ([w1,w1], [w1,w2,w1^w2], ...), placed at a generated offset below the top limb
pub fn limb_combo_strategy(nlimbs: usize) -> BoxedStrategy<FeR> {
    const GROUPS: [&[u8]; 8] = [&[1, 1], &[1, 2, 3], &[1, 1, 2, 2], &[1, 2, 1, 2], &[3, 3], &[1, 0, 1], &[1, 5], &[4, 1, 2]];
    prop_oneof![
        1 => (any::<u64>(), any::<u64>(), proptest::collection::vec(prop_oneof![3 => Just(0u8), 3 => Just(1u8), 2 => Just(2u8), 2 => Just(3u8), 1 => Just(4u8), 1 => Just(5u8)], nlimbs)).prop_map(|(a, b, p)| FeR::LimbCombo(a, b, p)),
        1 => (any::<u64>(), any::<u64>(), 0usize..GROUPS.len(), any::<u8>()).prop_map(move |(a, b, g, off)| {
            let grp = GROUPS[g];
            let room = nlimbs - 1 - std::cmp::min(grp.len(), nlimbs - 1);
            let off = (off as usize * (room + 1)) >> 8;
            let mut p = vec![0u8; nlimbs];
            for (i, v) in grp.iter().enumerate() {
                if off + i < nlimbs - 1 {
                    p[off + i] = *v;
                }
            }
            FeR::LimbCombo(a, b, p)
        }),
    ]
    .boxed()
}

pub fn fe_strategy(nlimbs: usize) -> BoxedStrategy<FeR> {
    let bits = (64 * nlimbs) as u16;
    prop_oneof![
        2 => Just(FeR::Zero),
        2 => Just(FeR::One),
        1 => Just(FeR::Two),
        2 => (0u8..8).prop_map(FeR::PMinus),
        3 => (0u16..400, -2i8..=2).prop_map(|(j, d)| FeR::PMinusPow2(j, d)),
        2 => (0u8..4).prop_map(FeR::Half),
        2 => (0u16..bits).prop_map(FeR::Pow2),
        2 => (0u16..bits).prop_map(FeR::Pow2M1),
        2 => (0u16..bits).prop_map(FeR::Pow2P1),
        1 => Just(FeR::MontR),
        1 => Just(FeR::MontR2),
        1 => Just(FeR::MontRM1),
        2 => any::<u16>().prop_map(FeR::Small),
        4 => proptest::collection::vec(0u8..4, nlimbs).prop_map(FeR::MontPattern),
        4 => proptest::collection::vec(prop_oneof![1 => 0u8..4, 2 => 4u8..8], nlimbs).prop_map(FeR::MontPattern),
        3 => limb_combo_strategy(nlimbs),
        4 => (0u8..3, any::<bool>(), 0u8..5, 0u8..5, proptest::collection::vec(any::<u64>(), nlimbs)).prop_map(|(reference, mont, ties, kind, low)| FeR::TieWith { reference, mont, ties, kind, low }),
        3 => (any::<u64>(), any::<u8>(), any::<u8>(), 0u8..2, 0u8..4, proptest::collection::vec(any::<u64>(), nlimbs)).prop_map(|(a, i, j, which, d, rest)| FeR::MontProductEdge { a, i, j, which, d, rest }),
        14 => proptest::collection::vec(any::<u64>(), nlimbs).prop_map(FeR::Limbs),
    ]
    .boxed()
}

pub fn fq_strategy() -> BoxedStrategy<FeR> {
    fe_strategy(6)
}
pub fn fr_strategy() -> BoxedStrategy<FeR> {
    fe_strategy(4)
}

/// mostly-uniform variant (for places where structure does not matter)
pub fn fq_uniformish() -> BoxedStrategy<FeR> {
    prop_oneof![
        1 => fe_strategy(6),
        5 => proptest::collection::vec(any::<u64>(), 6).prop_map(FeR::Limbs),
    ]
    .boxed()
}

#[derive(Clone, Debug, Serialize, Deserialize, PartialEq, Eq, Hash)]
pub struct Fq2R(pub FeR, pub FeR);

impl Fq2R {
    pub fn build(&self) -> Fq2 {
        Fq2::new(self.0.fq(), self.1.fq())
    }
}

pub fn fq2_strategy() -> BoxedStrategy<Fq2R> {
    prop_oneof![
        6 => (fq_strategy(), fq_strategy()).prop_map(|(a, b)| Fq2R(a, b)),
        8 => (fq_uniformish(), fq_uniformish()).prop_map(|(a, b)| Fq2R(a, b)),
        2 => fq_strategy().prop_map(|a| Fq2R(a, FeR::Zero)),
        2 => fq_strategy().prop_map(|b| Fq2R(FeR::Zero, b)),
        1 => fq_strategy().prop_map(|a| Fq2R(a.clone(), a)),
        1 => fq_strategy().prop_map(|a| Fq2R(a.clone(), FeR::NegOf(Box::new(a)))),
        1 => (limb_combo_strategy(6), fq_strategy()).prop_map(|(a, b)| Fq2R(a, b)),
        1 => (fq_strategy(), limb_combo_strategy(6)).prop_map(|(a, b)| Fq2R(a, b)),
    ]
    .boxed()
}

// ---------------------------------------------------------------------------------------------
// raw representation values (may be >= p)
// ---------------------------------------------------------------------------------------------

#[derive(Clone, Debug, Serialize, Deserialize, PartialEq, Eq, Hash)]
pub enum ReprR {
    Fe(FeR),
    /// p + k
    PPlus(u8),
    /// p + 2^j + d and p - 2^j + d (sign): values around the modulus whose offset spans several limbs
    PNearPow2(bool, u16, i8),
    /// 2^k unreduced
    Pow2(u16),
    AllOnes,
    Raw(Vec<u64>),
    /// per limb: 0 -> 0, 1 -> 1, 2 -> 2^63, 3 -> 2^64-1
    Pattern(Vec<u8>),
}

impl ReprR {
    pub fn build(&self, p: &Z, nlimbs: usize) -> Z {
        let width = 64 * nlimbs;
        let m = Z::one() << width;
        let v = match self {
            ReprR::Fe(f) => f.build(p, nlimbs),
            ReprR::PPlus(k) => p + Z::from(*k as u32),
            ReprR::PNearPow2(plus, j, d) => {
                let pw = Z::one() << (*j as usize % (p.bits() - 1));
                let base = if *plus { p + pw } else { p - pw };
                if *d >= 0 {
                    base + Z::from(*d as u32)
                } else {
                    let dd = Z::from((-(*d as i32)) as u32);
                    if base >= dd { base - dd } else { base }
                }
            }
            ReprR::Pow2(k) => Z::one() << (*k as usize % width),
            ReprR::AllOnes => &m - Z::one(),
            ReprR::Raw(l) => crate::adapt::limbs_to_z(l),
            ReprR::Pattern(pat) => {
                let limbs: Vec<u64> = (0..nlimbs)
                    .map(|i| match pat.get(i).copied().unwrap_or(0) % 4 {
                        0 => 0,
                        1 => 1,
                        2 => 1u64 << 63,
                        _ => u64::MAX,
                    })
                    .collect();
                crate::adapt::limbs_to_z(&limbs)
            }
        };
        v % m
    }
}

pub fn repr_strategy(nlimbs: usize) -> BoxedStrategy<ReprR> {
    let bits = (64 * nlimbs) as u16;
    prop_oneof![
        6 => fe_strategy(nlimbs).prop_map(ReprR::Fe),
        2 => (0u8..4).prop_map(ReprR::PPlus),
        4 => (any::<bool>(), 0u16..400, -2i8..=2).prop_map(|(s, j, d)| ReprR::PNearPow2(s, j, d)),
        2 => (0u16..bits).prop_map(ReprR::Pow2),
        1 => Just(ReprR::AllOnes),
        6 => proptest::collection::vec(any::<u64>(), nlimbs).prop_map(ReprR::Raw),
        3 => proptest::collection::vec(0u8..4, nlimbs).prop_map(ReprR::Pattern),
    ]
    .boxed()
}

// ---------------------------------------------------------------------------------------------
// scalars (256-bit)
// ---------------------------------------------------------------------------------------------

#[derive(Clone, Debug, Serialize, Deserialize, PartialEq, Eq, Hash)]
pub enum ScalarR {
    Zero,
    One,
    Small(u8),
    /// r - 1 + k  (k = 0: r-1, 1: r, 2: r+1)
    NearR(u8),
    /// m*r + delta for m in 0..=4 (clipped at 0 and below 2^256): the scalars at which a double-and-add or
    /// windowed ladder on a point of order r meets its own base point or a table entry again
    /// (r+2, 2r+4, 2r+5: accumulator = base; r, 2r, 4r: accumulator = -base; ...)
    NearMultR(u8, i16),
    /// a scalar (possibly >= r) at which the 8 x 32-bit interleaved comb of mul_precomp_256, run on a point of order r,
    /// meets a coincidence: after a doubling the accumulator EQUALS the table entry about to be added (the addition is a
    /// doubling) or is its negative (the sum is the identity). Found by simulating the comb in Z/r on the candidates
    /// m r + c 2^s n, n a sum of powers 2^(32 j); index into that list.
    CombEvent(u16),
    Bit(u8),
    TwoBits(u8, u8),
    /// 2^n - 1
    LowMask(u16),
    /// bit pattern around the boundary of 64-bit word `word` (1..=3): bits [64w-2 .. 64w+2)
    WordEdge(u8, u8),
    /// 32-bit chunk boundary `c` (1..=7): bits [32c-2 .. 32c+2)
    ChunkEdge(u8, u8),
    AllOnes255,
    AllOnes256,
    Pow255,
    /// sparse: a handful of set bits
    Sparse(Vec<u8>),
    Random([u64; 4]),
}

impl ScalarR {
    /// the 256-bit integer
    pub fn build(&self) -> Z {
        let one = Z::one();
        match self {
            ScalarR::Zero => Z::zero(),
            ScalarR::One => one,
            ScalarR::Small(k) => Z::from(*k as u32),
            ScalarR::NearR(k) => r() - &one + Z::from(*k as u32 % 3),
            ScalarR::NearMultR(m, d) => {
                let base = r() * Z::from(*m as u32 % 5);
                let v = if *d >= 0 {
                    base + Z::from(*d as u32)
                } else {
                    let dd = Z::from((-(*d as i32)) as u32);
                    if base >= dd { base - dd } else { base }
                };
                v % (Z::one() << 256)
            }
            ScalarR::CombEvent(i) => {
                let v = comb_event_scalars();
                v[(*i as usize * v.len()) >> 16].clone()
            }
            ScalarR::Bit(i) => one << (*i as usize),
            ScalarR::TwoBits(i, j) => (one.clone() << (*i as usize)) | (one << (*j as usize)),
            ScalarR::LowMask(n) => (one.clone() << (*n as usize % 257)) - &one,
            ScalarR::WordEdge(w, pat) => {
                let w = 1 + (*w as usize % 3);
                Z::from(*pat as u32 % 16) << (64 * w - 2)
            }
            ScalarR::ChunkEdge(c, pat) => {
                let c = 1 + (*c as usize % 7);
                Z::from(*pat as u32 % 16) << (32 * c - 2)
            }
            ScalarR::AllOnes255 => (one.clone() << 255) - &one,
            ScalarR::AllOnes256 => (one.clone() << 256) - &one,
            ScalarR::Pow255 => one << 255,
            ScalarR::Sparse(bits) => {
                let mut v = Z::zero();
                for b in bits {
                    v = v | (Z::one() << (*b as usize));
                }
                v
            }
            ScalarR::Random(l) => crate::adapt::limbs_to_z(l),
        }
    }
    /// clipped to [0, 2^255)
    pub fn build255(&self) -> Z {
        self.build() % (Z::one() << 255)
    }
    /// reduced mod r
    pub fn build_r(&self) -> Z {
        self.build() % r()
    }
    pub fn class(&self) -> &'static str {
        match self {
            ScalarR::Zero => "k=0",
            ScalarR::One => "k=1",
            ScalarR::Small(_) => "k-small",
            ScalarR::NearR(_) => "k-near-r",
            ScalarR::NearMultR(_, _) => "k-near-multiple-of-r",
            ScalarR::CombEvent(_) => "k-comb-coincidence",
            ScalarR::Bit(_) => "k-single-bit",
            ScalarR::TwoBits(_, _) => "k-two-bits",
            ScalarR::LowMask(_) => "k-mask",
            ScalarR::WordEdge(_, _) => "k-word-edge",
            ScalarR::ChunkEdge(_, _) => "k-chunk-edge",
            ScalarR::AllOnes255 | ScalarR::AllOnes256 | ScalarR::Pow255 => "k-extreme",
            ScalarR::Sparse(_) => "k-sparse",
            ScalarR::Random(_) => "k-uniform",
        }
    }
}

/// does the interleaved comb (32 columns, 8 chunks of 32 bits) hit "accumulator == +-table entry" for scalar k on a point of order r?
fn comb_has_event(k: &Z) -> bool {
    let rr = r();
    let mut acc = Z::zero();
    for i in (0..32).rev() {
        acc = (&acc + &acc) % rr;
        let mut e = Z::zero();
        for c in 0..8 {
            if ((k >> (32 * c + i)) & Z::one()) == Z::one() {
                e = e + (Z::one() << (32 * c));
            }
        }
        let e = e % rr;
        if !acc.is_zero() && !e.is_zero() && (acc == e || (&acc + &e) % rr == Z::zero()) {
            return true;
        }
        acc = (acc + e) % rr;
    }
    false
}

static COMB_EVENTS: OnceLock<Vec<Z>> = OnceLock::new();

pub fn comb_event_scalars() -> &'static Vec<Z> {
    COMB_EVENTS.get_or_init(|| {
        let mut out = vec![];
        let two256 = Z::one() << 256;
        'search: for s in 0..32usize {
            for m in 1u32..=4 {
                for mask in 1u32..256 {
                    let mut n = Z::zero();
                    for c in 0..8 {
                        if mask & (1 << c) != 0 {
                            n = n + (Z::one() << (32 * c));
                        }
                    }
                    for mult in [1u32, 2, 3] {
                        let k = (r() * Z::from(m) + (&n * Z::from(mult) << s)) % &two256;
                        if comb_has_event(&k) && !out.contains(&k) {
                            out.push(k);
                            if out.len() >= 96 {
                                break 'search;
                            }
                        }
                    }
                }
            }
        }
        if out.is_empty() {
            out.push(Z::one());
        }
        out
    })
}

pub fn scalar_strategy() -> BoxedStrategy<ScalarR> {
    prop_oneof![
        1 => Just(ScalarR::Zero),
        1 => Just(ScalarR::One),
        1 => any::<u8>().prop_map(ScalarR::Small),
        2 => (0u8..3).prop_map(ScalarR::NearR),
        3 => (0u8..5, prop_oneof![3 => -8i16..=8, 1 => -600i16..=600]).prop_map(|(m, d)| ScalarR::NearMultR(m, d)),
        2 => any::<u16>().prop_map(ScalarR::CombEvent),
        3 => any::<u8>().prop_map(ScalarR::Bit),
        2 => (any::<u8>(), any::<u8>()).prop_map(|(a, b)| ScalarR::TwoBits(a, b)),
        2 => (0u16..257).prop_map(ScalarR::LowMask),
        2 => (0u8..3, 1u8..16).prop_map(|(w, p)| ScalarR::WordEdge(w, p)),
        2 => (0u8..7, 1u8..16).prop_map(|(w, p)| ScalarR::ChunkEdge(w, p)),
        1 => Just(ScalarR::AllOnes255),
        1 => Just(ScalarR::AllOnes256),
        1 => Just(ScalarR::Pow255),
        2 => proptest::collection::vec(any::<u8>(), 1..6).prop_map(ScalarR::Sparse),
        8 => any::<[u64; 4]>().prop_map(ScalarR::Random),
    ]
    .boxed()
}

// ---------------------------------------------------------------------------------------------
// points: pools (a pure function of fixed seeds) + recipes
// ---------------------------------------------------------------------------------------------

pub const POOL_SUB: usize = 24;
pub const POOL_FULL: usize = 24;
pub const POOL_SMALL_PER_PRIME: usize = 3;
pub const SMALL_MULT_MAX: usize = 12;

pub struct Pool<F> {
    /// [s_i] G with known s_i (mod r)
    pub sub: Vec<(Z, Pt<F>)>,
    /// [j] G for j = 0..=SMALL_MULT_MAX
    pub small_mult: Vec<Pt<F>>,
    /// uniform points of the full curve group
    pub full: Vec<Pt<F>>,
    /// small_order[prime index][i]: points of exact prime order l
    pub small_order: Vec<Vec<Pt<F>>>,
    /// primitive cube root of unity in Fq (as an element of F)
    pub beta: F,
    /// points of the full curve group whose coordinates have special structure (G2: x in Fq, x purely
    /// imaginary, y in Fq, y purely imaginary; built with square / cube roots in the model). Empty for G1.
    pub special: Vec<(String, Pt<F>)>,
}

fn build_pool<G: Grp>(seed: u64) -> Pool<G::F>
where
    G::F: SqrtFld,
{
    let c = G::curve();
    let g = G::gen();
    let mut w = Words(seed);
    let mut sub = vec![];
    for _ in 0..POOL_SUB {
        let mut k = Z::zero();
        for _ in 0..4 {
            k = (k << 64) + Z::from(w.next());
        }
        let k = k % r();
        let p = c.mul(&k, &g);
        sub.push((k, p));
    }
    let mut small_mult = vec![Pt::Inf];
    for j in 1..=SMALL_MULT_MAX {
        let prev = small_mult[j - 1].clone();
        small_mult.push(c.add(&prev, &g));
    }
    let mut full = vec![];
    for _ in 0..POOL_FULL {
        full.push(c.point_from_words(&mut || w.next()));
    }
    let n = G::order();
    let mut small_order = vec![];
    for (l, e) in G::small_primes() {
        let mut v = vec![];
        for i in 0..POOL_SMALL_PER_PRIME {
            v.push(point_of_order(&c, &n, &Z::from(l), e, seed ^ (l << 8) ^ i as u64));
        }
        small_order.push(v);
    }
    Pool { sub, small_mult, full, small_order, beta: beta_in::<G::F>(), special: G::special_points() }
}

/// primitive cube root of unity of Fq, embedded: 2^((q-1)/3) (2 is not a cube mod q)
pub fn beta_in<F: Fld>() -> F {
    let e = (q() - Z::one()) / Z::from(3u32);
    let mut g = 2u32;
    let b = loop {
        let b = Z::from(g).modpow(&e, q());
        if !b.is_one() {
            break b;
        }
        g += 1;
    };
    // embed by repeated addition-free trick: F::from_u64 only takes u64, so build from limbs
    let mut acc = F::zero();
    let base = F::from_u64(1u64 << 32);
    for d in b.to_u32_digits().iter().rev() {
        acc = acc.mul(&base).add(&F::from_u64(*d as u64));
    }
    acc
}

static POOL1: OnceLock<Pool<Fq>> = OnceLock::new();
static POOL2: OnceLock<Pool<Fq2>> = OnceLock::new();

pub trait HasPool: crate::adapt::Ops {
    fn pool() -> &'static Pool<Self::F>;
    fn banded_cache() -> &'static OnceLock<Vec<(Z, Pt<Self::F>, String)>>;
}

/// G2 points with structured coordinates; (label, point). For each structure both signs of y.
pub fn g2_special_points() -> Vec<(String, Pt<Fq2>)> {
    let c = refmodel::curve::e2();
    let mut out = vec![];
    let mut w = Words(0x5bec1a1);
    // x real / x imaginary: lift x
    for kind in ["x-in-Fq", "x-imaginary"] {
        let mut found = 0;
        while found < 2 {
            let v = Fq::from_words(&mut || w.next());
            let x = if kind == "x-in-Fq" { Fq2::new(v, Fq::zero()) } else { Fq2::new(Fq::zero(), v) };
            if let Some(Pt::Aff(x, y)) = c.lift_x(&x) {
                out.push((kind.to_string(), Pt::Aff(x.clone(), y.clone())));
                out.push((kind.to_string(), Pt::Aff(x, y.neg())));
                found += 1;
            }
        }
    }
    // y real / y imaginary: x^3 = y^2 - b needs a cube root
    for kind in ["y-in-Fq", "y-imaginary"] {
        let mut found = 0;
        while found < 2 {
            let v = Fq::from_words(&mut || w.next());
            let y = if kind == "y-in-Fq" { Fq2::new(v, Fq::zero()) } else { Fq2::new(Fq::zero(), v) };
            let rhs = y.sqr().sub(&c.b);
            if let Some(x) = rhs.cbrt() {
                let p = Pt::Aff(x.clone(), y.clone());
                assert!(c.on_curve(&p));
                out.push((kind.to_string(), p));
                out.push((kind.to_string(), Pt::Aff(x, y.neg())));
                found += 1;
            }
        }
    }
    out
}
static BANDED1: OnceLock<Vec<(Z, Pt<Fq>, String)>> = OnceLock::new();
static BANDED2: OnceLock<Vec<(Z, Pt<Fq2>, String)>> = OnceLock::new();
impl HasPool for G1m {
    fn pool() -> &'static Pool<Fq> {
        POOL1.get_or_init(|| build_pool::<G1m>(0x9001))
    }
    fn banded_cache() -> &'static OnceLock<Vec<(Z, Pt<Fq>, String)>> {
        &BANDED1
    }
}
impl HasPool for G2m {
    fn pool() -> &'static Pool<Fq2> {
        POOL2.get_or_init(|| build_pool::<G2m>(0x9002))
    }
    fn banded_cache() -> &'static OnceLock<Vec<(Z, Pt<Fq2>, String)>> {
        &BANDED2
    }
}

#[derive(Clone, Debug, Serialize, Deserialize, PartialEq, Eq, Hash)]
pub enum PointR {
    Identity,
    Gen,
    /// [j] G, j small: sums of these collide, which drives the P = Q / P = -Q branches
    SmallMult(u8),
    /// pool subgroup point
    Sub(u8),
    /// pool full-curve point (almost surely outside the subgroup)
    Full(u8),
    /// point of small prime order (index into the group's small primes)
    SmallOrder(u8, u8),
    /// small-order point + subgroup point: order l * r
    Mixed(u8, u8, u8),
    Neg(Box<PointR>),
    /// (beta^k x, y): same y, different x
    Beta(Box<PointR>, u8),
    /// G2: full-curve point with a structured coordinate (x or y in Fq or purely imaginary), times a small
    /// multiplier is NOT applied (the structure would be lost). G1: falls back to a full-curve point.
    Special(u8),
    /// a point of the full curve group whose x-coordinate is STRUCTURED: x = (c0, c1) from the structured field
    /// generator (G1: c0 only), stepped by +1 until x^3 + b is a square; y = the root, negated on request.
    /// (x just below the modulus, x sharing its leading bits with the modulus, small x, powers of two, limb
    /// patterns ...; such points are almost never in the subgroup, so they exercise the unchecked decoders,
    /// the encoders and the group law.)
    XStructured(FeR, FeR, bool),
    /// a point of the full curve group whose Y-coordinate is structured: y = (c0, c1) from the structured generator
    /// (G1: c0 only), stepped by +1 until y^2 - b is a cube; x = a cube root, multiplied by beta^k
    YStructured(FeR, FeR, u8),
    /// a SUBGROUP point [k]G with a coordinate in a numerically special band (leading 32 / 16 bits equal to those of
    /// the modulus, 32 / 24 leading zero bits), from the list found by search (corpus/banded-points.json); index
    Banded(u16),
}

/// (k, coordinate, band) per group, from corpus/banded-points.json
pub fn banded_list(g2: bool) -> &'static Vec<(Z, String)> {
    static L1: OnceLock<Vec<(Z, String)>> = OnceLock::new();
    static L2: OnceLock<Vec<(Z, String)>> = OnceLock::new();
    let load = move || -> Vec<(Z, String)> {
        let path = crate::props::corpus_dir("").join("banded-points.json");
        let mut out = vec![];
        if let Ok(text) = std::fs::read_to_string(&path) {
            if let Ok(serde_json::Value::Array(a)) = serde_json::from_str::<serde_json::Value>(&text) {
                for e in a {
                    if (e["group"].as_str() == Some("G2")) == g2 {
                        if let Some(k) = e["k"].as_str() {
                            out.push((refmodel::fld::zhex(k), format!("{}:{}", e["coord"].as_str().unwrap_or("?"), e["band"].as_str().unwrap_or("?"))));
                        }
                    }
                }
            }
        }
        out
    };
    if g2 { L2.get_or_init(load) } else { L1.get_or_init(load) }
}

fn banded_points<G: HasPool>() -> &'static Vec<(Z, Pt<G::F>, String)> {
    G::banded_cache().get_or_init(|| {
        let c = G::curve();
        banded_list(G::NAME == "G2").iter().map(|(k, label)| (k.clone(), c.mul(k, &G::gen()), label.clone())).collect()
    })
}

impl PointR {
    pub fn build<G: HasPool>(&self) -> Pt<G::F> {
        // the pool is only touched by the recipes that need it (fresh child processes of C20 use
        // generator-derived points only and must not pay for building it)
        let c = G::curve();
        match self {
            PointR::Identity => Pt::Inf,
            PointR::Gen => G::gen(),
            PointR::SmallMult(j) => G::pool().small_mult[*j as usize % (SMALL_MULT_MAX + 1)].clone(),
            PointR::Sub(i) => G::pool().sub[*i as usize % POOL_SUB].1.clone(),
            PointR::Full(i) => G::pool().full[*i as usize % POOL_FULL].clone(),
            PointR::SmallOrder(p, i) => {
                let pool = G::pool();
                let v = &pool.small_order[*p as usize % pool.small_order.len()];
                v[*i as usize % v.len()].clone()
            }
            PointR::Mixed(p, i, s) => {
                let pool = G::pool();
                let v = &pool.small_order[*p as usize % pool.small_order.len()];
                c.add(&v[*i as usize % v.len()], &pool.sub[*s as usize % POOL_SUB].1)
            }
            PointR::Special(i) => {
                let pool = G::pool();
                if pool.special.is_empty() {
                    pool.full[*i as usize % POOL_FULL].clone()
                } else {
                    pool.special[*i as usize % pool.special.len()].1.clone()
                }
            }
            PointR::Banded(i) => {
                let v = banded_points::<G>();
                if v.is_empty() {
                    G::gen()
                } else {
                    v[(*i as usize * v.len()) >> 16].1.clone()
                }
            }
            PointR::YStructured(c0, c1, k) => {
                let one = <G::F as Fld>::one();
                let mut y = <G::F as SqrtFld>::from_fq_pair(&c0.fq(), &c1.fq());
                let mut found = None;
                for _ in 0..64 {
                    if let Some(x) = y.sqr().sub(&c.b).cube_root() {
                        let beta = beta_in::<G::F>();
                        let mut x = x;
                        for _ in 0..(*k % 3) {
                            x = x.mul(&beta);
                        }
                        found = Some(Pt::Aff(x, y.clone()));
                        break;
                    }
                    y = y.add(&one);
                }
                found.unwrap_or_else(|| G::gen())
            }
            PointR::XStructured(c0, c1, neg) => {
                let one = <G::F as Fld>::one();
                let mut x = <G::F as SqrtFld>::from_fq_pair(&c0.fq(), &c1.fq());
                let mut found = None;
                for _ in 0..128 {
                    if let Some(y) = c.rhs(&x).sqrt() {
                        found = Some(Pt::Aff(x.clone(), if *neg { y.neg() } else { y }));
                        break;
                    }
                    x = x.add(&one);
                }
                found.unwrap_or_else(|| G::gen())
            }
            PointR::Neg(inner) => c.neg(&inner.build::<G>()),
            PointR::Beta(inner, k) => match inner.build::<G>() {
                Pt::Inf => Pt::Inf,
                Pt::Aff(x, y) => {
                    let beta = beta_in::<G::F>();
                    let mut x = x;
                    for _ in 0..(*k % 3) {
                        x = x.mul(&beta);
                    }
                    Pt::Aff(x, y)
                }
            },
        }
    }
    /// does the recipe denote a point of the order-r subgroup (by construction)?
    pub fn in_subgroup(&self) -> bool {
        match self {
            PointR::Identity | PointR::Gen | PointR::SmallMult(_) | PointR::Sub(_) | PointR::Banded(_) => true,
            PointR::Full(_) | PointR::SmallOrder(_, _) | PointR::Mixed(_, _, _) | PointR::Special(_) | PointR::XStructured(_, _, _) | PointR::YStructured(_, _, _) => false,
            PointR::Neg(i) => i.in_subgroup(),
            // x -> beta x is the GLV endomorphism on E(Fq) and on E'(Fq2): it preserves the subgroup
            PointR::Beta(i, _) => i.in_subgroup(),
        }
    }
    pub fn class(&self) -> &'static str {
        match self {
            PointR::Identity => "pt-identity",
            PointR::Gen | PointR::SmallMult(_) => "pt-small-multiple",
            PointR::Sub(_) => "pt-subgroup",
            PointR::Full(_) => "pt-full-curve",
            PointR::SmallOrder(_, _) => "pt-small-order",
            PointR::Mixed(_, _, _) => "pt-order-l*r",
            PointR::Neg(_) => "pt-negated",
            PointR::Beta(_, _) => "pt-same-y",
            PointR::Special(_) => "pt-structured-coordinate",
            PointR::XStructured(_, _, _) => "pt-structured-x",
            PointR::YStructured(_, _, _) => "pt-structured-y",
            PointR::Banded(_) => "pt-subgroup-with-banded-coordinate",
        }
    }
}

/// structured values for a coordinate: the field generator plus more weight on the region just below the modulus
/// (q - 1 - k for k up to 255: the leading limbs equal those of the modulus) and on values that share only the
/// leading 16 / 32 / 64 bits with it
fn x_structured_fe() -> BoxedStrategy<FeR> {
    prop_oneof![
        4 => fq_strategy(),
        3 => any::<u8>().prop_map(FeR::PMinusK),
        3 => (prop_oneof![Just(16u8), Just(32u8), Just(64u8), Just(128u8)], any::<[u64; 6]>()).prop_map(|(b, l)| FeR::SharesTopBits(b, l.to_vec())),
    ]
    .boxed()
}

/// structured values for an ordinate: the field generator plus canonical values that tie with (p-1)/2 (the sort-flag
/// threshold) or with p in their upper limbs
fn y_structured_fe() -> BoxedStrategy<FeR> {
    prop_oneof![
        3 => fq_strategy(),
        4 => (prop_oneof![3 => Just(1u8), 1 => Just(0u8)], 0u8..5, 0u8..5, proptest::collection::vec(any::<u64>(), 6)).prop_map(|(reference, ties, kind, low)| FeR::TieWith { reference, mont: false, ties, kind, low }),
        1 => (0u8..4).prop_map(FeR::Half),
    ]
    .boxed()
}

fn point_leaf(any_curve_point: bool) -> BoxedStrategy<PointR> {
    if any_curve_point {
        prop_oneof![
            2 => Just(PointR::Identity),
            1 => Just(PointR::Gen),
            5 => (0u8..=SMALL_MULT_MAX as u8).prop_map(PointR::SmallMult),
            5 => (0u8..POOL_SUB as u8).prop_map(PointR::Sub),
            4 => (0u8..POOL_FULL as u8).prop_map(PointR::Full),
            4 => (0u8..5, 0u8..POOL_SMALL_PER_PRIME as u8).prop_map(|(p, i)| PointR::SmallOrder(p, i)),
            2 => (0u8..5, 0u8..POOL_SMALL_PER_PRIME as u8, 0u8..POOL_SUB as u8).prop_map(|(p, i, s)| PointR::Mixed(p, i, s)),
            2 => (0u8..16).prop_map(PointR::Special),
            4 => (x_structured_fe(), prop_oneof![2 => Just(FeR::Zero), 2 => x_structured_fe(), 1 => fq_uniformish()], any::<bool>()).prop_map(|(a, b, n)| PointR::XStructured(a, b, n)),
            3 => any::<u16>().prop_map(PointR::Banded),
            3 => (y_structured_fe(), prop_oneof![2 => Just(FeR::Zero), 1 => y_structured_fe()], 0u8..3).prop_map(|(a, b, k)| PointR::YStructured(a, b, k)),
        ]
        .boxed()
    } else {
        prop_oneof![
            2 => Just(PointR::Identity),
            1 => Just(PointR::Gen),
            5 => (0u8..=SMALL_MULT_MAX as u8).prop_map(PointR::SmallMult),
            6 => (0u8..POOL_SUB as u8).prop_map(PointR::Sub),
            3 => any::<u16>().prop_map(PointR::Banded),
        ]
        .boxed()
    }
}

/// points of the whole curve group (`true`) or only of the order-r subgroup (`false`)
pub fn point_strategy(any_curve_point: bool) -> BoxedStrategy<PointR> {
    let leaf = point_leaf(any_curve_point);
    prop_oneof![
        8 => leaf.clone(),
        1 => leaf.clone().prop_map(|p| PointR::Neg(Box::new(p))),
        1 => (leaf, 1u8..3).prop_map(|(p, k)| PointR::Beta(Box::new(p), k)),
    ]
    .boxed()
}

/// which Jacobian representative to hand to the crate
#[derive(Clone, Debug, Serialize, Deserialize, PartialEq, Eq, Hash)]
pub enum RepR {
    /// Z = 1 (identity: the canonical (0, 1, 0))
    Normal,
    /// (l^2 x, l^3 y, l) with l from the recipe (l = 0 is replaced by 1); identity: (l^2, l^3, 0)
    Scaled(FeR),
    /// Z = -1
    MinusOne,
    /// (l^2 x, l^3 y, l) with l = (a, b) a general element of the coordinate field (G1 uses a only): Z purely imaginary,
    /// Z = (c, c), Z = (c, -c), dense Z
    Scaled2(FeR, FeR),
    /// a representative in which the Jacobian coordinates satisfy a RELATION a shortcut might test for
    /// (kind 0: Y = 1/2, so that doubling keeps Z: Z(2P) = 2YZ = Z(P); 1: Y = v; 2: X = v; 3: Y = Z;
    /// 4: X = Z; 5: X = Y; 6: Y = -1/2; 7: Z = v from the structured generator), the scale factor found with square / cube roots in the model;
    /// when the root does not exist v is stepped (kinds 1, 2) or the plain scaled representative is used
    Related(u8, FeR),
}

pub fn rep_strategy() -> BoxedStrategy<RepR> {
    prop_oneof![
        4 => Just(RepR::Normal),
        1 => Just(RepR::MinusOne),
        4 => fq_uniformish().prop_map(RepR::Scaled),
        2 => (0u8..8, fq_strategy()).prop_map(|(k, v)| RepR::Related(k, v)),
        3 => prop_oneof![
            2 => fq_strategy().prop_map(|b| RepR::Scaled2(FeR::Zero, b)),
            1 => fq_strategy().prop_map(|a| RepR::Scaled2(a.clone(), a)),
            2 => (fq_strategy(), fq_strategy()).prop_map(|(a, b)| RepR::Scaled2(a, b)),
            1 => (fq_uniformish(), fq_uniformish()).prop_map(|(a, b)| RepR::Scaled2(a, b)),
        ],
    ]
    .boxed()
}

/// build the crate projective value for a model point in the requested representative
pub fn rep_build<G: Grp>(p: &Pt<G::F>, rep: &RepR) -> G::Proj
where
    G::F: SqrtFld,
{
    use ff_zeroize::Field;
    let embed = |f: &FeR| -> G::F {
        let v = f.fq();
        let mut acc = <G::F as Fld>::zero();
        let base = <G::F as Fld>::from_u64(1u64 << 32);
        for d in v.0.to_u32_digits().iter().rev() {
            acc = acc.mul(&base).add(&<G::F as Fld>::from_u64(*d as u64));
        }
        acc
    };
    let lam: G::F = match rep {
        RepR::Normal => <G::F as Fld>::one(),
        RepR::MinusOne => <G::F as Fld>::one().neg(),
        RepR::Scaled2(a, b) => {
            let v = <G::F as SqrtFld>::from_fq_pair(&a.fq(), &b.fq());
            if v.is_zero() { <G::F as Fld>::one() } else { v }
        }
        RepR::Related(kind, f) => match p {
            Pt::Inf => {
                let v = embed(f);
                if v.is_zero() { <G::F as Fld>::one() } else { v }
            }
            Pt::Aff(x, y) => {
                let one = <G::F as Fld>::one();
                let half = <G::F as Fld>::from_u64(2).inv().unwrap();
                let v0 = embed(f);
                let mut found: Option<G::F> = None;
                for step in 0..8u64 {
                    let v = v0.add(&<G::F as Fld>::from_u64(step));
                    let cand: Option<G::F> = match kind % 8 {
                        // l^3 y = 1/2
                        0 => y.inv().and_then(|yi| half.mul(&yi).cube_root()),
                        // l^3 y = v
                        1 => y.inv().and_then(|yi| v.mul(&yi).cube_root()),
                        // l^2 x = v
                        2 => x.inv().and_then(|xi| v.mul(&xi).sqrt()),
                        // l^3 y = l  ->  l^2 = 1/y
                        3 => y.inv().and_then(|yi| yi.sqrt()),
                        // l^2 x = l  ->  l = 1/x
                        4 => x.inv(),
                        // l^2 x = l^3 y  ->  l = x/y
                        5 => y.inv().map(|yi| x.mul(&yi)),
                        // l^3 y = -1/2
                        6 => y.inv().and_then(|yi| half.neg().mul(&yi).cube_root()),
                        // Z = v
                        _ => Some(v.clone()),
                    };
                    match cand {
                        Some(l) if !l.is_zero() => {
                            found = Some(l);
                            break;
                        }
                        _ => {
                            if !matches!(kind % 8, 1 | 2 | 7) {
                                break;
                            }
                        }
                    }
                }
                found.unwrap_or_else(|| if v0.is_zero() { one.clone() } else { v0.clone() })
            }
        },
        RepR::Scaled(f) => {
            // embed the Fq recipe value into F through a word stream-free path: c0 = value
            let v = f.fq();
            let mut acc = <G::F as Fld>::zero();
            let base = <G::F as Fld>::from_u64(1u64 << 32);
            for d in v.0.to_u32_digits().iter().rev() {
                acc = acc.mul(&base).add(&<G::F as Fld>::from_u64(*d as u64));
            }
            if acc.is_zero() {
                <G::F as Fld>::one()
            } else {
                acc
            }
        }
    };
    match p {
        Pt::Inf => match rep {
            RepR::Normal => {
                use pairing_plus::CurveProjective;
                G::Proj::zero()
            }
            _ => {
                // a "junk" representative of the identity: arbitrary X, Y with Z = 0
                let l2 = lam.sqr();
                let l3 = l2.mul(&lam);
                G::proj_raw(G::f_c(&l2), G::f_c(&l3), G::CF::zero())
            }
        },
        _ => crate::adapt::proj_c_scaled::<G>(p, &lam),
    }
}

// ---------------------------------------------------------------------------------------------
// byte strings for hashing
// ---------------------------------------------------------------------------------------------

#[derive(Clone, Debug, Serialize, Deserialize, PartialEq, Eq, Hash)]
pub enum BytesR {
    Empty,
    /// `len` bytes derived from `seed`
    Seeded(u32, u64),
    /// explicit (short) bytes, shrinkable
    Lit(Vec<u8>),
    Ascii(String),
}

impl BytesR {
    pub fn build(&self) -> Vec<u8> {
        match self {
            BytesR::Empty => vec![],
            BytesR::Seeded(len, seed) => {
                let mut w = Words(*seed);
                let mut out = Vec::with_capacity(*len as usize);
                while out.len() < *len as usize {
                    out.extend_from_slice(&w.next().to_le_bytes());
                }
                out.truncate(*len as usize);
                out
            }
            BytesR::Lit(v) => v.clone(),
            BytesR::Ascii(s) => s.as_bytes().to_vec(),
        }
    }
}

const MSG_EDGE_LENGTHS: [u32; 40] = [
    0, 1, 2, 31, 32, 33, 47, 48, 54, 55, 56, 57, 61, 62, 63, 64, 65, 71, 72, 73, 103, 104, 111, 112, 113, 119, 120, 127, 128,
    129, 135, 136, 137, 143, 144, 167, 168, 169, 255, 256,
];

pub fn msg_strategy() -> BoxedStrategy<BytesR> {
    prop_oneof![
        1 => Just(BytesR::Empty),
        6 => (0usize..MSG_EDGE_LENGTHS.len(), any::<u64>()).prop_map(|(i, s)| BytesR::Seeded(MSG_EDGE_LENGTHS[i], s)),
        4 => (0u32..600, any::<u64>()).prop_map(|(l, s)| BytesR::Seeded(l, s)),
        1 => (600u32..20000, any::<u64>()).prop_map(|(l, s)| BytesR::Seeded(l, s)),
        // messages around and beyond 2^16 bytes (no length field of the RFC covers the message itself)
        1 => (prop_oneof![Just(65535u32), Just(65536u32), Just(65537u32), Just(131073u32), 66000u32..200000], any::<u64>()).prop_map(|(l, s)| BytesR::Seeded(l, s)),
        3 => proptest::collection::vec(any::<u8>(), 0..48).prop_map(BytesR::Lit),
        1 => "[ -~]{0,40}".prop_map(BytesR::Ascii),
    ]
    .boxed()
}

const DST_EDGE_LENGTHS: [u32; 12] = [0, 1, 15, 16, 17, 43, 50, 63, 64, 127, 254, 255];

pub fn dst_strategy() -> BoxedStrategy<BytesR> {
    prop_oneof![
        5 => (0usize..DST_EDGE_LENGTHS.len(), any::<u64>()).prop_map(|(i, s)| BytesR::Seeded(DST_EDGE_LENGTHS[i], s)),
        3 => (0u32..256, any::<u64>()).prop_map(|(l, s)| BytesR::Seeded(l, s)),
        2 => proptest::collection::vec(any::<u8>(), 0..32).prop_map(BytesR::Lit),
        2 => Just(BytesR::Ascii("QUUX-V01-CS02-with-BLS12381G1_XMD:SHA-256_SSWU_RO_".to_string())),
    ]
    .boxed()
}

pub fn heff_of<G: Grp>() -> Z {
    if G::NAME == "G1" {
        C().heff1.clone()
    } else {
        C().heff2.clone()
    }
}


// ---------------------------------------------------------------------------------------------
// subgroup points with a coordinate in a numerically special band (found by search, kept in corpus/banded-points.json)
// ---------------------------------------------------------------------------------------------

/// bands of a coordinate component v (canonical integer below q), judged on the top limb l5 of its six limbs:
/// "top32=q": the leading 32 bits of the 384-bit big-endian field equal those of q (v >= 0x1a0111ea * 2^352);
/// "top16=q": the leading 16 bits do; "top32=0" / "top24=0": that many leading zero bits
pub fn band_of(l5: u64) -> Option<&'static str> {
    const Q5: u64 = 0x1a0111ea397fe69a;
    if l5 >> 32 == Q5 >> 32 {
        Some("top32=q")
    } else if l5 >> 32 == 0 {
        Some("top32=0")
    } else if l5 >> 40 == 0 {
        Some("top24=0")
    } else if l5 >> 48 == Q5 >> 48 {
        Some("top16=q")
    } else {
        None
    }
}

/// bands judged on the LOW limb l0 of the canonical integer: the low 16 bits are 0, 1 or all ones (a test that
/// looks at a truncated value - "x == 1" on the low bits - needs exactly such a coordinate)
pub fn low_band_of(l0: u64) -> Option<&'static str> {
    match l0 & 0xffff {
        0 => Some("low16=0"),
        1 => Some("low16=1"),
        0xffff => Some("low16=ones"),
        _ => None,
    }
}

pub fn find_banded(g2: bool, trials: u64, threads: u64) {
    use ff_zeroize::PrimeField;
    use pairing_plus::bls12_381 as crt;
    use pairing_plus::{CurveAffine, CurveProjective};
    std::thread::scope(|sc| {
        for t in 0..threads {
            sc.spawn(move || {
                let start: u64 = 0x1000_0000_0000 * (t + 1) + 12345;
                let mut seen = std::collections::BTreeMap::<String, u32>::new();
                let report = |k: u64, coord: &str, band: &str, seen: &mut std::collections::BTreeMap<String, u32>| {
                    let key = format!("{}:{}", coord, band);
                    let c = seen.entry(key).or_insert(0);
                    if *c < 3 || band == "top32=q" || band == "top32=0" {
                        println!("{{\"group\": \"{}\", \"k\": \"{:x}\", \"coord\": \"{}\", \"band\": \"{}\"}}", if g2 { "G2" } else { "G1" }, k, coord, band);
                    }
                    *c += 1;
                };
                let chunk = 4096usize;
                if !g2 {
                    let g = crt::G1Affine::one();
                    let mut p = g.mul(crt::FrRepr([start, 0, 0, 0]));
                    let mut k = start;
                    let mut done = 0u64;
                    while done < trials {
                        let mut v = Vec::with_capacity(chunk);
                        for _ in 0..chunk {
                            v.push(p);
                            p.add_assign_mixed(&g);
                        }
                        crt::G1::batch_normalization(&mut v);
                        for (i, q) in v.iter().enumerate() {
                            let a = q.into_affine();
                            let (x, y) = a.as_tuple();
                            if let Some(b) = band_of(x.into_repr().0[5]) {
                                report(k + i as u64, "x", b, &mut seen);
                            }
                            if let Some(b) = band_of(y.into_repr().0[5]) {
                                if b == "top32=q" || b == "top32=0" {
                                    report(k + i as u64, "y", b, &mut seen);
                                }
                            }
                            if let Some(b) = low_band_of(x.into_repr().0[0]) {
                                report(k + i as u64, "x", b, &mut seen);
                            }
                            if let Some(b) = low_band_of(y.into_repr().0[0]) {
                                report(k + i as u64, "y", b, &mut seen);
                            }
                        }
                        k += chunk as u64;
                        done += chunk as u64;
                    }
                } else {
                    let g = crt::G2Affine::one();
                    let mut p = g.mul(crt::FrRepr([start, 0, 0, 0]));
                    let mut k = start;
                    let mut done = 0u64;
                    while done < trials {
                        let mut v = Vec::with_capacity(chunk);
                        for _ in 0..chunk {
                            v.push(p);
                            p.add_assign_mixed(&g);
                        }
                        crt::G2::batch_normalization(&mut v);
                        for (i, q) in v.iter().enumerate() {
                            let a = q.into_affine();
                            let (x, y) = a.as_tuple();
                            for (name, c) in [("x.c0", &x.c0), ("x.c1", &x.c1)] {
                                if let Some(b) = band_of(c.into_repr().0[5]) {
                                    report(k + i as u64, name, b, &mut seen);
                                }
                            }
                            for (name, c) in [("x.c0", &x.c0), ("x.c1", &x.c1), ("y.c0", &y.c0), ("y.c1", &y.c1)] {
                                if let Some(b) = low_band_of(c.into_repr().0[0]) {
                                    report(k + i as u64, name, b, &mut seen);
                                }
                            }
                            for (name, c) in [("y.c0", &y.c0), ("y.c1", &y.c1)] {
                                if let Some(b) = band_of(c.into_repr().0[5]) {
                                    if b == "top32=q" || b == "top32=0" {
                                        report(k + i as u64, name, b, &mut seen);
                                    }
                                }
                            }
                        }
                        k += chunk as u64;
                        done += chunk as u64;
                    }
                }
            });
        }
    });
}
