//! Conversions between reference-model values and values of the crate under test. Crate values
//! are always read through public accessors (`into_repr`, `as_tuple`, `is_zero`, pub fields) and
//! interpreted by the model - never through the crate's own `==` or `into_affine`.

use ff_zeroize::{Field, PrimeField};
use num_traits::Zero;
use pairing_plus::bls12_381 as cr;
use pairing_plus::{CurveAffine, CurveProjective};
use refmodel::curve::Pt;
use refmodel::fld::{Fld, Fq, Fq12, Fq2, Z};

pub fn z_to_limbs(v: &Z, n: usize) -> Vec<u64> {
    let mut out = vec![0u64; n];
    let digits = v.to_u32_digits();
    for (i, d) in digits.iter().enumerate() {
        let li = i / 2;
        if li >= n {
            panic!("z_to_limbs: value does not fit");
        }
        out[li] |= (*d as u64) << (32 * (i % 2));
    }
    out
}

pub fn limbs_to_z(l: &[u64]) -> Z {
    let mut v = Z::zero();
    for x in l.iter().rev() {
        v = (v << 64) + Z::from(*x);
    }
    v
}

pub fn fqrepr(v: &Z) -> cr::FqRepr {
    let l = z_to_limbs(v, 6);
    cr::FqRepr([l[0], l[1], l[2], l[3], l[4], l[5]])
}

pub fn frrepr(v: &Z) -> cr::FrRepr {
    let l = z_to_limbs(v, 4);
    cr::FrRepr([l[0], l[1], l[2], l[3]])
}

/// model Fq -> crate Fq (value must be reduced, which model values are)
pub fn fq_c(a: &Fq) -> cr::Fq {
    cr::Fq::from_repr(fqrepr(&a.0)).expect("reduced value must convert")
}

thread_local! {
    /// set when a value read from the crate has the right integer value but is not THE element of that
    /// value for the crate's own equality (e.g. an internally unreduced residue): see `take_noncanonical`
    static NONCANONICAL: std::cell::RefCell<Option<String>> = std::cell::RefCell::new(None);
}

/// engine hook: description of the first inconsistent value seen on this thread since the last call
pub fn take_noncanonical() -> Option<String> {
    NONCANONICAL.with(|c| c.borrow_mut().take())
}

pub fn fq_m(a: &cr::Fq) -> Fq {
    let v = Fq(limbs_to_z(a.into_repr().as_ref()));
    // every value read from the crate must be the canonical element of its integer value as far as the
    // crate's own == and is_zero() are concerned
    if let Ok(canon) = cr::Fq::from_repr(fqrepr(&v.0)) {
        if *a != canon || a.is_zero() != v.0.is_zero() {
            NONCANONICAL.with(|c| {
                let mut c = c.borrow_mut();
                if c.is_none() {
                    *c = Some(format!("an Fq value handed out by the crate has the integer value 0x{:x} but does not compare equal to that element under the crate's own == / is_zero() (non-canonical internal representation)", v.0));
                }
            });
        }
    }
    v
}

pub fn fr_c(a: &Z) -> cr::Fr {
    cr::Fr::from_repr(frrepr(a)).expect("reduced value must convert")
}

pub fn fr_m(a: &cr::Fr) -> Z {
    let v = limbs_to_z(a.into_repr().as_ref());
    if let Ok(canon) = cr::Fr::from_repr(frrepr(&v)) {
        if *a != canon || a.is_zero() != v.is_zero() {
            NONCANONICAL.with(|c| {
                let mut c = c.borrow_mut();
                if c.is_none() {
                    *c = Some(format!("an Fr value handed out by the crate has the integer value 0x{:x} but does not compare equal to that element under the crate's own == / is_zero() (non-canonical internal representation)", v));
                }
            });
        }
    }
    v
}

pub fn fq2_c(a: &Fq2) -> cr::Fq2 {
    cr::Fq2 { c0: fq_c(&a.c0), c1: fq_c(&a.c1) }
}

pub fn fq2_m(a: &cr::Fq2) -> Fq2 {
    Fq2::new(fq_m(&a.c0), fq_m(&a.c1))
}

pub type Tower6 = [Fq2; 3];
pub type Tower12 = [[Fq2; 3]; 2];

pub fn fq6_c(t: &Tower6) -> cr::Fq6 {
    cr::Fq6 { c0: fq2_c(&t[0]), c1: fq2_c(&t[1]), c2: fq2_c(&t[2]) }
}

pub fn fq6_m(a: &cr::Fq6) -> Tower6 {
    [fq2_m(&a.c0), fq2_m(&a.c1), fq2_m(&a.c2)]
}

pub fn fq12_c_tower(t: &Tower12) -> cr::Fq12 {
    cr::Fq12 { c0: fq6_c(&t[0]), c1: fq6_c(&t[1]) }
}

pub fn fq12_c(a: &Fq12) -> cr::Fq12 {
    fq12_c_tower(&a.to_tower())
}

pub fn fq12_m(a: &cr::Fq12) -> Fq12 {
    Fq12::from_tower(&[fq6_m(&a.c0), fq6_m(&a.c1)])
}

/// Fq6 element embedded in the flat Fq12 (coefficient of w^0)
pub fn fq6_flat(t: &Tower6) -> Fq12 {
    Fq12::from_tower(&[t.clone(), [Fq2::zero(), Fq2::zero(), Fq2::zero()]])
}

/// flat element known to lie in Fq6 -> tower; None if it has a w-odd part
pub fn flat_to_fq6(a: &Fq12) -> Option<Tower6> {
    let t = a.to_tower();
    if t[1].iter().all(|c| c.is_zero()) {
        Some(t[0].clone())
    } else {
        None
    }
}

pub fn fq2_flat(a: &Fq2) -> Fq12 {
    Fq12::from_fq2_times_wk(a, 0)
}

// ---- points ----------------------------------------------------------------------------------

/// group-generic access to the crate's two curve groups
pub trait Grp: Sized + Send + Sync + 'static {
    type F: refmodel::enc::EncFld;
    type CF: Field;
    type Aff: CurveAffine<Projective = Self::Proj, Base = Self::CF, Scalar = cr::Fr> + pairing_plus::SubgroupCheck;
    type Proj: CurveProjective<Affine = Self::Aff, Base = Self::CF, Scalar = cr::Fr>;
    const NAME: &'static str;
    fn f_c(a: &Self::F) -> Self::CF;
    fn f_m(a: &Self::CF) -> Self::F;
    fn aff_raw(x: Self::CF, y: Self::CF, inf: bool) -> Self::Aff;
    fn proj_raw(x: Self::CF, y: Self::CF, z: Self::CF) -> Self::Proj;
    fn curve() -> refmodel::curve::Curve<Self::F>;
    fn gen() -> Pt<Self::F>;
    /// full group order n = h * r
    fn order() -> Z;
    fn small_primes() -> Vec<(u64, u32)>;
    /// full-curve points with structured coordinates (G2 only)
    fn special_points() -> Vec<(String, Pt<Self::F>)> {
        vec![]
    }
    /// crate decoding of a byte string of the right length (Err(String): panic or wrong size())
    fn decode_bytes(compressed: bool, bytes: &[u8], checked: bool) -> Result<Result<Self::Aff, pairing_plus::GroupDecodingError>, String>;
    /// crate encoding through CurveAffine::into_compressed / into_uncompressed
    fn encode_aff(a: &Self::Aff, compressed: bool) -> Result<Vec<u8>, String>;
    /// encode and decode again WITHOUT leaving the crate's EncodedPoint value (no copy through bytes):
    /// `a.into_compressed().into_affine()` as a user writes it; via_from_affine uses EncodedPoint::from_affine
    fn roundtrip_value(a: &Self::Aff, compressed: bool, checked: bool, via_from_affine: bool) -> Result<(Vec<u8>, Result<Self::Aff, pairing_plus::GroupDecodingError>), String>;
}

macro_rules! codec_impl {
    ($comp:ty, $uncomp:ty) => {
        fn decode_bytes(compressed: bool, bytes: &[u8], checked: bool) -> Result<Result<Self::Aff, pairing_plus::GroupDecodingError>, String> {
            use pairing_plus::EncodedPoint;
            macro_rules! go {
                ($t:ty) => {{
                    let mut e = <$t>::empty();
                    if e.as_ref().len() != bytes.len() || <$t>::size() != bytes.len() {
                        return Err(format!("size()/empty() give {} / {} bytes but the format has {}", <$t>::size(), e.as_ref().len(), bytes.len()));
                    }
                    e.as_mut().copy_from_slice(bytes);
                    crate::engine::cr(if checked { "into_affine" } else { "into_affine_unchecked" }, || if checked { e.into_affine() } else { e.into_affine_unchecked() })
                }};
            }
            if compressed {
                go!($comp)
            } else {
                go!($uncomp)
            }
        }
        fn roundtrip_value(a: &Self::Aff, compressed: bool, checked: bool, via_from_affine: bool) -> Result<(Vec<u8>, Result<Self::Aff, pairing_plus::GroupDecodingError>), String> {
            use pairing_plus::EncodedPoint;
            macro_rules! go {
                ($t:ty, $into:ident) => {{
                    crate::engine::cr("encode then decode the same EncodedPoint value", || {
                        let e: $t = if via_from_affine { <$t>::from_affine(*a) } else { a.$into() };
                        let bytes = e.as_ref().to_vec();
                        (bytes, if checked { e.into_affine() } else { e.into_affine_unchecked() })
                    })
                }};
            }
            if compressed {
                go!($comp, into_compressed)
            } else {
                go!($uncomp, into_uncompressed)
            }
        }
        fn encode_aff(a: &Self::Aff, compressed: bool) -> Result<Vec<u8>, String> {
            if compressed {
                crate::engine::cr("into_compressed", || a.into_compressed().as_ref().to_vec())
            } else {
                crate::engine::cr("into_uncompressed", || a.into_uncompressed().as_ref().to_vec())
            }
        }
    };
}

pub struct G1m;
pub struct G2m;

/// The group operations written against the CONCRETE crate types with method-call syntax - exactly
/// what a user of the crate writes. (Generic code would dispatch to the trait methods and would not
/// see an inherent method that shadows one of them.)
pub trait Ops: Grp {
    fn op_add(a: &mut Self::Proj, b: &Self::Proj);
    fn op_sub(a: &mut Self::Proj, b: &Self::Proj);
    fn op_add_mixed(a: &mut Self::Proj, b: &Self::Aff);
    fn op_sub_mixed(a: &mut Self::Proj, b: &Self::Aff);
    fn op_double(a: &mut Self::Proj);
    fn op_neg(a: &mut Self::Proj);
    fn op_neg_aff(a: &mut Self::Aff);
    fn op_to_affine(a: &Self::Proj) -> Self::Aff;
    fn op_to_proj(a: &Self::Aff) -> Self::Proj;
    fn op_is_zero(a: &Self::Proj) -> bool;
    fn op_aff_is_zero(a: &Self::Aff) -> bool;
    fn op_is_normalized(a: &Self::Proj) -> bool;
    fn op_batch(v: &mut [Self::Proj]);
    fn op_eq(a: &Self::Proj, b: &Self::Proj) -> bool;
    fn op_ne(a: &Self::Proj, b: &Self::Proj) -> bool;
    fn op_aff_eq(a: &Self::Aff, b: &Self::Aff) -> bool;
    fn op_mul_assign(a: &mut Self::Proj, k: cr::FrRepr);
    fn op_aff_mul(a: &Self::Aff, k: cr::FrRepr) -> Self::Proj;
    fn op_precomp_3(a: &Self::Aff, pre: &mut [Self::Aff]);
    fn op_mul_precomp_3(a: &Self::Aff, k: cr::FrRepr, pre: &[Self::Aff]) -> Self::Proj;
    fn op_precomp_256(a: &Self::Aff, pre: &mut [Self::Aff]);
    fn op_mul_precomp_256(a: &Self::Aff, k: cr::FrRepr, pre: &[Self::Aff]) -> Self::Proj;
    fn op_sum_of_products(b: &[Self::Aff], s: &[&[u64; 4]]) -> Self::Proj;
    fn op_sum_of_products_pippinger(b: &[Self::Aff], s: &[&[u64; 4]], w: usize) -> Self::Proj;
    fn op_sum_of_products_precomp_256(b: &[Self::Aff], s: &[&[u64; 4]], pre: &[Self::Aff]) -> Self::Proj;
    fn op_find_pippinger_window(n: usize) -> usize;
    fn op_in_subgroup(a: &Self::Aff) -> bool;
    fn op_zero() -> Self::Proj;
    fn op_one() -> Self::Proj;
    fn op_aff_zero() -> Self::Aff;
    fn op_aff_one() -> Self::Aff;
}

macro_rules! ops_impl {
    ($g:ty, $P:ty, $A:ty) => {
        impl Ops for $g {
            fn op_add(a: &mut $P, b: &$P) {
                a.add_assign(b)
            }
            fn op_sub(a: &mut $P, b: &$P) {
                a.sub_assign(b)
            }
            fn op_add_mixed(a: &mut $P, b: &$A) {
                a.add_assign_mixed(b)
            }
            fn op_sub_mixed(a: &mut $P, b: &$A) {
                a.sub_assign_mixed(b)
            }
            fn op_double(a: &mut $P) {
                a.double()
            }
            fn op_neg(a: &mut $P) {
                a.negate()
            }
            fn op_neg_aff(a: &mut $A) {
                a.negate()
            }
            fn op_to_affine(a: &$P) -> $A {
                a.into_affine()
            }
            fn op_to_proj(a: &$A) -> $P {
                a.into_projective()
            }
            fn op_is_zero(a: &$P) -> bool {
                a.is_zero()
            }
            fn op_aff_is_zero(a: &$A) -> bool {
                a.is_zero()
            }
            fn op_is_normalized(a: &$P) -> bool {
                a.is_normalized()
            }
            fn op_batch(v: &mut [$P]) {
                <$P>::batch_normalization(v)
            }
            fn op_eq(a: &$P, b: &$P) -> bool {
                a == b
            }
            fn op_ne(a: &$P, b: &$P) -> bool {
                a != b
            }
            fn op_aff_eq(a: &$A, b: &$A) -> bool {
                a == b
            }
            fn op_mul_assign(a: &mut $P, k: cr::FrRepr) {
                a.mul_assign(k)
            }
            fn op_aff_mul(a: &$A, k: cr::FrRepr) -> $P {
                a.mul(k)
            }
            fn op_precomp_3(a: &$A, pre: &mut [$A]) {
                a.precomp_3(pre)
            }
            fn op_mul_precomp_3(a: &$A, k: cr::FrRepr, pre: &[$A]) -> $P {
                a.mul_precomp_3(k, pre)
            }
            fn op_precomp_256(a: &$A, pre: &mut [$A]) {
                a.precomp_256(pre)
            }
            fn op_mul_precomp_256(a: &$A, k: cr::FrRepr, pre: &[$A]) -> $P {
                a.mul_precomp_256(k, pre)
            }
            fn op_sum_of_products(b: &[$A], s: &[&[u64; 4]]) -> $P {
                <$A>::sum_of_products(b, s)
            }
            fn op_sum_of_products_pippinger(b: &[$A], s: &[&[u64; 4]], w: usize) -> $P {
                <$A>::sum_of_products_pippinger(b, s, w)
            }
            fn op_sum_of_products_precomp_256(b: &[$A], s: &[&[u64; 4]], pre: &[$A]) -> $P {
                <$A>::sum_of_products_precomp_256(b, s, pre)
            }
            fn op_find_pippinger_window(n: usize) -> usize {
                <$A>::find_pippinger_window(n)
            }
            fn op_in_subgroup(a: &$A) -> bool {
                use pairing_plus::SubgroupCheck;
                a.in_subgroup()
            }
            fn op_zero() -> $P {
                <$P>::zero()
            }
            fn op_one() -> $P {
                <$P>::one()
            }
            fn op_aff_zero() -> $A {
                <$A>::zero()
            }
            fn op_aff_one() -> $A {
                <$A>::one()
            }
        }
    };
}

ops_impl!(G1m, cr::G1, cr::G1Affine);
ops_impl!(G2m, cr::G2, cr::G2Affine);

impl Grp for G1m {
    type F = Fq;
    type CF = cr::Fq;
    type Aff = cr::G1Affine;
    type Proj = cr::G1;
    const NAME: &'static str = "G1";
    fn f_c(a: &Fq) -> cr::Fq {
        fq_c(a)
    }
    fn f_m(a: &cr::Fq) -> Fq {
        fq_m(a)
    }
    fn aff_raw(x: cr::Fq, y: cr::Fq, inf: bool) -> cr::G1Affine {
        unsafe { cr::transmute::g1_affine(x, y, inf) }
    }
    fn proj_raw(x: cr::Fq, y: cr::Fq, z: cr::Fq) -> cr::G1 {
        unsafe { cr::transmute::g1_projective(x, y, z) }
    }
    fn curve() -> refmodel::curve::Curve<Fq> {
        refmodel::curve::e1()
    }
    fn gen() -> Pt<Fq> {
        refmodel::curve::g1_gen()
    }
    fn order() -> Z {
        refmodel::curve::n1()
    }
    fn small_primes() -> Vec<(u64, u32)> {
        refmodel::curve::H1_PRIMES.to_vec()
    }
    codec_impl!(cr::G1Compressed, cr::G1Uncompressed);
}

impl Grp for G2m {
    type F = Fq2;
    type CF = cr::Fq2;
    type Aff = cr::G2Affine;
    type Proj = cr::G2;
    const NAME: &'static str = "G2";
    fn f_c(a: &Fq2) -> cr::Fq2 {
        fq2_c(a)
    }
    fn f_m(a: &cr::Fq2) -> Fq2 {
        fq2_m(a)
    }
    fn aff_raw(x: cr::Fq2, y: cr::Fq2, inf: bool) -> cr::G2Affine {
        unsafe { cr::transmute::g2_affine(x, y, inf) }
    }
    fn proj_raw(x: cr::Fq2, y: cr::Fq2, z: cr::Fq2) -> cr::G2 {
        unsafe { cr::transmute::g2_projective(x, y, z) }
    }
    fn curve() -> refmodel::curve::Curve<Fq2> {
        refmodel::curve::e2()
    }
    fn gen() -> Pt<Fq2> {
        refmodel::curve::g2_gen()
    }
    fn order() -> Z {
        refmodel::curve::n2()
    }
    fn small_primes() -> Vec<(u64, u32)> {
        refmodel::curve::H2_SMALL_PRIMES.to_vec()
    }
    codec_impl!(cr::G2Compressed, cr::G2Uncompressed);
    fn special_points() -> Vec<(String, Pt<Fq2>)> {
        crate::recipes::g2_special_points()
    }
}

/// model point -> crate affine (canonical identity for Inf)
pub fn aff_c<G: Grp>(p: &Pt<G::F>) -> G::Aff {
    match p {
        Pt::Inf => G::Aff::zero(),
        Pt::Aff(x, y) => G::aff_raw(G::f_c(x), G::f_c(y), false),
    }
}

/// model point -> crate projective with Z = 1 (canonical identity for Inf)
pub fn proj_c<G: Grp>(p: &Pt<G::F>) -> G::Proj {
    match p {
        Pt::Inf => G::Proj::zero(),
        Pt::Aff(x, y) => G::proj_raw(G::f_c(x), G::f_c(y), G::CF::one()),
    }
}

/// model point -> the Jacobian representative (l^2 x, l^3 y, l)
pub fn proj_c_scaled<G: Grp>(p: &Pt<G::F>, l: &G::F) -> G::Proj {
    match p {
        Pt::Inf => G::Proj::zero(),
        Pt::Aff(x, y) => {
            let l2 = l.sqr();
            let l3 = l2.mul(l);
            G::proj_raw(G::f_c(&x.mul(&l2)), G::f_c(&y.mul(&l3)), G::f_c(l))
        }
    }
}

/// crate affine -> model point, through `as_tuple` / `is_zero`
pub fn aff_m<G: Grp>(p: &G::Aff) -> Pt<G::F> {
    if p.is_zero() {
        Pt::Inf
    } else {
        let (x, y) = p.as_tuple();
        Pt::Aff(G::f_m(x), G::f_m(y))
    }
}

/// crate projective -> model point: (X/Z^2, Y/Z^3) computed by the model; Z = 0 is the identity
pub fn proj_m<G: Grp>(p: &G::Proj) -> Pt<G::F> {
    let (x, y, zc) = p.as_tuple();
    let zm = G::f_m(zc);
    match zm.inv() {
        None => Pt::Inf,
        Some(zi) => {
            let zi2 = zi.sqr();
            let zi3 = zi2.mul(&zi);
            Pt::Aff(G::f_m(x).mul(&zi2), G::f_m(y).mul(&zi3))
        }
    }
}

pub fn proj_z_is_one<G: Grp>(p: &G::Proj) -> bool {
    let (_, _, zc) = p.as_tuple();
    G::f_m(zc) == <G::F as Fld>::one()
}

pub fn pt_brief<F: Fld + std::fmt::Debug>(p: &Pt<F>) -> String {
    match p {
        Pt::Inf => "O".to_string(),
        Pt::Aff(x, y) => {
            let s = format!("({:?},{:?})", x, y);
            s
        }
    }
}

/// A table buffer as a caller may legitimately hand it to the precomputation routines: already used,
/// i.e. filled with stale non-identity points (the routines must overwrite every entry they rely on).
pub fn scratch_table<G: Grp>(n: usize) -> Vec<G::Aff> {
    let g = aff_c::<G>(&G::gen());
    let mut h = g;
    h.negate();
    (0..n).map(|i| if i % 2 == 0 { g } else { h }).collect()
}

/// 256-bit scalar -> [u64; 4]
pub fn scalar_limbs(k: &Z) -> [u64; 4] {
    let l = z_to_limbs(k, 4);
    [l[0], l[1], l[2], l[3]]
}
