//! Library part of the verification harness: engine, adapters, generators, the per-property
//! checks and the byte-level entry points shared by the libFuzzer targets and the corpus replay.

pub mod adapt;
pub mod engine;
pub mod fuzz_entry;
pub mod props;
pub mod recipes;
