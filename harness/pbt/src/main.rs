//! verif-pbt: property-based checks of algorand/pairing-plus against an independent reference model.
//!
//!   verif-pbt run <Cxx> [quick|thorough]     exit 0 held / 1 VIOLATION / 2 INCONCLUSIVE
//!   verif-pbt replay <file>                  strict re-execution of one saved case
//!   verif-pbt selftest                       oracle self-tests only
//!   verif-pbt list

use verif_pbt::engine::{self, Ctx, Tier};
use verif_pbt::{fuzz_entry, props};
use serde_json::{json, Value};
use std::path::{Path, PathBuf};

fn root() -> PathBuf {
    PathBuf::from(std::env::var("VERIF_ROOT").unwrap_or_else(|_| "/verif".to_string()))
}

fn env_u64(name: &str, default: u64) -> u64 {
    std::env::var(name).ok().and_then(|s| s.trim().parse::<i128>().ok()).map(|v| v as u64).unwrap_or(default)
}

fn read_known(property: &str) -> (Vec<(String, String, String)>, Vec<String>) {
    // returns (open findings as (property, sig, text), fixed lines)
    let mut open = vec![];
    let mut fixed = vec![];
    if let Ok(s) = std::fs::read_to_string(root().join("known_findings.txt")) {
        for line in s.lines() {
            let l = line.trim();
            if l.starts_with('#') || l.is_empty() {
                continue;
            }
            if let Some(rest) = l.strip_prefix("open:") {
                let rest = rest.trim();
                let mut prop = String::new();
                let mut sig = String::new();
                let mut text = vec![];
                for tok in rest.split_whitespace() {
                    if let Some(p) = tok.strip_prefix("property=") {
                        prop = p.to_string();
                    } else if let Some(s) = tok.strip_prefix("sig=") {
                        sig = s.to_string();
                    } else {
                        text.push(tok);
                    }
                }
                if prop == property {
                    open.push((prop, sig, text.join(" ")));
                }
            } else if l.starts_with("fixed:") && l.contains(&format!("property={}", property)) {
                fixed.push(l.to_string());
            }
        }
    }
    (open, fixed)
}

fn start_watchdog(property: String, secs: u64, seed: u64) {
    std::thread::spawn(move || {
        std::thread::sleep(std::time::Duration::from_secs(secs));
        // a violating case that was found before the time ran out (its shrinking did not finish, e.g. because the
        // crate under test hangs on some of the shrunk candidates) is reported as what it is
        if let Some(f) = engine::pending_failure() {
            let path = write_replay(&property, &f, seed);
            println!("{}: {}", f.sub, f.message);
            println!("(reported by the watchdog after {} s: the violating case had been found, its minimisation did not finish; the replay file holds the unshrunk case)", secs);
            println!("VIOLATION property={} replay={}", property, path.display());
            std::process::exit(1);
        }
        println!("INCONCLUSIVE property={} watchdog after {} s (hang or overload; not a violation)", property, secs);
        std::process::exit(2);
    });
}

fn write_replay(property: &str, f: &engine::Failure, seed: u64) -> PathBuf {
    let dir = root().join("replays");
    let _ = std::fs::create_dir_all(&dir);
    let path = dir.join(format!("{}-{}-seed{}-shard{}.json", property, f.sub, seed, f.shard));
    let v = json!({
        "property": property,
        "sub": f.sub,
        "message": f.message,
        "seed": seed,
        "shard": f.shard,
        "case": f.case,
    });
    let _ = std::fs::write(&path, serde_json::to_string_pretty(&v).unwrap());
    path
}

fn replay_file(path: &Path, quiet: bool) -> Result<(String, Result<(), String>), String> {
    let s = std::fs::read_to_string(path).map_err(|e| format!("cannot read {}: {}", path.display(), e))?;
    let v: Value = serde_json::from_str(&s).map_err(|e| format!("bad json in {}: {}", path.display(), e))?;
    let property = v["property"].as_str().ok_or("no property field")?.to_string();
    let sub = v["sub"].as_str().ok_or("no sub field")?.to_string();
    let def = props::get(&property).ok_or(format!("unknown property {}", property))?;
    let s = def.subs.iter().find(|s| s.name() == sub).ok_or(format!("unknown sub-check {}/{}", property, sub))?;
    let r = s.replay(&v["case"]);
    if !quiet {
        match &r {
            Ok(()) => println!("replay {}: property {} sub {} holds on this case", path.display(), property, sub),
            Err(m) => println!("replay {}: property {} sub {} FAILS: {}", path.display(), property, sub, m),
        }
    }
    Ok((property, r))
}

fn run(property: &str, tier: Tier) -> i32 {
    let t0 = std::time::Instant::now();
    let seed = env_u64("VERIF_SEED", 0);
    let scale: f64 = std::env::var("VERIF_SCALE").ok().and_then(|s| s.parse().ok()).unwrap_or(1.0);
    let threads = env_u64("VERIF_THREADS", std::thread::available_parallelism().map(|n| n.get() as u64).unwrap_or(8)) as usize;
    let profile = if cfg!(debug_assertions) { "release+debug-assertions+overflow-checks" } else { "release" };
    let def = match props::get(property) {
        Some(d) => d,
        None => {
            println!("INCONCLUSIVE unknown property {}", property);
            return 2;
        }
    };
    let wd = env_u64("VERIF_WATCHDOG_S", if tier == Tier::Quick { 1800 } else { 6 * 3600 });
    start_watchdog(property.to_string(), wd, seed);
    let (open, _fixed) = read_known(property);
    for (p, _sig, text) in &open {
        println!("KNOWN-FINDING: property={} {}", p, text);
    }
    let ctx = Ctx { property: property.to_string(), tier, seed, scale, threads, profile: profile.to_string(), known: open.clone() };

    // 1. oracle self-test
    let selftest = match refmodel::selftest(def.needs_pairing) {
        Ok(v) => v,
        Err(e) => {
            println!("INCONCLUSIVE property={} oracle self-test failed: {}", property, e);
            return 2;
        }
    };

    // 2. regressions
    let mut regressions_replayed = 0;
    let mut first_failure: Option<(String, PathBuf)> = None;
    let regdir = root().join("regressions").join(property);
    if let Ok(rd) = std::fs::read_dir(&regdir) {
        let mut files: Vec<PathBuf> = rd.filter_map(|e| e.ok()).map(|e| e.path()).filter(|p| p.extension().map(|x| x == "json").unwrap_or(false)).collect();
        files.sort();
        for f in files {
            match replay_file(&f, true) {
                Ok((_, Ok(()))) => regressions_replayed += 1,
                Ok((_, Err(m))) => {
                    regressions_replayed += 1;
                    if first_failure.is_none() {
                        first_failure = Some((format!("regression {}: {}", f.display(), m), f.clone()));
                    }
                }
                Err(e) => {
                    println!("INCONCLUSIVE property={} cannot replay regression: {}", property, e);
                    return 2;
                }
            }
        }
    }

    // 3. sub-checks
    let mut results = vec![];
    let mut harness_error: Option<String> = None;
    if first_failure.is_none() {
        for s in def.subs.iter() {
            let r = s.run(&ctx);
            let stop = r.failure.is_some() || r.harness_error.is_some();
            if let Some(he) = &r.harness_error {
                harness_error = Some(format!("{}: {}", r.name, he));
            }
            if harness_error.is_none() {
                if let Some(f) = &r.failure {
                    let p = write_replay(property, f, seed);
                    first_failure = Some((format!("{}: {}", f.sub, f.message), p));
                }
            }
            eprintln!(
                "[{}] {:<28} evals={:<8} nontrivial={:<8} distinct={:<8} {:.1}s{}",
                property,
                r.name,
                r.stats.evaluations,
                r.stats.nontrivial_evals,
                r.stats.nontrivial.len(),
                r.wall_s,
                if stop { "  <-- stopped" } else { "" }
            );
            results.push(r);
            if stop {
                break;
            }
        }
    }

    // 4. evidence
    let mut evaluations = 0u64;
    let mut distinct = 0u64;
    let mut samples: Vec<Value> = vec![];
    let mut subchecks = vec![];
    let mut rules = vec![];
    let mut known_excluded = 0u64;
    for r in &results {
        evaluations += r.stats.evaluations;
        distinct += r.stats.nontrivial.len() as u64;
        known_excluded += r.stats.known_excluded;
        for (class, v) in r.stats.samples.iter().take(4) {
            samples.push(json!({"sub": r.name, "class": class, "case": v}));
        }
        rules.push(format!("[{}] {}", r.name, r.rule));
        subchecks.push(json!({
            "name": r.name,
            "evaluations": r.stats.evaluations,
            "nontrivial_evaluations": r.stats.nontrivial_evals,
            "distinct_nontrivial": r.stats.nontrivial.len(),
            "classes": r.stats.classes,
            "exhaustive": r.exhaustive,
            "wall_s": r.wall_s,
            "failed": r.failure.as_ref().map(|f| f.message.clone()),
        }));
    }
    let violations = if first_failure.is_some() && harness_error.is_none() { 1 } else { 0 };
    let ev = json!({
        "property_id": property,
        "tier": tier.name(),
        "seed": seed,
        "level": "exploration",
        "coverage": {
            "evaluations": evaluations,
            "distinct_nontrivial": distinct,
            "rule": format!("{} || per sub-check: {}", def.rule, rules.join(" ;; ")),
            "samples": samples,
            "exhaustive": false,
            "subchecks": subchecks,
            "oracle_selftest": selftest,
            "regressions_replayed": regressions_replayed,
            "known_findings_excluded": known_excluded,
            "profile": profile,
            "threads": threads,
            "scale": scale,
        },
        "assumptions": def.assumptions,
        "wall_s": t0.elapsed().as_secs_f64(),
        "violations": violations,
    });
    let evdir = root().join("evidence");
    let _ = std::fs::create_dir_all(&evdir);
    let suffix = std::env::var("VERIF_EVIDENCE_SUFFIX").unwrap_or_default();
    let evpath = evdir.join(format!("{}{}.json", property, suffix));
    if let Err(e) = std::fs::write(&evpath, serde_json::to_string_pretty(&ev).unwrap()) {
        println!("INCONCLUSIVE property={} cannot write evidence: {}", property, e);
        return 2;
    }

    if let Some(he) = harness_error {
        println!("INCONCLUSIVE property={} harness error: {}", property, he);
        return 2;
    }
    if let Some((msg, path)) = first_failure {
        println!("{}", msg);
        println!("VIOLATION property={} replay={}", property, path.display());
        return 1;
    }
    println!(
        "OK property={} tier={} seed={} evaluations={} distinct_nontrivial={} wall={:.1}s",
        property,
        tier.name(),
        seed,
        evaluations,
        distinct,
        t0.elapsed().as_secs_f64()
    );
    0
}

/// writes the committed seed corpus of the libFuzzer targets (a pure function of the model)
fn gen_corpus() {
    use verif_pbt::adapt::{G1m, G2m};
    use verif_pbt::props::c04::{build_bytes, BaseR, CoordVal, DecCase, Edit};
    use verif_pbt::recipes::PointR;
    let write = |target: &str, name: &str, data: &[u8]| {
        let dir = props::corpus_dir(target);
        let _ = std::fs::create_dir_all(&dir);
        let _ = std::fs::write(dir.join(name), data);
    };
    // decode
    let bases: Vec<(&str, BaseR)> = vec![
        ("gen", BaseR::Point(PointR::Gen)),
        ("identity", BaseR::Point(PointR::Identity)),
        ("sub3", BaseR::Point(PointR::Sub(3))),
        ("walk", BaseR::Walk(2, 12345)),
        ("full", BaseR::Point(PointR::Full(1))),
        ("small0", BaseR::Point(PointR::SmallOrder(0, 0))),
        ("small1", BaseR::Point(PointR::SmallOrder(1, 0))),
        ("small2", BaseR::Point(PointR::SmallOrder(2, 1))),
        ("small3", BaseR::Point(PointR::SmallOrder(3, 0))),
        ("small4", BaseR::Point(PointR::SmallOrder(4, 2))),
        ("mixed", BaseR::Point(PointR::Mixed(1, 0, 4))),
        ("rescaled-gen", BaseR::Rescaled(PointR::Gen, verif_pbt::recipes::FeR::Two)),
        ("rescaled-sub", BaseR::Rescaled(PointR::Sub(5), verif_pbt::recipes::FeR::Small(7))),
    ];
    let edits: Vec<(&str, Vec<Edit>)> = vec![
        ("", vec![]),
        ("-flags5", vec![Edit::Flags(5)]),
        ("-flags7", vec![Edit::Flags(7)]),
        ("-xq", vec![Edit::Coord(0, CoordVal::QPlus(0))]),
        ("-lastq", vec![Edit::Coord(3, CoordVal::QPlus(1))]),
        ("-noroot", vec![Edit::XNoRoot(7)]),
        ("-xother", vec![Edit::XOther(9)]),
        ("-flipsort", vec![Edit::FlipSort]),
    ];
    for fmt in 0u8..4 {
        for (bn, b) in &bases {
            for (en, e) in &edits {
                if !en.is_empty() && !["gen", "identity", "full"].contains(bn) {
                    continue;
                }
                let c = DecCase { fmt, base: b.clone(), edits: e.clone() };
                let bytes = if fmt < 2 { build_bytes::<G1m>(&c) } else { build_bytes::<G2m>(&c) };
                let mut data = vec![fmt];
                data.extend_from_slice(&bytes);
                write("decode", &format!("fmt{}-{}{}", fmt, bn, en), &data);
                // serdes seeds from the same images: point types 2..=5
                let comp = fmt % 2 == 0;
                for (ty, g1) in [(2u8, true), (3, false), (4, true), (5, false)] {
                    if g1 != (fmt < 2) {
                        continue;
                    }
                    let mut s = vec![ty, comp as u8];
                    s.extend_from_slice(&bytes);
                    write("serdes", &format!("ty{}-{}-{}{}", ty, if comp { "c" } else { "u" }, bn, en), &s);
                    if en.is_empty() && *bn == "gen" {
                        let mut t = vec![ty, (comp as u8) | 2];
                        t.extend_from_slice(&bytes[..bytes.len() - 5]);
                        write("serdes", &format!("ty{}-{}-truncated", ty, if comp { "c" } else { "u" }), &t);
                        let mut t = vec![ty, (!comp) as u8];
                        t.extend_from_slice(&bytes);
                        write("serdes", &format!("ty{}-{}-wrongflag", ty, if comp { "c" } else { "u" }), &t);
                    }
                }
            }
        }
    }
    // Fr / Fq12 streams
    let mut w = refmodel::curve::Words(42);
    let mut rnd = |n: usize| -> Vec<u8> {
        let mut v = vec![];
        while v.len() < n {
            v.extend_from_slice(&w.next().to_le_bytes());
        }
        v.truncate(n);
        v
    };
    let mut fr = rnd(32);
    fr[0] &= 0x3f;
    let mut s = vec![0u8, 0];
    s.extend_from_slice(&fr);
    write("serdes", "fr-valid", &s);
    let mut s = vec![0u8, 2];
    s.extend_from_slice(&[0xff; 32]);
    write("serdes", "fr-nonreduced", &s);
    let mut f12 = vec![];
    for _ in 0..12 {
        let mut c = rnd(48);
        c[0] &= 0x0f;
        f12.extend_from_slice(&c);
    }
    let mut s = vec![1u8, 4];
    s.extend_from_slice(&f12);
    write("serdes", "fq12-valid", &s);
    let mut s = vec![1u8, 0];
    let mut bad = f12.clone();
    bad[48 * 7] = 0xff;
    s.extend_from_slice(&bad);
    write("serdes", "fq12-nonreduced-coefficient7", &s);
    // expand
    for (i, (e, len, dst, msg)) in [(0u8, 32u16, &b"QUUX-V01-CS02-with-expander"[..], &b""[..]), (0, 128, b"QUUX-V01-CS02-with-expander", b"abc"), (1, 64, b"dst", b"abcdef0123456789"), (2, 48, b"", b"msg"), (3, 255, b"QUUX", b"q128_qqqqqqqqqqqqqqqqqqqqqqqqqqqq"), (0, 8161, b"d", b"too long for 255 blocks")]
        .iter()
        .enumerate()
    {
        let mut s = vec![*e];
        s.extend_from_slice(&len.to_le_bytes());
        s.push(dst.len() as u8);
        s.extend_from_slice(dst);
        s.extend_from_slice(msg);
        write("expand", &format!("seed{}", i), &s);
    }
    // field
    for sel in 0u8..8 {
        let mut s = vec![sel];
        s.extend_from_slice(&rnd(1200));
        write("field", &format!("sel{}-uniform", sel), &s);
        let mut s = vec![sel];
        s.extend_from_slice(&vec![0xffu8; 1200]);
        write("field", &format!("sel{}-allones", sel), &s);
        write("field", &format!("sel{}-short", sel), &[sel, 1, 0, 1]);
    }
    println!("corpus written under {}", props::corpus_dir("").display());
}

fn main() {
    engine::install_panic_hook();
    let args: Vec<String> = std::env::args().collect();
    let code = match args.get(1).map(|s| s.as_str()) {
        Some("run") => {
            let prop = args.get(2).cloned().unwrap_or_default();
            let tier = match args.get(3).map(|s| s.as_str()).or(std::env::var("VERIF_TIER").ok().as_deref().map(|s| if s == "thorough" { "thorough" } else { "quick" })) {
                Some("thorough") => Tier::Thorough,
                _ => Tier::Quick,
            };
            run(&prop, tier)
        }
        Some("replay") => {
            let path = PathBuf::from(args.get(2).cloned().unwrap_or_default());
            match replay_file(&path, false) {
                Ok((_, Ok(()))) => 0,
                Ok((p, Err(_))) => {
                    println!("VIOLATION property={} replay={}", p, path.display());
                    1
                }
                Err(e) => {
                    println!("INCONCLUSIVE {}", e);
                    2
                }
            }
        }
        Some("selftest") => match refmodel::selftest(true) {
            Ok(v) => {
                for l in v {
                    println!("ok: {}", l);
                }
                0
            }
            Err(e) => {
                println!("INCONCLUSIVE oracle self-test failed: {}", e);
                2
            }
        },
        Some("attach") => {
            // verif-pbt attach <Cxx> <key> <json-file> [add-evaluations]: merge the result of an extra
            // thorough-tier pass (debug-assertion pass, fuzz campaign, TSan pass) into the evidence file
            let prop = args.get(2).cloned().unwrap_or_default();
            let key = args.get(3).cloned().unwrap_or_default();
            let file = args.get(4).cloned().unwrap_or_default();
            let evpath = root().join("evidence").join(format!("{}.json", prop));
            let run = || -> Result<(), String> {
                let mut ev: Value = serde_json::from_str(&std::fs::read_to_string(&evpath).map_err(|e| e.to_string())?).map_err(|e| e.to_string())?;
                let extra: Value = serde_json::from_str(&std::fs::read_to_string(&file).map_err(|e| e.to_string())?).map_err(|e| e.to_string())?;
                let add = extra.get("evaluations").and_then(|v| v.as_u64()).unwrap_or(0);
                let addd = extra.get("distinct_nontrivial").and_then(|v| v.as_u64()).unwrap_or(0);
                let cov = ev.get_mut("coverage").and_then(|c| c.as_object_mut()).ok_or("evidence has no coverage")?;
                let e0 = cov.get("evaluations").and_then(|v| v.as_u64()).unwrap_or(0);
                let d0 = cov.get("distinct_nontrivial").and_then(|v| v.as_u64()).unwrap_or(0);
                cov.insert("evaluations".into(), json!(e0 + add));
                cov.insert("distinct_nontrivial".into(), json!(d0 + addd));
                cov.insert(key.clone(), extra);
                std::fs::write(&evpath, serde_json::to_string_pretty(&ev).unwrap()).map_err(|e| e.to_string())
            };
            match run() {
                Ok(()) => 0,
                Err(e) => {
                    println!("INCONCLUSIVE cannot attach {} to evidence of {}: {}", key, prop, e);
                    2
                }
            }
        }
        Some("fuzz-artifact") => {
            // verif-pbt fuzz-artifact <Cxx> <target> <file>: re-run a libFuzzer artifact through the plain
            // (non-instrumented) binary; on failure write a JSON replay file and print the VIOLATION line
            let prop = args.get(2).cloned().unwrap_or_default();
            let target = args.get(3).cloned().unwrap_or_default();
            let file = args.get(4).cloned().unwrap_or_default();
            let data = std::fs::read(&file).unwrap_or_default();
            match fuzz_entry::run(&target, &data) {
                Ok(()) => {
                    println!("fuzz artifact {} does not reproduce through the plain binary (not counted)", file);
                    0
                }
                Err(msg) => {
                    let hexs: String = data.iter().map(|b| format!("{:02x}", b)).collect();
                    let f = engine::Failure { sub: format!("corpus-{}", target), message: msg.clone(), case: json!({"target": target, "file": file, "hex": hexs}), shard: 0 };
                    let p = write_replay(&prop, &f, env_u64("VERIF_SEED", 0));
                    println!("fuzz:{}: {}", target, msg);
                    println!("VIOLATION property={} replay={}", prop, p.display());
                    1
                }
            }
        }
        Some("child-exec") => {
            // fresh-process executor of C20: request on stdin, raw result bytes on stdout
            let mut req = String::new();
            let _ = std::io::Read::read_to_string(&mut std::io::stdin(), &mut req);
            match props::c20::child_exec(&req) {
                Ok(s) => {
                    println!("{}", s);
                    0
                }
                Err(e) => {
                    println!("{}", e);
                    1
                }
            }
        }
        Some("gen-iso-roots") => {
            // verif-pbt gen-iso-roots: roots over Fq of every truncation (top j coefficients) of the four polynomials of
            // the 11-isogeny, by the model; written to corpus/iso-truncation-roots.json
            let v = verif_pbt::props::c16::gen_iso_roots();
            let path = verif_pbt::props::corpus_dir("").join("iso-truncation-roots.json");
            std::fs::write(&path, serde_json::to_string_pretty(&v).unwrap()).unwrap();
            println!("{} roots written to {}", v.as_array().map(|a| a.len()).unwrap_or(0), path.display());
            0
        }
        Some("find-banded") => {
            // verif-pbt find-banded <g1|g2> <trials-per-thread> [threads]: walk [k]G (crate arithmetic) and print the
            // scalars of SUBGROUP points that have a coordinate in a numerically special band (see recipes::band_of)
            let g2 = args.get(2).map(|s| s == "g2").unwrap_or(false);
            let trials: u64 = args.get(3).and_then(|s| s.parse().ok()).unwrap_or(1 << 20);
            let threads: u64 = args.get(4).and_then(|s| s.parse().ok()).unwrap_or(16);
            verif_pbt::recipes::find_banded(g2, trials, threads);
            0
        }
        Some("gen-corpus") => {
            gen_corpus();
            0
        }
        Some("replay-bytes") => {
            // verif-pbt replay-bytes <target> <file>: run one raw input through the byte-level entry
            let target = args.get(2).cloned().unwrap_or_default();
            let data = std::fs::read(args.get(3).cloned().unwrap_or_default()).unwrap_or_default();
            match fuzz_entry::run(&target, &data) {
                Ok(()) => {
                    println!("replay-bytes {}: holds", target);
                    0
                }
                Err(m) => {
                    println!("replay-bytes {}: FAILS: {}", target, m);
                    1
                }
            }
        }
        Some("list") => {
            for id in props::ids() {
                let d = props::get(id).unwrap();
                println!("{} : {}", id, d.subs.iter().map(|s| s.name().to_string()).collect::<Vec<_>>().join(", "));
            }
            0
        }
        _ => {
            eprintln!("usage: verif-pbt run <Cxx> [quick|thorough] | replay <file> | selftest | list");
            2
        }
    };
    std::process::exit(code);
}
