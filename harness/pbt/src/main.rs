fn main(){}
