//! C18 - square roots, quadratic character, sgn0 and ordering are exact.

use super::c08::{elem, val, PF};
use super::{PropDef, COMMON_ASSUMPTIONS};
use crate::adapt::*;
use crate::engine::{boxed, cr, Info, Sub};
use crate::recipes::*;
use ff_zeroize::{Field, LegendreSymbol, SqrtField};
use num_traits::{One, Zero};
use pairing_plus::bls12_381 as crt;
use pairing_plus::signum::{Sgn0Result, Signum0};
use proptest::prelude::*;
use refmodel::fld::{Fld, Fq, Fq2, SqrtFld, Z};
use serde::{Deserialize, Serialize};

#[derive(Clone, Debug, Serialize, Deserialize, PartialEq, Eq, Hash)]
pub struct PrimeCase {
    pub a: FeR,
    /// use a^2 (a guaranteed residue) instead of a
    pub squared: bool,
    /// multiply by the fixed non-residue (a guaranteed non-residue when combined with `squared`)
    pub times_nonresidue: bool,
    pub b: FeR,
    /// Fr only (2-adicity 32, Tonelli-Shanks): replace a by w^(2^j) * a^(2^32), w a generator of the
    /// 2^32-torsion: an element whose 2-power part has order exactly 2^(32-j) (j = 0: non-residue,
    /// j = 32: trivial 2-part), every depth of the Tonelli-Shanks loop
    #[serde(default)]
    pub two_adic: Option<u8>,
}

fn prime_case_strategy(limbs: usize) -> BoxedStrategy<PrimeCase> {
    let ta = if limbs == 4 { prop_oneof![3 => Just(None), 1 => (0u8..=32).prop_map(Some)].boxed() } else { Just(None).boxed() };
    (fe_strategy(limbs), any::<bool>(), any::<bool>(), fe_strategy(limbs), ta).prop_map(|(a, squared, times_nonresidue, b, two_adic)| PrimeCase { a, squared, times_nonresidue, b, two_adic }).boxed()
}

fn euler(a: &Z, p: &Z) -> i8 {
    if a.is_zero() {
        0
    } else if a.modpow(&((p - Z::one()) >> 1), p).is_one() {
        1
    } else {
        -1
    }
}

fn leg_to_i8(l: LegendreSymbol) -> i8 {
    match l {
        LegendreSymbol::Zero => 0,
        LegendreSymbol::QuadraticResidue => 1,
        LegendreSymbol::QuadraticNonResidue => -1,
    }
}

fn check_prime<F: PF>(c: &PrimeCase, info: &mut Info) -> Result<(), String> {
    let p = F::modulus();
    let mut az = c.a.build(p, F::LIMBS);
    if c.squared {
        az = (&az * &az) % p;
    }
    if c.times_nonresidue {
        // multiplicative generators (2 for Fq? no: smallest non-residue found by the model)
        let mut g = Z::from(2u32);
        while euler(&g, p) != -1 {
            g = g + Z::one();
        }
        az = (&az * &g) % p;
    }
    if let Some(j) = c.two_adic {
        // 2-adic valuation s of p - 1 (32 for Fr, 1 for Fq)
        let pm1 = p - Z::one();
        let mut s = 0usize;
        while ((&pm1 >> s) & Z::one()).is_zero() {
            s += 1;
        }
        let mut g = Z::from(2u32);
        while euler(&g, p) != -1 {
            g = g + Z::one();
        }
        let w = g.modpow(&(&pm1 >> s), p); // generator of the 2^s-torsion
        let j = std::cmp::min(j as usize, s);
        let base = c.a.build(p, F::LIMBS);
        let base = if base.is_zero() { Z::one() } else { base };
        az = (w.modpow(&(Z::one() << j), p) * base.modpow(&(Z::one() << s), p)) % p;
        info.class(format!("two-power-part-of-order-2^{}", s - j));
    }
    let e = euler(&az, p);
    info.class(match e {
        0 => "zero",
        1 => "residue",
        _ => "non-residue",
    });
    info.nt_if(!(az.is_zero() || az.is_one()));
    let a: F = elem(&az)?;
    let l = leg_to_i8(cr("legendre", || a.legendre())?);
    if l != e {
        return Err(format!("{}::legendre(0x{:x}) = {} but Euler's criterion gives {}", F::NAME, az, l, e));
    }
    match cr("sqrt", || a.sqrt())? {
        Some(b) => {
            let bz = val(&b);
            if (&bz * &bz) % p != az {
                return Err(format!("{}::sqrt(0x{:x}) = 0x{:x} whose square is not a", F::NAME, az, bz));
            }
            if e == -1 {
                return Err(format!("{}::sqrt returned a value for the non-residue 0x{:x}", F::NAME, az));
            }
        }
        None => {
            if e != -1 {
                return Err(format!("{}::sqrt(0x{:x}) = None but a is a square", F::NAME, az));
            }
        }
    }
    Ok(())
}

fn check_fq_prime(c: &PrimeCase, info: &mut Info) -> Result<(), String> {
    check_prime::<crt::Fq>(c, info)?;
    // sgn0, ordering and negate_if on Fq
    let p = crt::Fq::modulus();
    let az = c.a.build(p, 6);
    let bz = c.b.build(p, 6);
    let a: crt::Fq = elem(&az)?;
    let b: crt::Fq = elem(&bz)?;
    let parity = |v: &Z| (v & Z::one()) == Z::one();
    let s = cr("sgn0", || a.sgn0())?;
    if (s == Sgn0Result::Negative) != parity(&az) {
        return Err(format!("Fq::sgn0(0x{:x}) = {:?} but the canonical integer is {}", az, s, if parity(&az) { "odd" } else { "even" }));
    }
    if cr("cmp", || a.cmp(&b))? != az.cmp(&bz) {
        return Err(format!("Fq order differs from integer order for 0x{:x}, 0x{:x}", az, bz));
    }
    if !az.is_zero() {
        let mut na = a;
        na.negate();
        let nz = p - &az;
        let gt = cr(">", || a > na)?;
        let lt = cr("<", || a < na)?;
        if gt == lt || gt != (az > nz) {
            return Err(format!("exactly one of y, -y must be the larger: y=0x{:x} (y>-y: {}, y<-y: {})", az, gt, lt));
        }
        if cr("sgn0(-y)", || na.sgn0())? == s {
            return Err(format!("sgn0(-y) == sgn0(y) for y = 0x{:x}", az));
        }
        info.class(if az > nz { "y>-y" } else { "y<-y" });
    }
    // negate_if
    let mut t = a;
    cr("negate_if(Negative)", || t.negate_if(Sgn0Result::Negative))?;
    if val(&t) != (p - &az) % p {
        return Err(format!("negate_if(Negative) did not negate 0x{:x}", az));
    }
    let mut t = a;
    cr("negate_if(NonNegative)", || t.negate_if(Sgn0Result::NonNegative))?;
    if val(&t) != az {
        return Err(format!("negate_if(NonNegative) changed 0x{:x}", az));
    }
    Ok(())
}

fn check_fr_prime(c: &PrimeCase, info: &mut Info) -> Result<(), String> {
    check_prime::<crt::Fr>(c, info)?;
    let p = crt::Fr::modulus();
    let az = c.a.build(p, 4);
    let bz = c.b.build(p, 4);
    let a: crt::Fr = elem(&az)?;
    let b: crt::Fr = elem(&bz)?;
    if cr("cmp", || a.cmp(&b))? != az.cmp(&bz) {
        return Err(format!("Fr order differs from integer order for 0x{:x}, 0x{:x}", az, bz));
    }
    Ok(())
}

// ---- Fq2 ------------------------------------------------------------------------------------

#[derive(Clone, Debug, Serialize, Deserialize, PartialEq, Eq, Hash)]
pub enum Fq2Kind {
    /// the element as generated
    Plain,
    /// its square (guaranteed residue)
    Squared,
    /// its square times the fixed non-residue 1 + u (guaranteed non-residue unless zero)
    SquaredTimesNonResidue,
    /// embedded element of Fq (c1 = 0): root is real or purely imaginary
    Real,
    /// purely imaginary (c0 = 0)
    Imag,
    /// an element constructed so that the intermediate value alpha = a^((q-1)/2) of the square-root algorithm
    /// (an arbitrary element of norm +-1; -1 selects the special branch) is STRUCTURED: alpha = (c, d) or
    /// (d, c) with c = a.c0 from the structured generator and d = sqrt(+-1 - c^2); a = alpha^e * t^2 with
    /// e = ((q-1)/2)^-1 mod 2(q+1) and t = a.c1 in Fq. (pick: bit 0 norm sign, bit 1 position, bit 2 sign of d)
    FromAlpha(u8),
    /// an element with a PRESCRIBED NORM: n = a.c0 from the structured generator (Montgomery-limb patterns, limbs
    /// tying with the modulus ...), c1 = a.c1 (stepped), c0 = sqrt(n - c1^2)
    FromNorm,
}

#[derive(Clone, Debug, Serialize, Deserialize, PartialEq, Eq, Hash)]
pub struct Fq2Case {
    pub a: Fq2R,
    pub kind: Fq2Kind,
    pub b: Fq2R,
}

fn fq2_case_strategy() -> BoxedStrategy<Fq2Case> {
    let kind = prop_oneof![
        4 => Just(Fq2Kind::Plain),
        3 => Just(Fq2Kind::Squared),
        3 => Just(Fq2Kind::SquaredTimesNonResidue),
        3 => Just(Fq2Kind::Real),
        2 => Just(Fq2Kind::Imag),
        3 => (0u8..8).prop_map(Fq2Kind::FromAlpha),
        3 => Just(Fq2Kind::FromNorm),
    ];
    (fq2_strategy(), kind, fq2_strategy()).prop_map(|(a, kind, b)| Fq2Case { a, kind, b }).boxed()
}

/// a with a^((q-1)/2) = alpha0 for a structured alpha0 of norm +-1 (None when the needed root does not exist)
fn from_alpha(base: &Fq2, pick: u8) -> Option<Fq2> {
    let q = refmodel::consts::q();
    let c = base.c0.clone();
    let n = if pick & 1 == 0 { Fq::one() } else { Fq::one().neg() };
    let d = n.sub(&c.sqr()).sqrt()?;
    let d = if pick & 4 != 0 { d.neg() } else { d };
    let alpha0 = if pick & 2 == 0 { Fq2::new(c, d) } else { Fq2::new(d, c) };
    // e = ((q-1)/2)^-1 mod 2(q+1) is (q-1)/2 itself: ((q-1)/2)^2 = 1 mod 2(q+1) for q = 3 mod 4
    // (verified below on the element itself)
    let half = (q - Z::one()) >> 1;
    let a = alpha0.pow(&half);
    if a.pow(&half) != alpha0 {
        return None;
    }
    let t = if base.c1.is_zero() { Fq::one() } else { base.c1.clone() };
    Some(a.mul(&Fq2::new(t.sqr(), Fq::zero())))
}

pub fn check_fq2(c: &Fq2Case, info: &mut Info) -> Result<(), String> {
    let base = c.a.build();
    let am = match c.kind {
        Fq2Kind::Plain => base.clone(),
        Fq2Kind::Squared => base.sqr(),
        Fq2Kind::SquaredTimesNonResidue => base.sqr().mul(&Fq2::new(Fq::one(), Fq::one())),
        Fq2Kind::Real => Fq2::new(base.c0.clone(), Fq::zero()),
        Fq2Kind::Imag => Fq2::new(Fq::zero(), base.c1.clone()),
        Fq2Kind::FromNorm => {
            let n = base.c0.clone();
            let mut c1 = base.c1.clone();
            let mut found = None;
            for _ in 0..16 {
                if let Some(c0) = n.sub(&c1.sqr()).sqrt() {
                    found = Some(Fq2::new(c0, c1.clone()));
                    break;
                }
                c1 = c1.add(&Fq::one());
            }
            match found {
                Some(a) => {
                    info.class("constructed-from-a-prescribed-norm");
                    a
                }
                None => base.clone(),
            }
        }
        Fq2Kind::FromAlpha(pick) => match from_alpha(&base, pick) {
            Some(a) => {
                info.class("constructed-from-structured-alpha");
                a
            }
            None => {
                info.class("constructed-from-structured-alpha:no-such-alpha (plain element used)");
                base.clone()
            }
        },
    };
    let bm = c.b.build();
    let e = am.norm().euler();
    info.class(format!(
        "{}:{}",
        match c.kind {
            Fq2Kind::Real => "in-Fq",
            Fq2Kind::Imag => "imaginary",
            Fq2Kind::FromAlpha(_) => "from-alpha",
            Fq2Kind::FromNorm => "from-norm",
            _ => "general",
        },
        match e {
            0 => "zero",
            1 => "residue",
            _ => "non-residue",
        }
    ));
    if am.c1.is_zero() && !am.is_zero() {
        info.class(if am.c0.euler() == 1 { "in-Fq:real-root" } else { "in-Fq:imaginary-root" });
    }
    info.nt_if(!(am.is_zero() || am == Fq2::one()));
    let a = fq2_c(&am);
    let b = fq2_c(&bm);
    let l = leg_to_i8(cr("legendre", || a.legendre())?);
    if l != e {
        return Err(format!("Fq2::legendre({:?}) = {} but Euler's criterion on the norm gives {}", am, l, e));
    }
    match cr("sqrt", || a.sqrt())? {
        Some(r) => {
            let rm = fq2_m(&r);
            if rm.sqr() != am {
                return Err(format!("Fq2::sqrt({:?}) = {:?} whose square is not a", am, rm));
            }
            if e == -1 {
                return Err(format!("Fq2::sqrt returned a value for the non-square {:?}", am));
            }
        }
        None => {
            if e != -1 {
                return Err(format!("Fq2::sqrt({:?}) = None but a is a square (norm residue)", am));
            }
        }
    }
    // sgn0: parity of the first non-zero coefficient, real part first
    let s = cr("sgn0", || a.sgn0())?;
    if (s == Sgn0Result::Negative) != (am.sgn0() == 1) {
        return Err(format!("Fq2::sgn0({:?}) = {:?}, RFC sgn0 = {}", am, s, am.sgn0()));
    }
    // order: lexicographic, u-coefficient most significant
    if cr("cmp", || a.cmp(&b))? != am.lex_cmp(&bm) {
        return Err(format!("Fq2 order is not lexicographic (c1 first) for {:?}, {:?}", am, bm));
    }
    if c.a.1 == c.b.1 {
        info.class("cmp:equal-c1");
    }
    if !am.is_zero() {
        let mut na = a;
        na.negate();
        let gt = cr(">", || a > na)?;
        let lt = cr("<", || a < na)?;
        if gt == lt || gt != am.lex_larger_than_neg() {
            return Err(format!("exactly one of y, -y must be the larger (lexicographic): y={:?} (y>-y: {}, y<-y: {})", am, gt, lt));
        }
    }
    let mut t = a;
    cr("negate_if", || t.negate_if(Sgn0Result::Negative))?;
    if fq2_m(&t) != am.neg() {
        return Err(format!("Fq2::negate_if(Negative) did not negate {:?}", am));
    }
    Ok(())
}

crate::long_sub!(run_long_history, [0, 1, 2]);

pub fn def() -> PropDef {
    PropDef {
        id: "C18",
        rule: "Fq / Fr elements (boundary + uniform), their squares (guaranteed residues) and squares times the least non-residue (guaranteed non-residues); Fq2 elements: general, squares, squares times (1+u), embedded Fq elements (real / imaginary root), purely imaginary, elements constructed backwards from a structured intermediate alpha = a^((q-1)/2) of the square-root algorithm (norm +-1 with a prescribed component), Fr elements with a prescribed order of the 2-power part (every Tonelli-Shanks depth 0..32); canonical limbs built from two words (repeated / cancelling limbs); comparison partner from the same generator (incl. equal u-coefficients). Oracle: Euler's criterion (of the norm for Fq2), b^2 = a in the model, parity of the canonical integer, integer / lexicographic order. Non-trivial = a not in {0,1}; distinct = distinct cases",
        needs_pairing: false,
        subs: vec![
            Box::new(crate::engine::EnumSub { name: "long-history", rule: super::longhist::RULE, run: run_long_history, replay: super::longhist::replay, exhaustive: false }),
            Box::new(crate::engine::EnumSub { name: "two-input-bursts", rule: super::longhist::BURST_RULE, run: run_two_input_bursts, replay: super::longhist::replay_burst, exhaustive: false }),
            Box::new(Sub { name: "fq", rule: "Fq sqrt / legendre / sgn0 / order / negate_if", quick: 120_000, thorough: 400_000, strategy: || boxed(prime_case_strategy(6)), check: check_fq_prime }),
            Box::new(Sub { name: "fr", rule: "Fr sqrt (Tonelli-Shanks) / legendre / order", quick: 120_000, thorough: 400_000, strategy: || boxed(prime_case_strategy(4)), check: check_fr_prime }),
            Box::new(Sub { name: "fq2", rule: "Fq2 sqrt / legendre (of the norm) / sgn0 / lexicographic order / negate_if", quick: 120_000, thorough: 400_000, strategy: || boxed(fq2_case_strategy()), check: check_fq2 }),
            super::corpus_sub_field(),
        ],
        assumptions: COMMON_ASSUMPTIONS.to_vec(),
    }
}
