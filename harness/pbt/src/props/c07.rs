//! C07 - safe API results stay in the order-r subgroup; the membership test is exact.

use super::c04::{base_point, BaseR};
use super::c13::expander_of;
use super::c14::{u_g1, u_g2, Second, URecipe};
use super::{PropDef, COMMON_ASSUMPTIONS};
use crate::adapt::*;
use crate::engine::{boxed, cr, Info, Sub};
use crate::recipes::*;
use pairing_plus::bls12_381 as crt;
use pairing_plus::map_to_curve::MapToCurve;
use pairing_plus::serdes::SerDes;
use pairing_plus::{CurveAffine, CurveProjective, Wnaf};
use proptest::prelude::*;
use rand_core::SeedableRng;
use refmodel::consts::C;
use refmodel::curve::{e1_iso, e2_iso, Curve, Pt, Words};
use refmodel::enc::{encode, in_subgroup, EncFld};
use refmodel::fld::{Fld, Fq, Fq2, SqrtFld, Z};
use refmodel::h2c;
use serde::{Deserialize, Serialize};

// ---------------------------------------------------------------------------------------------
// predicate
// ---------------------------------------------------------------------------------------------

#[derive(Clone, Debug, Serialize, Deserialize, PartialEq, Eq, Hash)]
pub enum PredR {
    /// arbitrary coordinate pair (off the curve with overwhelming probability)
    Pair(Fq2R, Fq2R),
    /// a point of the curve of any class
    Curve(PointR),
    /// a point of y^2 = x^3 + b'' for another b'' (index), from a seed
    Twist(u8, u64),
    /// curve point with y replaced by y + 1
    NudgeY(PointR),
    /// curve point with x and y swapped
    Swap(PointR),
    /// infinity flag set, arbitrary coordinates
    InfinityFlag(Fq2R, Fq2R),
    /// a fresh uniform point of the full curve group from a seed
    FullSeed(u64),
    /// small-order point (prime index, pool index) + [k]G: order l*r, many different points
    MixedWalk(u8, u8, u16),
    /// [k]G + pool subgroup point: many different members
    SubWalk(u8, u16),
    /// a curve point (x, y) moved to the isomorphic curve y^2 = x^3 + b t^6 by (t^2 x, t^3 y):
    /// off the curve unless t^6 = 1, but of the same order under the b-independent group formulas
    /// (an order-r point of a twist / isomorphic curve)
    Rescaled(PointR, FeR),
    /// G2 only: a point of E(Fq) read as a pair over Fq2 (lies on y^2 = x^3 + 4, not on E')
    BaseFieldPoint(PointR),
}

#[derive(Clone, Debug, Serialize, Deserialize, PartialEq, Eq, Hash)]
pub struct PredCase {
    pub group: u8,
    pub p: PredR,
}

fn pred_strategy(group: u8) -> BoxedStrategy<PredCase> {
    let p = prop_oneof![
        3 => (fq2_strategy(), fq2_strategy()).prop_map(|(x, y)| PredR::Pair(x, y)),
        12 => point_strategy(true).prop_map(PredR::Curve),
        4 => (0u8..6, any::<u64>()).prop_map(|(b, s)| PredR::Twist(b, s)),
        2 => point_strategy(true).prop_map(PredR::NudgeY),
        1 => point_strategy(true).prop_map(PredR::Swap),
        1 => (fq2_strategy(), fq2_strategy()).prop_map(|(x, y)| PredR::InfinityFlag(x, y)),
        8 => any::<u64>().prop_map(PredR::FullSeed),
        5 => (0u8..5, 0u8..3, any::<u16>()).prop_map(|(p, i, k)| PredR::MixedWalk(p, i, k)),
        5 => (0u8..POOL_SUB as u8, any::<u16>()).prop_map(|(s, k)| PredR::SubWalk(s, k)),
        6 => (point_strategy(true), fq_uniformish()).prop_map(|(p, t)| PredR::Rescaled(p, t)),
        3 => point_strategy(true).prop_map(PredR::BaseFieldPoint),
    ];
    p.prop_map(move |p| PredCase { group, p }).boxed()
}

pub trait Embed: SqrtFld {
    fn from_fq2(a: &Fq2) -> Self;
    fn embed_fq(a: &Fq) -> Self;
    fn other_b(i: u8) -> Self;
}
impl Embed for Fq {
    fn from_fq2(a: &Fq2) -> Fq {
        a.c0.clone()
    }
    fn embed_fq(a: &Fq) -> Fq {
        a.clone()
    }
    fn other_b(i: u8) -> Fq {
        Fq::from_u64([24u64, 3, 1, 5, 2, 8][i as usize % 6])
    }
}
impl Embed for Fq2 {
    fn from_fq2(a: &Fq2) -> Fq2 {
        a.clone()
    }
    fn embed_fq(a: &Fq) -> Fq2 {
        Fq2::new(a.clone(), Fq::zero())
    }
    fn other_b(i: u8) -> Fq2 {
        let t = [(4u64, 0u64), (0, 4), (3, 3), (1, 1), (4, 5), (24, 24)][i as usize % 6];
        let mut v = Fq2::new(Fq::from_u64(t.0), Fq::from_u64(t.1));
        if i % 6 == 1 {
            v = Fq2::new(Fq::from_u64(4), Fq::from_u64(4).neg());
        }
        v
    }
}

fn check_pred<G: HasPool>(c: &PredCase, info: &mut Info) -> Result<(), String>
where
    G::F: Embed + EncFld,
{
    let curve = G::curve();
    let (x, y, inf): (G::F, G::F, bool) = match &c.p {
        PredR::Pair(x, y) => (G::F::from_fq2(&x.build()), G::F::from_fq2(&y.build()), false),
        PredR::InfinityFlag(x, y) => (G::F::from_fq2(&x.build()), G::F::from_fq2(&y.build()), true),
        PredR::Curve(p) => match p.build::<G>() {
            Pt::Inf => (G::F::zero(), G::F::one(), true),
            Pt::Aff(x, y) => (x, y, false),
        },
        PredR::NudgeY(p) => match p.build::<G>() {
            Pt::Inf => (G::F::zero(), G::F::one(), true),
            Pt::Aff(x, y) => (x, y.add(&G::F::one()), false),
        },
        PredR::Swap(p) => match p.build::<G>() {
            Pt::Inf => (G::F::zero(), G::F::one(), true),
            Pt::Aff(x, y) => (y, x, false),
        },
        PredR::Rescaled(p, t) => match p.build::<G>() {
            Pt::Inf => (G::F::zero(), G::F::one(), true),
            Pt::Aff(x, y) => {
                let t = G::F::embed_fq(&t.fq());
                let t = if t.is_zero() { G::F::from_u64(2) } else { t };
                let t2 = t.sqr();
                (x.mul(&t2), y.mul(&t2.mul(&t)), false)
            }
        },
        PredR::BaseFieldPoint(p) => match p.build::<G1m>() {
            Pt::Inf => (G::F::zero(), G::F::one(), true),
            Pt::Aff(x, y) => (G::F::embed_fq(&x), G::F::embed_fq(&y), false),
        },
        PredR::FullSeed(seed) => {
            let mut w = Words(*seed);
            match curve.point_from_words(&mut || w.next()) {
                Pt::Aff(x, y) => (x, y, false),
                Pt::Inf => unreachable!(),
            }
        }
        PredR::MixedWalk(p, i, k) => {
            let so = PointR::SmallOrder(*p, *i).build::<G>();
            match curve.add(&so, &curve.mul(&Z::from(*k as u32), &G::gen())) {
                Pt::Aff(x, y) => (x, y, false),
                Pt::Inf => (G::F::zero(), G::F::one(), true),
            }
        }
        PredR::SubWalk(s, k) => match curve.add(&G::pool().sub[*s as usize % POOL_SUB].1, &curve.mul(&Z::from(*k as u32), &G::gen())) {
            Pt::Aff(x, y) => (x, y, false),
            Pt::Inf => (G::F::zero(), G::F::one(), true),
        },
        PredR::Twist(b, seed) => {
            let tw = Curve { a: G::F::zero(), b: G::F::other_b(*b) };
            let mut w = Words(*seed);
            match tw.point_from_words(&mut || w.next()) {
                Pt::Aff(x, y) => (x, y, false),
                Pt::Inf => unreachable!(),
            }
        }
    };
    info.class(match &c.p {
        PredR::Pair(_, _) => "arbitrary-pair".to_string(),
        PredR::InfinityFlag(_, _) => "infinity-flag".to_string(),
        PredR::Curve(p) => format!("curve:{}", p.class()),
        PredR::NudgeY(_) => "y+1".to_string(),
        PredR::Swap(_) => "swapped".to_string(),
        PredR::Twist(_, _) => "other-b (twist / wrong curve)".to_string(),
        PredR::FullSeed(_) => "curve:fresh-full-curve-point".to_string(),
        PredR::MixedWalk(_, _, _) => "curve:small-order+[k]G".to_string(),
        PredR::SubWalk(_, _) => "curve:subgroup-walk".to_string(),
        PredR::Rescaled(p, _) => format!("rescaled-to-isomorphic-curve:{}", if p.in_subgroup() { "order-r" } else { "other-order" }),
        PredR::BaseFieldPoint(_) => "point-of-E(Fq)-as-pair".to_string(),
    });
    pred_eval::<G>(&x, &y, inf, info)
}

/// evaluate the crate predicate on a raw triple and compare with the definition
fn pred_eval<G: HasPool>(x: &G::F, y: &G::F, inf: bool, info: &mut Info) -> Result<(), String>
where
    G::F: Embed + EncFld,
{
    let curve = G::curve();
    let pm = if inf { Pt::Inf } else { Pt::Aff(x.clone(), y.clone()) };
    let on = curve.on_curve(&pm);
    let want = inf || (on && curve.mul(&C().r, &pm).is_inf());
    info.class(if want { "member" } else if on { "on-curve-non-member" } else { "off-curve" });
    info.nt_if(on && !inf);
    let a = G::aff_raw(G::f_c(x), G::f_c(y), inf);
    let got = cr("in_subgroup", || G::op_in_subgroup(&a))?;
    if got != want {
        return Err(format!("{} in_subgroup(x={:?}, y={:?}, infinity={}) = {} but (identity or (on curve and [r]P = O)) = {} [on curve: {}]", G::NAME, x, y, inf, got, want, on));
    }
    Ok(())
}

// ---- the predicate after other calls on the same thread ------------------------------------------------

#[derive(Clone, Debug, Serialize, Deserialize, PartialEq, Eq, Hash)]
pub enum HStep {
    /// decode the base point's encoding (checked / unchecked decoder, compressed or not); outcome compared with the model
    Decode(bool, bool),
    /// SerDes::deserialize of the base point's image
    Deser(bool),
    /// the predicate on the base point itself
    OnBase,
    /// the predicate on a pair DERIVED from the base point (x, y): 0: (x, y+d)  1: (x, -y)  2: (x+d, y)
    /// 3: (beta x, y)  4: (x, d)  5: (d, y)  6: (y, x)  7: (x, y) with the infinity flag set
    OnDerived(u8, FeR),
    /// the predicate on an independent case
    OnOther(PredR),
}

#[derive(Clone, Debug, Serialize, Deserialize, PartialEq, Eq, Hash)]
pub struct PredHist {
    pub group: u8,
    pub base: PointR,
    pub steps: Vec<HStep>,
}

fn pred_hist_strategy() -> BoxedStrategy<PredHist> {
    let step = prop_oneof![
        3 => (any::<bool>(), any::<bool>()).prop_map(|(c, k)| HStep::Decode(c, k)),
        1 => any::<bool>().prop_map(HStep::Deser),
        2 => Just(HStep::OnBase),
        6 => (0u8..8, fq_strategy()).prop_map(|(k, d)| HStep::OnDerived(k, d)),
        1 => point_strategy(true).prop_map(|p| HStep::OnOther(PredR::Curve(p))),
    ];
    (0u8..2, prop_oneof![3 => point_strategy(false), 1 => point_strategy(true)], proptest::collection::vec(step, 2..7)).prop_map(|(group, base, steps)| PredHist { group, base, steps }).boxed()
}

fn check_pred_hist<G: HasPool>(c: &PredHist, info: &mut Info) -> Result<(), String>
where
    G::F: Embed + EncFld,
{
    let pm = c.base.build::<G>();
    let member = in_subgroup::<G::F>(&pm);
    info.class(if member { "base:member" } else { "base:non-member" });
    let mut primed = false;
    for (i, st) in c.steps.iter().enumerate() {
        let ctx = |m: String| format!("step {} ({:?}) of a history on one thread: {}", i, st, m);
        match st {
            HStep::Decode(compressed, checked) => {
                let bytes = encode(&pm, *compressed);
                let r = G::decode_bytes(*compressed, &bytes, *checked).map_err(&ctx)?;
                let expect_ok = !*checked || member;
                if r.is_ok() != expect_ok {
                    return Err(ctx(format!("decoding the base point's encoding: crate {}, expected {}", if r.is_ok() { "accepts" } else { "rejects" }, if expect_ok { "accept" } else { "reject" })));
                }
                primed = true;
            }
            HStep::Deser(compressed) => {
                let bytes = encode(&pm, *compressed);
                let ok = if G::NAME == "G1" { cr("deserialize", || crt::G1Affine::deserialize(&mut &bytes[..], *compressed).is_ok()) } else { cr("deserialize", || crt::G2Affine::deserialize(&mut &bytes[..], *compressed).is_ok()) }.map_err(&ctx)?;
                if ok != member {
                    return Err(ctx(format!("deserialize of the base point's image: crate {}, expected {}", ok, member)));
                }
                primed = true;
            }
            HStep::OnBase => {
                let mut tmp = Info::default();
                match &pm {
                    Pt::Inf => pred_eval::<G>(&G::F::zero(), &G::F::one(), true, &mut tmp),
                    Pt::Aff(x, y) => pred_eval::<G>(x, y, false, &mut tmp),
                }
                .map_err(&ctx)?;
                primed = true;
            }
            HStep::OnDerived(kind, d) => {
                if let Pt::Aff(x, y) = &pm {
                    let d = G::F::embed_fq(&d.fq());
                    let d1 = if d.is_zero() { G::F::one() } else { d.clone() };
                    let (qx, qy, inf) = match kind % 8 {
                        0 => (x.clone(), y.add(&d1), false),
                        1 => (x.clone(), y.neg(), false),
                        2 => (x.add(&d1), y.clone(), false),
                        3 => (x.mul(&beta_in::<G::F>()), y.clone(), false),
                        4 => (x.clone(), d.clone(), false),
                        5 => (d.clone(), y.clone(), false),
                        6 => (y.clone(), x.clone(), false),
                        _ => (x.clone(), y.clone(), true),
                    };
                    let mut tmp = Info::default();
                    pred_eval::<G>(&qx, &qy, inf, &mut tmp).map_err(&ctx)?;
                    if primed {
                        info.class(format!("derived-pair-after-a-successful-call:{}", tmp.classes.last().cloned().unwrap_or_default()));
                        info.nt();
                    }
                }
            }
            HStep::OnOther(p) => {
                let mut tmp = Info::default();
                check_pred::<G>(&PredCase { group: c.group, p: p.clone() }, &mut tmp).map_err(&ctx)?;
            }
        }
    }
    Ok(())
}

fn check_pred_hist_any(c: &PredHist, info: &mut Info) -> Result<(), String> {
    if c.group == 0 {
        check_pred_hist::<G1m>(c, info)
    } else {
        check_pred_hist::<G2m>(c, info)
    }
}

fn check_pred_any(c: &PredCase, info: &mut Info) -> Result<(), String> {
    if c.group == 0 {
        check_pred::<G1m>(c, info)
    } else {
        check_pred::<G2m>(c, info)
    }
}

// ---------------------------------------------------------------------------------------------
// closure of the safe API
// ---------------------------------------------------------------------------------------------

#[derive(Clone, Debug, Serialize, Deserialize, PartialEq, Eq, Hash)]
pub enum Src {
    Gen,
    Zero,
    Random([u8; 16]),
    Decode(BaseR, bool),
    Deser(BaseR, bool),
    Hash(bool, u8, BytesR, BytesR),
    Map(URecipe),
    Map2(URecipe, Second),
    /// checked decoding of an ARBITRARY byte string (C04 generator: small-order, off-curve, rescaled,
    /// flag-edited, uniform ...): whatever is accepted must be a member; a rejection leaves the generator
    DecodeAny(super::c04::DecCase),
    /// the same through SerDes::deserialize
    DeserAny(super::c04::DecCase),
}

#[derive(Clone, Debug, Serialize, Deserialize, PartialEq, Eq, Hash)]
pub enum SOp {
    Add(u8, u8),
    Sub(u8, u8),
    AddMixed(u8, u8),
    Double(u8),
    Neg(u8),
    MulAssign(u8, ScalarR),
    AffMul(u8, ScalarR),
    WnafMul(u8, ScalarR),
    Precomp3(u8, ScalarR),
    Precomp256(u8, ScalarR),
    Msm(u8, Vec<(u8, ScalarR)>),
    EncDec(u8, bool),
    SerDes(u8, bool),
    BatchNorm(Vec<u8>),
    /// r_i = (r_i + r_j) + (r_i - r_j), or with `true` (r_i + r_j) - (r_i - r_j): the two operands of the last step
    /// were produced from the same pair of points and share their Z coordinate (Z3 depends on the x's only)
    SumDiff(u8, u8, bool),
}

#[derive(Clone, Debug, Serialize, Deserialize, PartialEq, Eq, Hash)]
pub struct SafeProg {
    pub group: u8,
    pub srcs: Vec<Src>,
    pub ops: Vec<SOp>,
}

const NREG: u8 = 4;

fn sub_base() -> BoxedStrategy<BaseR> {
    prop_oneof![
        3 => point_strategy(false).prop_map(BaseR::Point),
        5 => (0u8..POOL_SUB as u8, any::<u16>()).prop_map(|(s, k)| BaseR::Walk(s, k)),
    ]
    .boxed()
}

fn u_strategy() -> BoxedStrategy<URecipe> {
    prop_oneof![
        10 => fq2_strategy().prop_map(URecipe::Fe),
        1 => Just(URecipe::Zero),
        1 => Just(URecipe::One),
        2 => any::<bool>().prop_map(URecipe::Exceptional),
    ]
    .boxed()
}

fn src_strategy() -> BoxedStrategy<Src> {
    let second = prop_oneof![
        3 => u_strategy().prop_map(Second::Independent),
        2 => Just(Second::Same),
        2 => Just(Second::Negated),
        2 => Just(Second::PartnerSame),
        2 => Just(Second::PartnerInverse),
        2 => (0u8..6, any::<bool>()).prop_map(|(k, n)| Second::SharedIntermediate(k, n)),
    ];
    prop_oneof![
        1 => Just(Src::Gen),
        1 => Just(Src::Zero),
        4 => any::<[u8; 16]>().prop_map(Src::Random),
        3 => (sub_base(), any::<bool>()).prop_map(|(b, c)| Src::Decode(b, c)),
        3 => (sub_base(), any::<bool>()).prop_map(|(b, c)| Src::Deser(b, c)),
        4 => (any::<bool>(), 0u8..4, msg_strategy(), dst_strategy()).prop_map(|(ro, e, m, d)| Src::Hash(ro, e, m, d)),
        4 => super::c04::dec_case_strategy().prop_map(Src::DecodeAny),
        4 => super::c04::dec_case_strategy().prop_map(Src::DeserAny),
        3 => u_strategy().prop_map(Src::Map),
        5 => (u_strategy(), second).prop_map(|(u, s)| Src::Map2(u, s)),
    ]
    .boxed()
}

fn sop_strategy() -> BoxedStrategy<SOp> {
    let r = || 0u8..NREG;
    prop_oneof![
        4 => (r(), r()).prop_map(|(i, j)| SOp::Add(i, j)),
        2 => (r(), r()).prop_map(|(i, j)| SOp::Sub(i, j)),
        2 => (r(), r()).prop_map(|(i, j)| SOp::AddMixed(i, j)),
        2 => r().prop_map(SOp::Double),
        1 => r().prop_map(SOp::Neg),
        2 => (r(), scalar_strategy()).prop_map(|(i, k)| SOp::MulAssign(i, k)),
        2 => (r(), scalar_strategy()).prop_map(|(i, k)| SOp::AffMul(i, k)),
        2 => (r(), scalar_strategy()).prop_map(|(i, k)| SOp::WnafMul(i, k)),
        1 => (r(), scalar_strategy()).prop_map(|(i, k)| SOp::Precomp3(i, k)),
        1 => (r(), scalar_strategy()).prop_map(|(i, k)| SOp::Precomp256(i, k)),
        2 => (r(), proptest::collection::vec((r(), scalar_strategy()), 0..5)).prop_map(|(i, v)| SOp::Msm(i, v)),
        2 => (r(), any::<bool>()).prop_map(|(i, c)| SOp::EncDec(i, c)),
        2 => (r(), any::<bool>()).prop_map(|(i, c)| SOp::SerDes(i, c)),
        1 => proptest::collection::vec(r(), 0..5).prop_map(SOp::BatchNorm),
        2 => (r(), r(), any::<bool>()).prop_map(|(i, j, m)| SOp::SumDiff(i, j, m)),
    ]
    .boxed()
}

fn prog_strategy(group: u8) -> BoxedStrategy<SafeProg> {
    (proptest::collection::vec(src_strategy(), NREG as usize), proptest::collection::vec(sop_strategy(), 0..10)).prop_map(move |(srcs, ops)| SafeProg { group, srcs, ops }).boxed()
}

pub trait SafeGrp: HasPool {
    fn hash(e: h2c::Expander, ro: bool, msg: &[u8], dst: &[u8]) -> Self::Proj;
    fn map(u: &URecipe) -> Self::Proj;
    fn map2(u0: &URecipe, s: &Second, info: &mut Info) -> Self::Proj;
    fn deser(bytes: &[u8], compressed: bool) -> std::io::Result<Self::Proj>;
    fn ser(p: &Self::Proj, compressed: bool) -> std::io::Result<Vec<u8>>;
    fn random(seed: [u8; 16]) -> Self::Proj;
}

impl SafeGrp for G1m {
    fn hash(e: h2c::Expander, ro: bool, msg: &[u8], dst: &[u8]) -> crt::G1 {
        super::c06::crate_h2c_g1(e, ro, msg, dst)
    }
    fn map(u: &URecipe) -> crt::G1 {
        <crt::G1 as MapToCurve<crt::G1>>::map_to_curve(&fq_c(&u_g1(u)))
    }
    fn map2(u0: &URecipe, s: &Second, info: &mut Info) -> crt::G1 {
        let a = u_g1(u0);
        let b = match s {
            Second::Independent(u) => u_g1(u),
            Second::Same => a.clone(),
            Second::Negated => a.neg(),
            Second::PartnerSame | Second::PartnerInverse => {
                let same = matches!(s, Second::PartnerSame);
                match h2c::sswu_partner(&e1_iso(), &h2c::z1(), &a, same) {
                    Some(p) => {
                        info.class("source:map2-constructed-partner");
                        p
                    }
                    None => a.clone(),
                }
            }
            Second::SharedIntermediate(kind, neg) => match super::c14::shared_intermediate(&h2c::z1(), &a, *kind, *neg) {
                Some(p) => {
                    info.class("source:map2-shared-intermediate");
                    p
                }
                None => a.clone(),
            },
        };
        <crt::G1 as MapToCurve<crt::G1>>::map2_to_curve(&fq_c(&a), &fq_c(&b))
    }
    fn deser(bytes: &[u8], compressed: bool) -> std::io::Result<crt::G1> {
        crt::G1::deserialize(&mut &bytes[..], compressed)
    }
    fn ser(p: &crt::G1, compressed: bool) -> std::io::Result<Vec<u8>> {
        let mut v = vec![];
        p.serialize(&mut v, compressed)?;
        Ok(v)
    }
    fn random(seed: [u8; 16]) -> crt::G1 {
        let mut rng = rand_xorshift::XorShiftRng::from_seed(seed);
        crt::G1::random(&mut rng)
    }
}

impl SafeGrp for G2m {
    fn hash(e: h2c::Expander, ro: bool, msg: &[u8], dst: &[u8]) -> crt::G2 {
        super::c06::crate_h2c_g2(e, ro, msg, dst)
    }
    fn map(u: &URecipe) -> crt::G2 {
        <crt::G2 as MapToCurve<crt::G2>>::map_to_curve(&fq2_c(&u_g2(u)))
    }
    fn map2(u0: &URecipe, s: &Second, info: &mut Info) -> crt::G2 {
        let a = u_g2(u0);
        let b = match s {
            Second::Independent(u) => u_g2(u),
            Second::Same => a.clone(),
            Second::Negated => a.neg(),
            Second::PartnerSame | Second::PartnerInverse => {
                let same = matches!(s, Second::PartnerSame);
                match h2c::sswu_partner(&e2_iso(), &h2c::z2(), &a, same) {
                    Some(p) => {
                        info.class("source:map2-constructed-partner");
                        p
                    }
                    None => a.clone(),
                }
            }
            Second::SharedIntermediate(kind, neg) => match super::c14::shared_intermediate(&h2c::z2(), &a, *kind, *neg) {
                Some(p) => {
                    info.class("source:map2-shared-intermediate");
                    p
                }
                None => a.clone(),
            },
        };
        <crt::G2 as MapToCurve<crt::G2>>::map2_to_curve(&fq2_c(&a), &fq2_c(&b))
    }
    fn deser(bytes: &[u8], compressed: bool) -> std::io::Result<crt::G2> {
        crt::G2::deserialize(&mut &bytes[..], compressed)
    }
    fn ser(p: &crt::G2, compressed: bool) -> std::io::Result<Vec<u8>> {
        let mut v = vec![];
        p.serialize(&mut v, compressed)?;
        Ok(v)
    }
    fn random(seed: [u8; 16]) -> crt::G2 {
        let mut rng = rand_xorshift::XorShiftRng::from_seed(seed);
        crt::G2::random(&mut rng)
    }
}

fn rp(k: &Z) -> crt::FrRepr {
    crt::FrRepr(scalar_limbs(k))
}

/// the invariant on a value handed out by the safe API
fn member<G: Ops>(what: &str, step: usize, v: &G::Proj) -> Result<(), String> {
    let a = cr("into_affine", || G::op_to_affine(v))?;
    if !cr("in_subgroup", || G::op_in_subgroup(&a))? {
        return Err(format!("step {} ({}): the crate's own in_subgroup() is false for a value handed out by the safe API: {}", step, what, pt_brief(&proj_m::<G>(v))));
    }
    Ok(())
}

fn run_safe<G: SafeGrp>(prog: &SafeProg, info: &mut Info) -> Result<(), String>
where
    G::F: EncFld,
{
    let curve = G::curve();
    let mut cp: Vec<G::Proj> = vec![];
    let mut mp: Vec<Pt<G::F>> = vec![];
    // sources: membership decided by the model ([r]P = O on the curve)
    for (i, s) in prog.srcs.iter().enumerate() {
        let (name, v): (&str, G::Proj) = match s {
            Src::Gen => ("one()", cr("one", || G::Proj::one())?),
            Src::Zero => ("zero()", cr("zero", || G::Proj::zero())?),
            Src::Random(seed) => ("random(rng)", cr("random", || G::random(*seed))?),
            Src::Decode(b, compressed) => {
                let pm = base_point::<G>(b).unwrap();
                let bytes = encode(&pm, *compressed);
                let a = G::decode_bytes(*compressed, &bytes, true)?.map_err(|e| format!("checked decoding of a valid encoding failed: {:?}", e))?;
                ("checked decode", a.into_projective())
            }
            Src::Deser(b, compressed) => {
                let pm = base_point::<G>(b).unwrap();
                let bytes = encode(&pm, *compressed);
                ("deserialize", cr("deserialize", || G::deser(&bytes, *compressed))?.map_err(|e| format!("deserialize of a valid image failed: {}", e))?)
            }
            Src::DecodeAny(d) | Src::DeserAny(d) => {
                let compressed = d.fmt % 2 == 0;
                let fmt = (if G::NAME == "G1" { 0 } else { 2 }) + if compressed { 0 } else { 1 };
                let bytes = super::c04::build_bytes::<G>(&super::c04::DecCase { fmt, base: d.base.clone(), edits: d.edits.clone() });
                let via_serdes = matches!(s, Src::DeserAny(_));
                let got: Option<G::Proj> = if via_serdes {
                    cr("deserialize", || G::deser(&bytes, compressed))?.ok()
                } else {
                    G::decode_bytes(compressed, &bytes, true)?.ok().map(|a| a.into_projective())
                };
                match got {
                    Some(v) => {
                        info.class(if via_serdes { "source:deserialize(arbitrary bytes)=accepted" } else { "source:decode(arbitrary bytes)=accepted" });
                        (if via_serdes { "deserialize of arbitrary bytes" } else { "checked decode of arbitrary bytes" }, v)
                    }
                    None => {
                        info.class("source:arbitrary bytes rejected");
                        ("one()", cr("one", || G::Proj::one())?)
                    }
                }
            }
            Src::Hash(ro, e, m, d) => (if *ro { "hash_to_curve" } else { "encode_to_curve" }, cr("hash", || G::hash(expander_of(*e), *ro, &m.build(), &d.build()))?),
            Src::Map(u) => ("map_to_curve", cr("map_to_curve", || G::map(u))?),
            Src::Map2(u, sec) => {
                let mut tmp = Info::default();
                let v = cr("map2_to_curve", || G::map2(u, sec, &mut tmp))?;
                for c in tmp.classes {
                    info.class(c);
                }
                ("map2_to_curve", v)
            }
        };
        info.class(format!("source:{}", name));
        let m = proj_m::<G>(&v);
        if !in_subgroup::<G::F>(&m) {
            return Err(format!("source {} ({}): value {} is not on the curve / not annihilated by r", i, name, pt_brief(&m)));
        }
        member::<G>(name, i, &v)?;
        cp.push(v);
        mp.push(m);
    }
    let n = cp.len();
    let mut kinds = std::collections::BTreeSet::new();
    for (step, op) in prog.ops.iter().enumerate() {
        let (name, i): (&str, usize) = match op {
            SOp::Add(i, j) | SOp::Sub(i, j) => {
                let (i, j) = (*i as usize % n, *j as usize % n);
                let sub = matches!(op, SOp::Sub(_, _));
                let o = cp[j];
                let mut t = cp[i];
                cr("add/sub", || if sub { G::op_sub(&mut t, &o) } else { G::op_add(&mut t, &o) })?;
                cp[i] = t;
                mp[i] = if sub { curve.sub(&mp[i], &mp[j]) } else { curve.add(&mp[i], &mp[j]) };
                (if sub { "sub_assign" } else { "add_assign" }, i)
            }
            SOp::SumDiff(i, j, minus) => {
                let (i, j) = (*i as usize % n, *j as usize % n);
                let o = cp[j];
                let mut s = cp[i];
                let mut d = cp[i];
                cr("add", || G::op_add(&mut s, &o))?;
                cr("sub", || G::op_sub(&mut d, &o))?;
                cr("add/sub of sum and difference", || if *minus { G::op_sub(&mut s, &d) } else { G::op_add(&mut s, &d) })?;
                cp[i] = s;
                let (ms, md) = (curve.add(&mp[i], &mp[j]), curve.sub(&mp[i], &mp[j]));
                mp[i] = if *minus { curve.sub(&ms, &md) } else { curve.add(&ms, &md) };
                ("(P+Q) +- (P-Q)", i)
            }
            SOp::AddMixed(i, j) => {
                let (i, j) = (*i as usize % n, *j as usize % n);
                let o = cr("into_affine", || G::op_to_affine(&cp[j]))?;
                let mut t = cp[i];
                cr("add_assign_mixed", || G::op_add_mixed(&mut t, &o))?;
                cp[i] = t;
                mp[i] = curve.add(&mp[i], &mp[j]);
                ("add_assign_mixed", i)
            }
            SOp::Double(i) => {
                let i = *i as usize % n;
                let mut t = cp[i];
                cr("double", || G::op_double(&mut t))?;
                cp[i] = t;
                mp[i] = curve.dbl(&mp[i]);
                ("double", i)
            }
            SOp::Neg(i) => {
                let i = *i as usize % n;
                let mut t = cp[i];
                cr("negate", || G::op_neg(&mut t))?;
                cp[i] = t;
                mp[i] = curve.neg(&mp[i]);
                ("negate", i)
            }
            SOp::MulAssign(i, k) => {
                let i = *i as usize % n;
                let kz = k.build();
                let mut t = cp[i];
                cr("mul_assign", || G::op_mul_assign(&mut t, rp(&kz)))?;
                cp[i] = t;
                mp[i] = curve.mul(&kz, &mp[i]);
                ("mul_assign", i)
            }
            SOp::AffMul(i, k) => {
                let i = *i as usize % n;
                let kz = k.build();
                let a = cr("into_affine", || G::op_to_affine(&cp[i]))?;
                cp[i] = cr("mul", || G::op_aff_mul(&a, rp(&kz)))?;
                mp[i] = curve.mul(&kz, &mp[i]);
                ("CurveAffine::mul", i)
            }
            SOp::WnafMul(i, k) => {
                let i = *i as usize % n;
                let kz = k.build255();
                let b = cp[i];
                cp[i] = cr("wnaf", || Wnaf::new().scalar(rp(&kz)).base(b))?;
                mp[i] = curve.mul(&kz, &mp[i]);
                ("Wnaf", i)
            }
            SOp::Precomp3(i, k) | SOp::Precomp256(i, k) => {
                let i = *i as usize % n;
                let kz = k.build();
                let a = cr("into_affine", || G::op_to_affine(&cp[i]))?;
                let three = matches!(op, SOp::Precomp3(_, _));
                let mut pre = scratch_table::<G>(if three { 3 } else { 256 });
                cp[i] = cr("precomp mul", || {
                    if three {
                        G::op_precomp_3(&a, &mut pre);
                        G::op_mul_precomp_3(&a, rp(&kz), &pre)
                    } else {
                        G::op_precomp_256(&a, &mut pre);
                        G::op_mul_precomp_256(&a, rp(&kz), &pre)
                    }
                })?;
                mp[i] = curve.mul(&kz, &mp[i]);
                (if three { "mul_precomp_3" } else { "mul_precomp_256" }, i)
            }
            SOp::Msm(i, terms) => {
                let i = *i as usize % n;
                let mut bases = vec![];
                let mut scalars = vec![];
                let mut want = Pt::Inf;
                for (j, k) in terms {
                    let j = *j as usize % n;
                    let kz = k.build255();
                    bases.push(cr("into_affine", || G::op_to_affine(&cp[j]))?);
                    scalars.push(scalar_limbs(&kz));
                    want = curve.add(&want, &curve.mul(&kz, &mp[j]));
                }
                let refs: Vec<&[u64; 4]> = scalars.iter().collect();
                cp[i] = cr("sum_of_products", || G::op_sum_of_products(&bases, &refs))?;
                mp[i] = want;
                ("sum_of_products", i)
            }
            SOp::EncDec(i, compressed) => {
                let i = *i as usize % n;
                let a = cr("into_affine", || G::op_to_affine(&cp[i]))?;
                let bytes = G::encode_aff(&a, *compressed)?;
                let back = G::decode_bytes(*compressed, &bytes, true)?.map_err(|e| format!("step {}: checked decoding of the crate's own encoding failed: {:?}", step, e))?;
                cp[i] = back.into_projective();
                ("encode->decode", i)
            }
            SOp::SerDes(i, compressed) => {
                let i = *i as usize % n;
                let bytes = cr("serialize", || G::ser(&cp[i], *compressed))?.map_err(|e| format!("serialize failed: {}", e))?;
                cp[i] = cr("deserialize", || G::deser(&bytes, *compressed))?.map_err(|e| format!("step {}: deserialize of the crate's own image failed: {}", step, e))?;
                ("serialize->deserialize", i)
            }
            SOp::BatchNorm(idx) => {
                let idx: Vec<usize> = idx.iter().map(|i| *i as usize % n).collect();
                let mut v: Vec<G::Proj> = idx.iter().map(|i| cp[*i]).collect();
                cr("batch_normalization", || G::op_batch(&mut v))?;
                for (k, i) in idx.iter().enumerate() {
                    cp[*i] = v[k];
                    if proj_m::<G>(&cp[*i]) != mp[*i] {
                        return Err(format!("step {}: batch_normalization changed the point in register {}", step, i));
                    }
                    member::<G>("batch_normalization", step, &cp[*i])?;
                }
                kinds.insert("batch_normalization");
                continue;
            }
        };
        kinds.insert(name);
        info.class(format!("op:{}", name));
        let got = proj_m::<G>(&cp[i]);
        if got != mp[i] {
            return Err(format!("step {} ({}): crate value {} differs from the group-law value {}", step, name, pt_brief(&got), pt_brief(&mp[i])));
        }
        member::<G>(name, step, &cp[i])?;
    }
    info.nt_if(prog.ops.len() >= 3 && kinds.len() >= 2);
    Ok(())
}

fn check_safe(prog: &SafeProg, info: &mut Info) -> Result<(), String> {
    if prog.group == 0 {
        run_safe::<G1m>(prog, info)
    } else {
        run_safe::<G2m>(prog, info)
    }
}

crate::long_sub!(run_long_history, [19]);

pub fn def() -> PropDef {
    PropDef {
        id: "C07",
        rule: "predicate: coordinate pairs built with transmute - arbitrary pairs, points of every class of the curve (subgroup, full-curve, every small prime order dividing the cofactor, order l*r, negated, same-y), points on y^2 = x^3 + b'' for six other b'' (twists / wrong curves incl. the crate's own b = 24 and b = 3 examples), y+1, swapped coordinates, infinity flag with arbitrary coordinates; oracle: identity or (on curve and [r]P = O) in the model. Closure: programs whose 4 registers are seeded only from safe sources (generator, zero, random(rng) from a generated seed, checked decode / deserialize of valid encodings, hash_to_curve / encode_to_curve, map_to_curve, map2_to_curve incl. u1 = +-u0 and constructed coinciding / inverse SSWU partners) followed by 0..9 safe operations (add, sub, mixed add, double, negate, every scalar-multiplication path, sum_of_products, encode->decode, serialize->deserialize, batch normalization); after every step the crate's in_subgroup() must hold, sources are tested by the model ([r]P = O on the curve), derived values must equal the model's group-law value. Non-trivial = on-curve pair (predicate) / program with >= 3 operations of >= 2 kinds (closure); distinct = distinct cases",
        needs_pairing: false,
        subs: vec![
            Box::new(crate::engine::EnumSub { name: "long-history", rule: super::longhist::RULE, run: run_long_history, replay: super::longhist::replay, exhaustive: false }),
            Box::new(crate::engine::EnumSub { name: "two-input-bursts", rule: super::longhist::BURST_RULE, run: run_two_input_bursts, replay: super::longhist::replay_burst, exhaustive: false }),
            Box::new(Sub { name: "g1-predicate", rule: "G1Affine::in_subgroup on arbitrary coordinate pairs vs model predicate", quick: 8_000, thorough: 120_000, strategy: || boxed(pred_strategy(0)), check: check_pred_any }),
            Box::new(Sub { name: "g2-predicate", rule: "G2Affine::in_subgroup on arbitrary coordinate pairs vs model predicate", quick: 3_000, thorough: 40_000, strategy: || boxed(pred_strategy(1)), check: check_pred_any }),
            Box::new(Sub { name: "predicate-histories", rule: "2..6 calls on one thread around ONE base point: checked / unchecked decoding and deserialization of its encoding, the predicate on the point itself, then the predicate on pairs derived from it ((x, y+d), (x, -y), (x+d, y), (beta x, y), (x, d), (d, y), (y, x), infinity flag set); every outcome compared with the definition (no dependence on what was accepted before)", quick: 1_500, thorough: 30_000, strategy: || boxed(pred_hist_strategy()), check: check_pred_hist_any }),
            Box::new(Sub { name: "g1-closure", rule: "G1 safe-API programs: every handed-out value is a member", quick: 1_400, thorough: 25_000, strategy: || boxed(prog_strategy(0)), check: check_safe }),
            Box::new(Sub { name: "g2-closure", rule: "G2 safe-API programs: every handed-out value is a member", quick: 500, thorough: 8_000, strategy: || boxed(prog_strategy(1)), check: check_safe }),
        ],
        assumptions: {
            let mut v = COMMON_ASSUMPTIONS.to_vec();
            v.push("'safe API' excludes transmute, as_tuple_mut, the unchecked decoders and the hook re-exports; those are used only to build predicate inputs");
            v
        },
    }
}
