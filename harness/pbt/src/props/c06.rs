//! C06 - hash_to_curve / encode_to_curve implement the RFC 9380 BLS12-381 suites.

use super::c13::expander_of;
use super::{PropDef, COMMON_ASSUMPTIONS};
use crate::adapt::*;
use crate::engine::{boxed, cr, Ctx, EnumSub, Info, Sub};
use crate::recipes::*;
use pairing_plus::bls12_381 as crt;
use pairing_plus::hash_to_curve::HashToCurve;
use pairing_plus::hash_to_field::{ExpandMsgXmd, ExpandMsgXof};
use proptest::prelude::*;
use refmodel::curve::Pt;
use refmodel::enc::in_subgroup;
use refmodel::h2c::{self, Expander};
use refmodel::kat;
use serde::{Deserialize, Serialize};
use serde_json::{json, Value};

#[derive(Clone, Debug, Serialize, Deserialize, PartialEq, Eq, Hash)]
pub struct H2cCase {
    pub group: u8,
    /// true: hash_to_curve (random oracle), false: encode_to_curve (non-uniform)
    pub ro: bool,
    pub expander: u8,
    pub msg: BytesR,
    pub dst: BytesR,
}

fn h2c_strategy(group: u8) -> BoxedStrategy<H2cCase> {
    (any::<bool>(), 0u8..4, msg_strategy(), dst_strategy()).prop_map(move |(ro, expander, msg, dst)| H2cCase { group, ro, expander, msg, dst }).boxed()
}

macro_rules! crate_h2c {
    ($g:ty, $e:expr, $ro:expr, $msg:expr, $dst:expr) => {
        match ($e, $ro) {
            (Expander::XmdSha256, true) => <$g as HashToCurve<ExpandMsgXmd<sha2::Sha256>>>::hash_to_curve($msg, $dst),
            (Expander::XmdSha256, false) => <$g as HashToCurve<ExpandMsgXmd<sha2::Sha256>>>::encode_to_curve($msg, $dst),
            (Expander::XmdSha512, true) => <$g as HashToCurve<ExpandMsgXmd<sha2::Sha512>>>::hash_to_curve($msg, $dst),
            (Expander::XmdSha512, false) => <$g as HashToCurve<ExpandMsgXmd<sha2::Sha512>>>::encode_to_curve($msg, $dst),
            (Expander::XofShake128, true) => <$g as HashToCurve<ExpandMsgXof<sha3::Shake128>>>::hash_to_curve($msg, $dst),
            (Expander::XofShake128, false) => <$g as HashToCurve<ExpandMsgXof<sha3::Shake128>>>::encode_to_curve($msg, $dst),
            (Expander::XofShake256, true) => <$g as HashToCurve<ExpandMsgXof<sha3::Shake256>>>::hash_to_curve($msg, $dst),
            (Expander::XofShake256, false) => <$g as HashToCurve<ExpandMsgXof<sha3::Shake256>>>::encode_to_curve($msg, $dst),
            // generic XMD instantiations outside the named suites (same composition, other hash)
            (Expander::XmdSha384, true) => <$g as HashToCurve<ExpandMsgXmd<sha2::Sha384>>>::hash_to_curve($msg, $dst),
            (Expander::XmdSha384, false) => <$g as HashToCurve<ExpandMsgXmd<sha2::Sha384>>>::encode_to_curve($msg, $dst),
            (Expander::XmdSha224, true) => <$g as HashToCurve<ExpandMsgXmd<sha2::Sha224>>>::hash_to_curve($msg, $dst),
            (Expander::XmdSha224, false) => <$g as HashToCurve<ExpandMsgXmd<sha2::Sha224>>>::encode_to_curve($msg, $dst),
            (Expander::XmdSha512t224, true) => <$g as HashToCurve<ExpandMsgXmd<sha2::Sha512Trunc224>>>::hash_to_curve($msg, $dst),
            (Expander::XmdSha512t224, false) => <$g as HashToCurve<ExpandMsgXmd<sha2::Sha512Trunc224>>>::encode_to_curve($msg, $dst),
            (Expander::XmdSha512t256, true) => <$g as HashToCurve<ExpandMsgXmd<sha2::Sha512Trunc256>>>::hash_to_curve($msg, $dst),
            (Expander::XmdSha512t256, false) => <$g as HashToCurve<ExpandMsgXmd<sha2::Sha512Trunc256>>>::encode_to_curve($msg, $dst),
        }
    };
}

pub fn crate_h2c_g1(e: Expander, ro: bool, msg: &[u8], dst: &[u8]) -> crt::G1 {
    crate_h2c!(crt::G1, e, ro, msg, dst)
}
pub fn crate_h2c_g2(e: Expander, ro: bool, msg: &[u8], dst: &[u8]) -> crt::G2 {
    crate_h2c!(crt::G2, e, ro, msg, dst)
}

fn check_h2c(c: &H2cCase, info: &mut Info) -> Result<(), String> {
    let e = expander_of(c.expander);
    let msg = c.msg.build();
    let dst = c.dst.build();
    info.class(format!("{}:{}:{:?}", if c.group == 0 { "G1" } else { "G2" }, if c.ro { "RO" } else { "NU" }, e));
    info.nt();
    let ctx = format!("{} {} {:?} msg {} bytes dst {} bytes", if c.group == 0 { "G1" } else { "G2" }, if c.ro { "hash_to_curve" } else { "encode_to_curve" }, e, msg.len(), dst.len());
    if c.group == 0 {
        let want = if c.ro { h2c::hash_to_curve_g1(e, &msg, &dst) } else { h2c::encode_to_curve_g1(e, &msg, &dst) }.ok_or("model refused (harness bug)")?;
        let got = cr("hash", || crate_h2c_g1(e, c.ro, &msg, &dst))?;
        let gm = proj_m::<G1m>(&got);
        if gm != want {
            return Err(format!("{}: crate {} but RFC 9380 gives {}", ctx, pt_brief(&gm), pt_brief(&want)));
        }
        if !in_subgroup(&gm) {
            return Err(format!("{}: result outside the order-r subgroup", ctx));
        }
        let again = cr("hash again", || crate_h2c_g1(e, c.ro, &msg, &dst))?;
        if proj_m::<G1m>(&again) != gm {
            return Err(format!("{}: second call returned a different point", ctx));
        }
    } else {
        let want = if c.ro { h2c::hash_to_curve_g2(e, &msg, &dst) } else { h2c::encode_to_curve_g2(e, &msg, &dst) }.ok_or("model refused (harness bug)")?;
        let got = cr("hash", || crate_h2c_g2(e, c.ro, &msg, &dst))?;
        let gm = proj_m::<G2m>(&got);
        if gm != want {
            return Err(format!("{}: crate {} but RFC 9380 gives {}", ctx, pt_brief(&gm), pt_brief(&want)));
        }
        if !in_subgroup(&gm) {
            return Err(format!("{}: result outside the order-r subgroup", ctx));
        }
        let again = cr("hash again", || crate_h2c_g2(e, c.ro, &msg, &dst))?;
        if proj_m::<G2m>(&again) != gm {
            return Err(format!("{}: second call returned a different point", ctx));
        }
    }
    Ok(())
}

// ---- related inputs evaluated back to back (a cache keyed by part of the input needs exactly this) ------

#[derive(Clone, Debug, Serialize, Deserialize, PartialEq, Eq, Hash)]
pub enum Variant {
    Same,
    OtherDst(BytesR),
    OtherMsg(BytesR),
    /// message extended by one byte
    MsgPlus(u8),
    /// destination tag extended by one byte (skipped when that would exceed 255 bytes)
    DstPlus(u8),
    OtherExpander(u8),
    OtherMode,
    OtherGroup,
    /// a call OUTSIDE the property's domain (tag of 256..=400 bytes): its outcome is ignored (a panic is
    /// caught as a long-lived worker would); the calls after it are still compared with the model
    OutOfDomainTag(u8),
    /// move k bytes across the msg | tag boundary (k > 0: from the end of msg to the front of the tag; k < 0: from
    /// the front of the tag to the end of msg): msg || tag stays the same byte string, the request does not
    ShiftBoundary(i8),
}

#[derive(Clone, Debug, Serialize, Deserialize, PartialEq, Eq, Hash)]
pub struct RelatedCase {
    pub base: H2cCase,
    pub variants: Vec<Variant>,
}

fn related_strategy() -> BoxedStrategy<RelatedCase> {
    let v = prop_oneof![
        2 => Just(Variant::Same),
        3 => dst_strategy().prop_map(Variant::OtherDst),
        3 => msg_strategy().prop_map(Variant::OtherMsg),
        2 => any::<u8>().prop_map(Variant::MsgPlus),
        2 => any::<u8>().prop_map(Variant::DstPlus),
        2 => (0u8..4).prop_map(Variant::OtherExpander),
        2 => Just(Variant::OtherMode),
        1 => Just(Variant::OtherGroup),
        1 => any::<u8>().prop_map(Variant::OutOfDomainTag),
        3 => prop_oneof![Just(1i8), Just(-1i8), -12i8..=12].prop_map(Variant::ShiftBoundary),
    ];
    (prop_oneof![h2c_strategy(0), h2c_strategy(0), h2c_strategy(1)], proptest::collection::vec(v, 1..5)).prop_map(|(base, variants)| RelatedCase { base, variants }).boxed()
}

fn check_related(c: &RelatedCase, info: &mut Info) -> Result<(), String> {
    let mut cur = c.base.clone();
    let mut tmp = Info::default();
    check_h2c(&cur, &mut tmp)?;
    for v in &c.variants {
        let mut next = cur.clone();
        match v {
            Variant::Same => {}
            Variant::OtherDst(d) => next.dst = d.clone(),
            Variant::OtherMsg(m) => next.msg = m.clone(),
            Variant::MsgPlus(b) => {
                let mut m = cur.msg.build();
                m.push(*b);
                next.msg = BytesR::Lit(m);
            }
            Variant::DstPlus(b) => {
                let mut d = cur.dst.build();
                if d.len() < 255 {
                    d.push(*b);
                }
                next.dst = BytesR::Lit(d);
            }
            Variant::OtherExpander(e) => next.expander = *e,
            Variant::OtherMode => next.ro = !cur.ro,
            Variant::OtherGroup => next.group = 1 - cur.group % 2,
            Variant::ShiftBoundary(k) => {
                let (m2, d2) = super::c13::shift_boundary(&cur.msg.build(), &cur.dst.build(), *k);
                next.msg = BytesR::Lit(m2);
                next.dst = BytesR::Lit(d2);
            }
            Variant::OutOfDomainTag(n) => {
                let long: Vec<u8> = (0..256 + (*n as usize * 145) / 255).map(|i| (i % 251) as u8).collect();
                let e = expander_of(cur.expander);
                let msg = cur.msg.build();
                let _ = crate::engine::cr_panics(|| if cur.group == 0 { crate_h2c_g1(e, cur.ro, &msg, &long); } else { crate_h2c_g2(e, cur.ro, &msg, &long); });
            }
        }
        info.class(format!("then:{}", match v {
            Variant::Same => "same-input-again",
            Variant::OtherDst(_) => "same-msg-other-dst",
            Variant::OtherMsg(_) => "same-dst-other-msg",
            Variant::MsgPlus(_) => "msg-extended",
            Variant::DstPlus(_) => "dst-extended",
            Variant::OtherExpander(_) => "other-expander",
            Variant::OtherMode => "other-mode",
            Variant::OtherGroup => "other-group",
            Variant::OutOfDomainTag(_) => "same-input-after-an-out-of-domain-call",
            Variant::ShiftBoundary(_) => "msg-tag-boundary-shifted",
        }));
        let mut tmp = Info::default();
        check_h2c(&next, &mut tmp).map_err(|m| format!("after hashing a related input first: {}", m))?;
        cur = next;
    }
    info.nt();
    Ok(())
}

// ---- the four RFC 9380 appendix-J vectors (independent of the model) ----------------------------

fn kat_case(i: u64) -> Result<(), String> {
    let e = Expander::XmdSha256;
    let fail = |name: &str, got: String, want: String| Err(format!("RFC 9380 vector {}: crate {} expected {}", name, got, want));
    match i {
        0 => {
            let g = proj_m::<G1m>(&cr("h2c", || crate_h2c_g1(e, true, b"", kat::DST_G1_RO))?);
            if g != kat::rfc_g1_ro_empty() {
                return fail("J.9.1 msg=\"\"", pt_brief(&g), pt_brief(&kat::rfc_g1_ro_empty()));
            }
        }
        1 => {
            let g = proj_m::<G1m>(&cr("h2c", || crate_h2c_g1(e, true, b"abc", kat::DST_G1_RO))?);
            if g != kat::rfc_g1_ro_abc() {
                return fail("J.9.1 msg=abc", pt_brief(&g), pt_brief(&kat::rfc_g1_ro_abc()));
            }
        }
        2 => {
            let g = proj_m::<G1m>(&cr("h2c", || crate_h2c_g1(e, false, b"", kat::DST_G1_NU))?);
            if g != kat::rfc_g1_nu_empty() {
                return fail("J.9.2 msg=\"\"", pt_brief(&g), pt_brief(&kat::rfc_g1_nu_empty()));
            }
        }
        _ => {
            let g = proj_m::<G2m>(&cr("h2c", || crate_h2c_g2(e, true, b"", kat::DST_G2_RO))?);
            if g != kat::rfc_g2_ro_empty() {
                return fail("J.10.1 msg=\"\"", pt_brief(&g), pt_brief(&kat::rfc_g2_ro_empty()));
            }
        }
    }
    Ok(())
}

fn run_kats(_ctx: &Ctx, rec: &mut dyn FnMut(Value, Info)) -> Result<(), (String, Value)> {
    for i in 0..4u64 {
        let case = json!({"rfc_vector": i});
        kat_case(i).map_err(|m| (m, case.clone()))?;
        let mut info = Info::default();
        info.nt();
        info.class("rfc-vector");
        rec(case, info);
    }
    Ok(())
}

fn huge_case(group: u64, ro: bool, ei: u64, n: usize) -> Result<(), String> {
    let e = Expander::all()[ei as usize % 4];
    let msg: Vec<u8> = (0..n).map(|i| (i as u32).wrapping_mul(2654435761).to_le_bytes()[1]).collect();
    let dst = b"QUUX-V01-CS02-with-huge-message";
    let ctx = format!("{} {} {:?} msg {} bytes", if group == 0 { "G1" } else { "G2" }, if ro { "hash_to_curve" } else { "encode_to_curve" }, e, n);
    if group == 0 {
        let want = if ro { h2c::hash_to_curve_g1(e, &msg, dst) } else { h2c::encode_to_curve_g1(e, &msg, dst) }.ok_or("model refused (harness bug)")?;
        let gm = proj_m::<G1m>(&cr("hash", || crate_h2c_g1(e, ro, &msg, dst))?);
        if gm != want {
            return Err(format!("{}: crate {} but RFC 9380 gives {}", ctx, pt_brief(&gm), pt_brief(&want)));
        }
    } else {
        let want = if ro { h2c::hash_to_curve_g2(e, &msg, dst) } else { h2c::encode_to_curve_g2(e, &msg, dst) }.ok_or("model refused (harness bug)")?;
        let gm = proj_m::<G2m>(&cr("hash", || crate_h2c_g2(e, ro, &msg, dst))?);
        if gm != want {
            return Err(format!("{}: crate {} but RFC 9380 gives {}", ctx, pt_brief(&gm), pt_brief(&want)));
        }
    }
    Ok(())
}

/// messages far beyond "long" (64 KiB .. 16 MiB, see c13::huge_lens) through the whole pipeline
fn run_huge(ctx: &Ctx, rec: &mut dyn FnMut(Value, Info)) -> Result<(), (String, Value)> {
    let lens = super::c13::huge_lens(ctx.tier);
    let mut jobs = vec![];
    for (k, n) in lens.iter().enumerate() {
        // every length with two (group, mode, expander) combinations; all sixteen combinations are used
        for d in 0..2u64 {
            let j = 2 * k as u64 + d;
            jobs.push((j % 2, (j / 2) % 2 == 0, (j / 4) % 4, *n));
        }
    }
    let res = crate::engine::par_map(ctx.threads, jobs.len(), |i| huge_case(jobs[i].0, jobs[i].1, jobs[i].2, jobs[i].3));
    for (i, r) in res.into_iter().enumerate() {
        let case = json!({"huge": true, "group": jobs[i].0, "ro": jobs[i].1, "expander": jobs[i].2, "msg_len": jobs[i].3});
        r.map_err(|m| (m, case.clone()))?;
        let mut info = Info::default();
        info.nt();
        info.class(format!("huge-message:{}", if jobs[i].3 > (1 << 20) { ">1MiB" } else { "64KiB..1MiB" }));
        rec(case, info);
    }
    Ok(())
}

fn replay_huge(v: &Value) -> Result<(), String> {
    huge_case(v["group"].as_u64().unwrap_or(0), v["ro"].as_bool().unwrap_or(true), v["expander"].as_u64().unwrap_or(0), v["msg_len"].as_u64().unwrap_or(0) as usize)
}

fn replay_kats(v: &Value) -> Result<(), String> {
    kat_case(v["rfc_vector"].as_u64().unwrap_or(0))
}

#[allow(dead_code)]
fn _unused(_: Pt<refmodel::fld::Fq>) {}

crate::long_sub!(run_long_history, [12, 13]);

pub fn def() -> PropDef {
    PropDef {
        id: "C06",
        rule: "(msg, dst) x {G1, G2} x {hash_to_curve, encode_to_curve} x {XMD-SHA-256, XMD-SHA-512, XOF-SHAKE128, XOF-SHAKE256}; messages of length 0, 1, around every hash block boundary, occasionally long; tags of 0..255 bytes. Oracle: the model pipeline hash_to_field -> SSWU -> isogeny -> add -> [h_eff] written from RFC 9380 (exact affine equality), model subgroup test, second call identical; plus the four RFC 9380 appendix-J known answers compared directly with the crate. Non-trivial = every case (all inputs are distinct hashes); distinct = distinct (group, mode, expander, msg, dst)",
        needs_pairing: false,
        subs: vec![
            Box::new(crate::engine::EnumSub { name: "long-history", rule: super::longhist::RULE, run: run_long_history, replay: super::longhist::replay, exhaustive: false }),
            Box::new(crate::engine::EnumSub { name: "two-input-bursts", rule: super::longhist::BURST_RULE, run: run_two_input_bursts, replay: super::longhist::replay_burst, exhaustive: false }),
            Box::new(EnumSub { name: "rfc-vectors", rule: "RFC 9380 J.9.1 (msg \"\" and abc), J.9.2 (msg \"\"), J.10.1 (msg \"\") through the crate (enumerated)", run: run_kats, replay: replay_kats, exhaustive: true }),
            Box::new(EnumSub { name: "huge-messages", rule: "messages of 64 KiB .. 16 MiB (thorough: .. 256 MiB) around the sizes at which an implementation would absorb the message in pieces (2^16, 10^5, 2^17, 10^6, 2^20 +- 1, 2^20 + 12345, 2^21 + 1, 3 * 2^20 + 77777, 5 * 10^6 + 11, 2^24 + 1), two (group, mode, expander) combinations per length, through the whole pipeline vs the model", run: run_huge, replay: replay_huge, exhaustive: false }),
            Box::new(Sub { name: "g1", rule: "G1 suites vs model pipeline", quick: 3_600, thorough: 40_000, strategy: || boxed(h2c_strategy(0)), check: check_h2c }),
            Box::new(Sub { name: "g2", rule: "G2 suites vs model pipeline", quick: 1_500, thorough: 15_000, strategy: || boxed(h2c_strategy(1)), check: check_h2c }),
            Box::new(Sub { name: "related-inputs", rule: "a base input followed back to back by 1..4 related inputs (same msg / other dst, same dst / other msg, one byte appended, other expander, other mode, other group, same again), each compared with the model: the result depends only on (message, tag)", quick: 600, thorough: 15_000, strategy: || boxed(related_strategy()), check: check_related }),
        ],
        assumptions: {
            let mut v = COMMON_ASSUMPTIONS.to_vec();
            v.push("the isogeny coefficient tables of the model are a frozen copy taken from the pinned tree (DESIGN.md 2.2), anchored end-to-end by the four RFC vectors");
            v
        },
    }
}
