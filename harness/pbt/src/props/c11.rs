//! C11 - products of pairings: one Miller loop over many pairs equals the product.

use super::{PropDef, COMMON_ASSUMPTIONS};
use crate::adapt::*;
use crate::engine::{boxed, cr, Info, Sub};
use crate::recipes::*;
use num_traits::Zero;
use pairing_plus::bls12_381 as crt;
use pairing_plus::bls12_381::Bls12;
use pairing_plus::{CurveAffine, Engine};
use proptest::prelude::*;
use refmodel::consts::r;
use refmodel::curve::Pt;
use refmodel::fld::{Fld, Fq, Fq12, Fq2, Z};
use refmodel::kat::published_e_g1_g2;
use serde::{Deserialize, Serialize};

#[derive(Clone, Debug, Serialize, Deserialize, PartialEq, Eq, Hash)]
pub enum Sel {
    Identity,
    Small(u8),
    Sub(u8),
}

#[derive(Clone, Debug, Serialize, Deserialize, PartialEq, Eq, Hash)]
pub enum Item {
    /// one pair (P, Q), each optionally negated
    Pair(Sel, bool, Sel, bool),
    /// (P, Q), (-P, Q): contributes 0
    CancelTwo(Sel, Sel),
    /// (P1, Q), (P2, Q), (-(P1+P2), Q): contributes 0
    CancelThree(Sel, Sel, Sel),
    /// repeat the previous pair
    RepeatPrevious,
}

#[derive(Clone, Debug, Serialize, Deserialize, PartialEq, Eq, Hash)]
pub struct ListCase {
    pub items: Vec<Item>,
    /// orders (as rotations / reversal) in which the same prepared elements are evaluated again
    pub replays: Vec<(u8, bool)>,
    /// cycle the expanded list of pairs until it has this many entries (lists around the power-of-two sizes a
    /// chunked / windowed implementation would use: 63..66, 127..130, 255..258, 511..514, 1023..1026)
    #[serde(default)]
    pub cycle_to: Option<u16>,
}

fn sel_strategy() -> BoxedStrategy<Sel> {
    prop_oneof![
        2 => Just(Sel::Identity),
        3 => (0u8..=SMALL_MULT_MAX as u8).prop_map(Sel::Small),
        6 => (0u8..POOL_SUB as u8).prop_map(Sel::Sub),
    ]
    .boxed()
}

fn list_strategy() -> BoxedStrategy<ListCase> {
    let item = prop_oneof![
        8 => (sel_strategy(), any::<bool>(), sel_strategy(), any::<bool>()).prop_map(|(p, np, q, nq)| Item::Pair(p, np, q, nq)),
        2 => (sel_strategy(), sel_strategy()).prop_map(|(p, q)| Item::CancelTwo(p, q)),
        2 => (sel_strategy(), sel_strategy(), sel_strategy()).prop_map(|(p1, p2, q)| Item::CancelThree(p1, p2, q)),
        2 => Just(Item::RepeatPrevious),
    ];
    // mostly short lists; one in six has 8..28 items (up to ~60 pairs) so that any internal batching /
    // windowing of long lists is exercised
    let items = prop_oneof![5 => proptest::collection::vec(item.clone(), 0..7), 1 => proptest::collection::vec(item, 8..28)];
    let cyc = prop_oneof![
        40 => Just(None),
        1 => (prop_oneof![Just(64u16), Just(128u16), Just(256u16)], 0u16..4).prop_map(|(b, d)| Some(b - 1 + d)),
        1 => (prop_oneof![Just(512u16), Just(1024u16)], 0u16..4).prop_map(|(b, d)| Some(b - 1 + d)),
    ];
    (items, proptest::collection::vec((any::<u8>(), any::<bool>()), 0..3), cyc).prop_map(|(items, replays, cycle_to)| ListCase { items, replays, cycle_to }).boxed()
}

fn sel_build<G: HasPool>(s: &Sel, neg: bool) -> (Z, Pt<G::F>) {
    let pool = G::pool();
    let (a, p) = match s {
        Sel::Identity => (Z::zero(), Pt::Inf),
        Sel::Small(j) => {
            let j = *j as usize % (SMALL_MULT_MAX + 1);
            (Z::from(j as u64), pool.small_mult[j].clone())
        }
        Sel::Sub(i) => {
            let i = *i as usize % POOL_SUB;
            (pool.sub[i].0.clone(), pool.sub[i].1.clone())
        }
    };
    if neg {
        ((r() - &a) % r(), G::curve().neg(&p))
    } else {
        (a, p)
    }
}

type PairM = (Z, Pt<Fq>, Z, Pt<Fq2>);

fn expand(c: &ListCase) -> Vec<PairM> {
    let mut out: Vec<PairM> = vec![];
    for it in &c.items {
        match it {
            Item::Pair(p, np, q, nq) => {
                let (a, pm) = sel_build::<G1m>(p, *np);
                let (b, qm) = sel_build::<G2m>(q, *nq);
                out.push((a, pm, b, qm));
            }
            Item::CancelTwo(p, q) => {
                let (a, pm) = sel_build::<G1m>(p, false);
                let (an, pn) = sel_build::<G1m>(p, true);
                let (b, qm) = sel_build::<G2m>(q, false);
                out.push((a, pm, b.clone(), qm.clone()));
                out.push((an, pn, b, qm));
            }
            Item::CancelThree(p1, p2, q) => {
                let (a1, pm1) = sel_build::<G1m>(p1, false);
                let (a2, pm2) = sel_build::<G1m>(p2, false);
                let (b, qm) = sel_build::<G2m>(q, false);
                let c1 = G1m::curve();
                let p3 = c1.neg(&c1.add(&pm1, &pm2));
                let a3 = (r() + r() - &a1 - &a2) % r();
                out.push((a1, pm1, b.clone(), qm.clone()));
                out.push((a2, pm2, b.clone(), qm.clone()));
                out.push((a3, p3, b, qm));
            }
            Item::RepeatPrevious => {
                if let Some(last) = out.last().cloned() {
                    out.push(last);
                }
            }
        }
    }
    if let Some(n) = c.cycle_to {
        if !out.is_empty() {
            let base = out.clone();
            let mut i = 0;
            while out.len() < n as usize {
                out.push(base[i % base.len()].clone());
                i += 1;
            }
        }
    }
    out
}

fn check_list(c: &ListCase, info: &mut Info) -> Result<(), String> {
    let pairs = expand(c);
    let n = pairs.len();
    let mut expo = Z::zero();
    for (a, _, b, _) in &pairs {
        expo = (expo + a * b) % r();
    }
    let has_identity = pairs.iter().any(|(_, p, _, q)| p.is_inf() || q.is_inf());
    let has_cancel = c.items.iter().any(|i| matches!(i, Item::CancelTwo(_, _) | Item::CancelThree(_, _, _)));
    info.class(format!("pairs={}", if n > 32 { ">32".to_string() } else if n > 16 { "17..32".to_string() } else if n > 6 { "7..16".to_string() } else { n.to_string() }));
    let effective = pairs.iter().filter(|(_, p, _, q)| !p.is_inf() && !q.is_inf()).count();
    if effective > 16 {
        info.class("more-than-16-non-identity-pairs");
    }
    if has_identity {
        info.class("identity-in-list");
    }
    if has_cancel {
        info.class("cancelling-terms");
    }
    if expo.is_zero() && n > 0 {
        info.class("exponents-cancel-to-zero");
    }
    info.nt_if(n >= 2 && (has_identity || has_cancel));
    let want = published_e_g1_g2().pow(&expo);
    let pc: Vec<crt::G1Affine> = pairs.iter().map(|(_, p, _, _)| aff_c::<G1m>(p)).collect();
    let qc: Vec<crt::G2Affine> = pairs.iter().map(|(_, _, _, q)| aff_c::<G2m>(q)).collect();
    // prepared elements are created once and reused below
    let pp: Vec<crt::G1Prepared> = cr("prepare", || pc.iter().map(|p| p.prepare()).collect())?;
    let qp: Vec<crt::G2Prepared> = cr("prepare", || qc.iter().map(|q| q.prepare()).collect())?;
    // the pair list is handed over as every kind of iterable the signature admits (exact-size slice iterator, the
    // Vec by reference, iterators whose size_hint has lower bound 0 or no upper bound, a chain, a hand-written one)
    struct Plain<'a, T>(&'a [T], usize);
    impl<'a, T> Iterator for Plain<'a, T> {
        type Item = &'a T;
        fn next(&mut self) -> Option<&'a T> {
            let r = self.0.get(self.1);
            self.1 += 1;
            r
        }
    }
    let iter_kind = std::cell::Cell::new(c.items.len() + c.replays.len());
    let eval = |order: &[usize]| -> Result<Fq12, String> {
        let refs: Vec<(&crt::G1Prepared, &crt::G2Prepared)> = order.iter().map(|i| (&pp[*i], &qp[*i])).collect();
        let k = iter_kind.get();
        iter_kind.set(k + 1);
        let f = match k % 6 {
            0 => cr("miller_loop(slice.iter())", || Bls12::miller_loop(refs.iter()))?,
            1 => cr("miller_loop(&Vec)", || Bls12::miller_loop(&refs))?,
            2 => cr("miller_loop(iter.filter)", || Bls12::miller_loop(refs.iter().filter(|_| true)))?,
            3 => cr("miller_loop(hand-written iterator)", || Bls12::miller_loop(Plain(&refs, 0)))?,
            4 => {
                let mid = refs.len() / 2;
                cr("miller_loop(chain)", || Bls12::miller_loop(refs[..mid].iter().chain(refs[mid..].iter())))?
            }
            _ => cr("miller_loop(flat_map)", || Bls12::miller_loop(refs.chunks(3).flat_map(|ch| ch.iter())))?,
        };
        let e = cr("final_exponentiation", || Bls12::final_exponentiation(&f))?.ok_or("final_exponentiation of a Miller-loop output failed")?;
        Ok(fq12_m(&e))
    };
    let ident: Vec<usize> = (0..n).collect();
    let joint = eval(&ident)?;
    if joint != want {
        return Err(format!("joint Miller loop over {} pairs: result differs from e(g1,g2)^(sum a_i b_i) (sum = 0x{:x}): crate {:?}", n, expo, joint));
    }
    if expo.is_zero() && joint != Fq12::one() {
        return Err("cancelling exponents must give exactly 1".into());
    }
    if n > 60 {
        info.class(format!("very-long-list:{}", if n < 100 { "63..66" } else if n < 200 { "127..130" } else if n < 400 { "255..258" } else if n < 800 { "511..514" } else { "1023..1026" }));
    }
    // product of the individual pairings (product taken in the model); skipped for the very long lists
    let mut prod = Fq12::one();
    for i in 0..(if n > 80 { 0 } else { n }) {
        let e = fq12_m(&cr("pairing", || Bls12::pairing(pc[i], qc[i]))?);
        if (pairs[i].1.is_inf() || pairs[i].3.is_inf()) && e != Fq12::one() {
            return Err(format!("pair {} contains the identity but its pairing is not 1", i));
        }
        prod = prod.mul(&e);
    }
    if n <= 80 && prod != joint {
        return Err(format!("joint Miller loop over {} pairs differs from the product of the individual pairings", n));
    }
    // slice helper, and the two-pair helper
    let multi = fq12_m(&cr("pairing_multi_product", || Bls12::pairing_multi_product(&pc, &qc))?);
    if multi != want {
        return Err(format!("pairing_multi_product over {} pairs differs from e(g1,g2)^(sum a_i b_i)", n));
    }
    if n == 2 {
        info.class("two-pair-helper");
        let two = fq12_m(&cr("pairing_product", || Bls12::pairing_product(pc[0], qc[0], pc[1], qc[1]))?);
        if two != want {
            return Err("pairing_product differs from e(g1,g2)^(a1 b1 + a2 b2)".into());
        }
    }
    // prepared elements that reached their slot by clone / clone_from (a table of prepared keys refreshed in place:
    // the slots first hold the prepared identity, the prepared generator or the neighbour's element)
    if n > 0 && n <= 80 {
        let id1 = cr("prepare", || aff_c::<G1m>(&Pt::Inf).prepare())?;
        let id2 = cr("prepare", || aff_c::<G2m>(&Pt::Inf).prepare())?;
        let gen2 = cr("prepare", || aff_c::<G2m>(&G2m::gen()).prepare())?;
        let mut s1: Vec<crt::G1Prepared> = (0..n).map(|_| id1.clone()).collect();
        let mut s2: Vec<crt::G2Prepared> = (0..n).map(|i| match i % 3 { 0 => id2.clone(), 1 => gen2.clone(), _ => qp[(i + 1) % n].clone() }).collect();
        cr("clone_from", || {
            for i in 0..n {
                s1[i].clone_from(&pp[i]);
                s2[i].clone_from(&qp[i]);
            }
        })?;
        let refs: Vec<(&crt::G1Prepared, &crt::G2Prepared)> = (0..n).map(|i| (&s1[i], &s2[i])).collect();
        let f = cr("miller_loop", || Bls12::miller_loop(refs.iter()))?;
        let e = cr("final_exponentiation", || Bls12::final_exponentiation(&f))?.ok_or("final_exponentiation of a Miller-loop output failed")?;
        if fq12_m(&e) != want {
            return Err(format!("Miller loop over {} prepared pairs that were copied into occupied slots with clone_from (slots held the prepared identity / generator / a neighbour) differs from e(g1,g2)^(sum a_i b_i)", n));
        }
        let mut s3: Vec<crt::G2Prepared> = vec![id2.clone(); (n + 1) / 2];
        cr("Vec::clone_from", || s3.clone_from(&qp))?;
        let refs: Vec<(&crt::G1Prepared, &crt::G2Prepared)> = (0..n).map(|i| (&pp[i], &s3[i])).collect();
        let f = cr("miller_loop", || Bls12::miller_loop(refs.iter()))?;
        let e = cr("final_exponentiation", || Bls12::final_exponentiation(&f))?.ok_or("final_exponentiation of a Miller-loop output failed")?;
        if fq12_m(&e) != want {
            return Err(format!("Miller loop over {} prepared pairs whose G2 side was copied with Vec::clone_from into a shorter vector of prepared identities differs from e(g1,g2)^(sum a_i b_i)", n));
        }
        info.class("prepared-copied-with-clone_from");
    }
    // aliasing: equal points share ONE prepared element by reference (a key prepared once and paired with many
    // messages, a message prepared once for many keys), on the G2 side, on the G1 side, or on both, while the
    // other side keeps one prepared element per pair
    if n >= 2 && n <= 80 {
        let first_p: Vec<usize> = (0..n).map(|i| (0..=i).find(|j| pairs[*j].1 == pairs[i].1).unwrap_or(i)).collect();
        let first_q: Vec<usize> = (0..n).map(|i| (0..=i).find(|j| pairs[*j].3 == pairs[i].3).unwrap_or(i)).collect();
        let (ap, aq) = ((0..n).any(|i| first_p[i] != i), (0..n).any(|i| first_q[i] != i));
        for mode in 0..3 {
            if (mode == 0 && !aq) || (mode == 1 && !ap) || (mode == 2 && !(ap && aq)) {
                continue;
            }
            let refs: Vec<(&crt::G1Prepared, &crt::G2Prepared)> =
                (0..n).map(|i| (&pp[if mode != 0 { first_p[i] } else { i }], &qp[if mode != 1 { first_q[i] } else { i }])).collect();
            let f = cr("miller_loop", || Bls12::miller_loop(refs.iter()))?;
            let e = cr("final_exponentiation", || Bls12::final_exponentiation(&f))?.ok_or("final_exponentiation of a Miller-loop output failed")?;
            if fq12_m(&e) != want {
                return Err(format!(
                    "Miller loop over {} pairs in which equal points share one prepared element by reference ({}) differs from e(g1,g2)^(sum a_i b_i)",
                    n,
                    ["G2 side shared, G1 side one element per pair", "G1 side shared, G2 side one element per pair", "both sides shared"][mode]
                ));
            }
            info.class(format!("aliased-prepared-references:{}", ["g2", "g1", "both"][mode]));
            if mode == 0 && (0..n).any(|i| first_q[i] != i && (0..i).any(|j| first_q[j] == first_q[i] && pairs[j].1 == pairs[i].1 && !pairs[i].1.is_inf() && !pairs[i].3.is_inf())) {
                info.class("aliased-g2-with-the-same-g1-point-prepared-twice");
            }
        }
    }
    // reuse of the same prepared elements in other orders / sub-lists
    for (rot, rev) in &c.replays {
        if n == 0 {
            break;
        }
        let k = *rot as usize % n;
        let mut order: Vec<usize> = (0..n).map(|i| (i + k) % n).collect();
        if *rev {
            order.reverse();
        }
        let again = eval(&order)?;
        if again != want {
            return Err(format!("re-evaluating the same prepared elements in order {:?} gives a different result", order));
        }
        // a proper sub-list: drop the last element
        let sub = &order[..n - 1];
        let mut e2 = Z::zero();
        for i in sub {
            e2 = (e2 + &pairs[*i].0 * &pairs[*i].2) % r();
        }
        if eval(sub)? != published_e_g1_g2().pow(&e2) {
            return Err(format!("re-evaluating the sub-list {:?} of the same prepared elements gives a wrong result", sub));
        }
        info.class("prepared-reuse");
    }
    Ok(())
}

crate::long_sub!(run_long_history, [25]);

pub fn def() -> PropDef {
    PropDef {
        id: "C11",
        rule: "lists of 0..~60 pairs (one list in six is long; one in twenty is cycled to 63..66, 127..130, 255..258, 511..514 or 1023..1026 pairs) ([a_i]g1, [b_i]g2) from points with known discrete logs (identity, small multiples, pool subgroup points, negations) built from items: single pairs, (P,Q),(-P,Q), three-term cancellations (P1,Q),(P2,Q),(-(P1+P2),Q), repeated pairs; the same prepared elements re-evaluated in rotated / reversed orders and on sub-lists. Oracle: published e(g1,g2) raised to sum a_i b_i mod r in the model; exactly 1 for cancelling lists; product of the individual pairings taken in the model; pairing_multi_product and (two pairs) pairing_product agree; empty list gives 1. Non-trivial = at least 2 pairs with an identity or a cancellation; distinct = distinct cases",
        needs_pairing: true,
        subs: vec![
            Box::new(crate::engine::EnumSub { name: "long-history", rule: super::longhist::RULE, run: run_long_history, replay: super::longhist::replay, exhaustive: false }),
            Box::new(crate::engine::EnumSub { name: "two-input-bursts", rule: super::longhist::BURST_RULE, run: run_two_input_bursts, replay: super::longhist::replay_burst, exhaustive: false }),Box::new(Sub { name: "pair-lists", rule: "final_exponentiation(miller_loop(list)) == published^(sum a_i b_i) == product of singles == helpers; the pair list passed as six kinds of iterable (exact and inexact size hints); prepared reuse, prepared elements copied into occupied slots with clone_from, equal points sharing one prepared element by reference (G2 side, G1 side, both)", quick: 2_800, thorough: 25_000, strategy: || boxed(list_strategy()), check: check_list })],
        assumptions: {
            let mut v = COMMON_ASSUMPTIONS.to_vec();
            v.push("pairing_multi_product is only called with slices of equal length, as the property states");
            v
        },
    }
}
