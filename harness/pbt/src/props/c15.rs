//! C15 - simplified SWU maps every field element onto the isogenous curve, per RFC 9380.

use super::c14::URecipe;
use super::{PropDef, COMMON_ASSUMPTIONS};
use crate::adapt::*;
use crate::engine::{boxed, cr, Ctx, EnumSub, Info, Sub};
use crate::recipes::*;
use pairing_plus::bls12_381 as crt;
use pairing_plus::bls12_381::verif_hooks::{chain_p2m9div16, chain_pm3div4, osswu_g1_consts, osswu_g2_consts, OSSWUMap};
use proptest::prelude::*;
use refmodel::consts::q;
use refmodel::curve::{e1_iso, e2_iso, Pt};
use refmodel::fld::{Fld, Fq, Fq2, SqrtFld, Z};
use refmodel::h2c;
use serde::{Deserialize, Serialize};
use serde_json::{json, Value};

#[derive(Clone, Debug, Serialize, Deserialize, PartialEq, Eq, Hash)]
pub struct SwuCase {
    pub group: u8,
    pub t: URecipe,
    pub negate: bool,
}

fn t_strategy() -> BoxedStrategy<URecipe> {
    prop_oneof![
        14 => fq2_strategy().prop_map(URecipe::Fe),
        1 => Just(URecipe::Zero),
        1 => Just(URecipe::One),
        1 => Just(URecipe::MinusOne),
        2 => any::<bool>().prop_map(URecipe::Exceptional),
        1 => any::<u16>().prop_map(URecipe::StagePreimage),
        5 => (0u8..4, 0u8..4, fq_strategy(), 0u8..4).prop_map(|(stage, shape, c, pick)| URecipe::Structured { stage, shape, c, pick }),
        2 => (fq_strategy(), any::<u8>()).prop_map(|(y, p)| URecipe::FromY(y, p)),
    ]
    .boxed()
}

fn swu_case_strategy(group: u8) -> BoxedStrategy<SwuCase> {
    (t_strategy(), any::<bool>()).prop_map(move |(t, negate)| SwuCase { group, t, negate }).boxed()
}

fn t_g1(c: &SwuCase) -> Fq {
    let t = match &c.t {
        URecipe::Fe(f) => {
            let v = f.build();
            if v.c0.is_zero() { v.c1 } else { v.c0 }
        }
        URecipe::Zero => Fq::zero(),
        URecipe::One => Fq::one(),
        URecipe::MinusOne => Fq::one().neg(),
        URecipe::Exceptional(s) => {
            let (a, b) = h2c::g1_exceptional_roots();
            if *s { a } else { b }
        }
        URecipe::StagePreimage(_) | URecipe::Structured { .. } | URecipe::FromY(_, _) => super::c14::u_g1(&c.t),
    };
    if c.negate { t.neg() } else { t }
}

fn t_g2(c: &SwuCase) -> Fq2 {
    let t = match &c.t {
        URecipe::Fe(f) => f.build(),
        URecipe::Zero => Fq2::zero(),
        URecipe::One => Fq2::one(),
        URecipe::MinusOne => Fq2::one().neg(),
        URecipe::Exceptional(s) => {
            let (a, b) = h2c::g1_exceptional_roots();
            Fq2::new(Fq::zero(), if *s { a } else { b })
        }
        URecipe::StagePreimage(_) | URecipe::Structured { .. } | URecipe::FromY(_, _) => super::c14::u_g2(&c.t),
    };
    if c.negate { t.neg() } else { t }
}

fn check_swu(c: &SwuCase, info: &mut Info) -> Result<(), String> {
    if let Some(cl) = super::c14::structured_class(c.group, &c.t) {
        info.class(cl);
    }
    if let URecipe::FromY(y, p) = &c.t {
        if c.group == 0 {
            info.class(if super::c14::u_from_y_g1(&y.fq(), *p).is_some() { "t-constructed-from-a-prescribed-output-ordinate" } else { "t-from-ordinate:no-such-input (value used as t)" });
        }
    }
    if matches!(c.t, URecipe::StagePreimage(_)) {
        info.class("t-sswu-preimage-of-stage-special-point");
    }
    if c.group == 0 {
        let t = t_g1(c);
        let curve = e1_iso();
        let want = h2c::sswu_g1(&t);
        if !curve.on_curve(&want) || want.is_inf() {
            return Err("model SSWU left the isogenous curve (harness bug)".into());
        }
        let exceptional = h2c::sswu_is_exceptional(&h2c::z1(), &t);
        let x1 = h2c::sswu_uses_x1(&curve, &h2c::z1(), &t);
        info.class(format!("G1:{}:{}:sgn0(t)={}", if exceptional { "exceptional" } else { "regular" }, if x1 { "g(x1)-square" } else { "g(x1)-non-square" }, t.sgn0()));
        info.nt_if(!(t.is_zero() || t == Fq::one() || t == Fq::one().neg()));
        let got = cr("osswu_map", || <crt::G1 as OSSWUMap>::osswu_map(&fq_c(&t)))?;
        let gm = proj_m::<G1m>(&got);
        if gm.is_inf() {
            return Err(format!("G1 osswu_map({:?}) returned Z = 0", t));
        }
        if gm != want {
            return Err(format!("G1 osswu_map({:?}): crate {} but RFC map_to_curve_simple_swu gives {}", t, pt_brief(&gm), pt_brief(&want)));
        }
        if let Pt::Aff(_, y) = &gm {
            if y.sgn0() != t.sgn0() {
                return Err(format!("G1 osswu_map({:?}): sgn0(y) != sgn0(t)", t));
            }
        }
    } else {
        let t = t_g2(c);
        let curve = e2_iso();
        let want = h2c::sswu_g2(&t);
        if !curve.on_curve(&want) || want.is_inf() {
            return Err("model SSWU left the isogenous curve (harness bug)".into());
        }
        match h2c::sswu_g2_cell(&t) {
            Some((sq, idx, sg)) => info.class(format!("G2-cell:{}:multiplier#{}:sgn0(t)={}", if sq { "g(x1)-square" } else { "g(x1)-non-square" }, idx, sg)),
            None => info.class("G2-cell:exceptional-or-degenerate"),
        }
        if t.c0.is_zero() || t.c1.is_zero() {
            info.class("G2:t-with-zero-component");
        }
        info.nt_if(!(t.is_zero() || t == Fq2::one() || t == Fq2::one().neg()));
        let got = cr("osswu_map", || <crt::G2 as OSSWUMap>::osswu_map(&fq2_c(&t)))?;
        let gm = proj_m::<G2m>(&got);
        if gm.is_inf() {
            return Err(format!("G2 osswu_map({:?}) returned Z = 0", t));
        }
        if gm != want {
            return Err(format!("G2 osswu_map({:?}): crate {} but RFC map_to_curve_simple_swu gives {}", t, pt_brief(&gm), pt_brief(&want)));
        }
        if let Pt::Aff(_, y) = &gm {
            if y.sgn0() != t.sgn0() {
                return Err(format!("G2 osswu_map({:?}): sgn0(y) != sgn0(t)", t));
            }
        }
    }
    Ok(())
}

/// t, -t, t, ... and another t' evaluated back to back
#[derive(Clone, Debug, Serialize, Deserialize, PartialEq, Eq, Hash)]
pub struct SwuSeq {
    pub group: u8,
    pub t: URecipe,
    pub other: URecipe,
    pub pattern: Vec<u8>,
}

fn swu_seq_strategy() -> BoxedStrategy<SwuSeq> {
    (0u8..2, t_strategy(), t_strategy(), proptest::collection::vec(0u8..4, 2..6)).prop_map(|(group, t, other, pattern)| SwuSeq { group, t, other, pattern }).boxed()
}

fn check_swu_seq(c: &SwuSeq, info: &mut Info) -> Result<(), String> {
    for (i, p) in c.pattern.iter().enumerate() {
        let case = match p % 4 {
            0 => SwuCase { group: c.group, t: c.t.clone(), negate: false },
            1 => SwuCase { group: c.group, t: c.t.clone(), negate: true },
            2 => SwuCase { group: c.group, t: c.other.clone(), negate: false },
            _ => SwuCase { group: 1 - c.group % 2, t: c.t.clone(), negate: false },
        };
        let mut tmp = Info::default();
        check_swu(&case, &mut tmp).map_err(|m| format!("call #{} of a sequence on related inputs: {}", i, m))?;
    }
    info.nt();
    Ok(())
}

// ---- the two addition chains -------------------------------------------------------------------

#[derive(Clone, Debug, Serialize, Deserialize, PartialEq, Eq, Hash)]
pub struct ChainCase {
    pub a: Fq2R,
}

fn chain_strategy() -> BoxedStrategy<ChainCase> {
    fq2_strategy().prop_map(|a| ChainCase { a }).boxed()
}

fn check_chain(c: &ChainCase, info: &mut Info) -> Result<(), String> {
    let a2 = c.a.build();
    let a1 = a2.c0.clone();
    info.nt_if(!(a2.is_zero() || a2 == Fq2::one()));
    let e1 = (q() - Z::from(3u32)) / Z::from(4u32);
    let mut out = crt::Fq::default_zero();
    let inp = fq_c(&a1);
    cr("chain_pm3div4", || chain_pm3div4(&mut out, &inp))?;
    let want = a1.pow(&e1);
    if fq_m(&out) != want {
        return Err(format!("chain_pm3div4({:?}) = {:?} but a^((q-3)/4) = {:?}", a1, fq_m(&out), want));
    }
    let e2 = (q() * q() - Z::from(9u32)) / Z::from(16u32);
    let mut out2 = fq2_c(&Fq2::zero());
    let inp2 = fq2_c(&a2);
    cr("chain_p2m9div16", || chain_p2m9div16(&mut out2, &inp2))?;
    let want2 = a2.pow(&e2);
    if fq2_m(&out2) != want2 {
        return Err(format!("chain_p2m9div16({:?}) = {:?} but a^((q^2-9)/16) = {:?}", a2, fq2_m(&out2), want2));
    }
    Ok(())
}

trait DefaultZero {
    fn default_zero() -> Self;
}
impl DefaultZero for crt::Fq {
    fn default_zero() -> Self {
        use ff_zeroize::Field;
        crt::Fq::zero()
    }
}

// ---- constants (diagnostic: recorded, a difference alone is not a violation) -----------------------

fn run_consts(_ctx: &Ctx, rec: &mut dyn FnMut(Value, Info)) -> Result<(), (String, Value)> {
    let c1 = osswu_g1_consts();
    let m1 = e1_iso();
    let ok1 = fq_m(&c1[0]) == m1.a && fq_m(&c1[1]) == m1.b && fq_m(&c1[2]) == h2c::z1();
    let (c2, _etas, _rous) = osswu_g2_consts();
    let m2 = e2_iso();
    let ok2 = fq2_m(&c2[0]) == m2.a && fq2_m(&c2[1]) == m2.b && fq2_m(&c2[2]) == h2c::z2();
    for (name, ok) in [("G1 (A', B', Z) equal RFC 8.8.1", ok1), ("G2 (A', B', Z) equal RFC 8.8.2", ok2)] {
        let mut info = Info::default();
        info.nt();
        info.class(format!("diagnostic:{}={}", name, ok));
        rec(json!({"diagnostic": name, "equal": ok}), info);
    }
    Ok(())
}

fn replay_consts(_v: &Value) -> Result<(), String> {
    Ok(())
}

crate::long_sub!(run_long_history, [5, 6]);

pub fn def() -> PropDef {
    PropDef {
        id: "C15",
        rule: "t in Fq (G1) / Fq2 (G2) from the field-element generator (boundary + uniform, zero components, purely real / imaginary), 0, +-1, the SSWU-exceptional roots +-sqrt(-1/11) (Fq), each also negated; every case is classified by the model into its branch cell: (g(x1) square?) x (which of the four root-of-unity / eta multipliers the textbook candidate root needs, defined as N/(c^2 D) without any crate constant) x sgn0(t) - 16 cells for G2, 4 for G1 plus the exceptional class. Oracle: RFC 9380 6.6.2 straight-line map in the model (x = first candidate with square right-hand side, sgn0(y) = sgn0(t), exceptional x = B'/(Z A')), output compared as an affine point of E'; Z != 0; no panic; addition chains vs model powers. Non-trivial = t not in {0, +-1}; distinct = distinct cases",
        needs_pairing: false,
        subs: vec![
            Box::new(crate::engine::EnumSub { name: "long-history", rule: super::longhist::RULE, run: run_long_history, replay: super::longhist::replay, exhaustive: false }),
            Box::new(crate::engine::EnumSub { name: "two-input-bursts", rule: super::longhist::BURST_RULE, run: run_two_input_bursts, replay: super::longhist::replay_burst, exhaustive: false }),
            Box::new(Sub { name: "g1-sswu", rule: "G1 osswu_map vs RFC map_to_curve_simple_swu (Z = 11)", quick: 18_000, thorough: 100_000, strategy: || boxed(swu_case_strategy(0)), check: check_swu }),
            Box::new(Sub { name: "g2-sswu", rule: "G2 osswu_map vs RFC map_to_curve_simple_swu (Z = -(2+I)), 16 branch cells measured", quick: 9_000, thorough: 50_000, strategy: || boxed(swu_case_strategy(1)), check: check_swu }),
            Box::new(Sub { name: "related-sequences", rule: "2..5 calls back to back on t, -t, another t', the other group: each compared with the model", quick: 1_500, thorough: 40_000, strategy: || boxed(swu_seq_strategy()), check: check_swu_seq }),
            Box::new(Sub { name: "chains", rule: "chain_pm3div4(a) = a^((q-3)/4), chain_p2m9div16(a) = a^((q^2-9)/16)", quick: 9_000, thorough: 50_000, strategy: || boxed(chain_strategy()), check: check_chain }),
            Box::new(EnumSub { name: "constants-diagnostic", rule: "hook constants (A', B', Z) compared with the RFC values: recorded only", run: run_consts, replay: replay_consts, exhaustive: true }),
        ],
        assumptions: {
            let mut v = COMMON_ASSUMPTIONS.to_vec();
            v.push("hooks: OSSWUMap trait, the two chains and the constants are reached through the verif-hooks feature");
            v
        },
    }
}
