//! C03 - the pairing is bilinear, non-degenerate and is the standard ate pairing.

use super::{PropDef, COMMON_ASSUMPTIONS};
use crate::adapt::*;
use crate::engine::{boxed, cr, Ctx, EnumSub, Info, Sub};
use crate::recipes::*;
use num_traits::{One, Zero};
use pairing_plus::bls12_381 as crt;
use pairing_plus::bls12_381::Bls12;
use pairing_plus::{CurveAffine, Engine};
use proptest::prelude::*;
use refmodel::consts::r;
use refmodel::curve::{e1, e2, g1_gen, g2_gen};
use refmodel::fld::{Fld, Fq12, Z};
use refmodel::kat::published_e_g1_g2;
use refmodel::pairing as mp;
use serde::{Deserialize, Serialize};
use serde_json::{json, Value};

/// a point with known discrete log: (pool base) times a scalar
#[derive(Clone, Debug, Serialize, Deserialize, PartialEq, Eq, Hash)]
pub struct DlogPt {
    /// None: generator; Some(i): pool subgroup point i
    pub base: Option<u8>,
    pub k: ScalarR,
    /// Some(i): instead, the i-th subgroup point of corpus/banded-points.json (a coordinate in a numerically special
    /// band - leading bits equal to those of q or zero, low 16 bits 0 / 1 / all ones); its scalar is the discrete log
    #[serde(default)]
    pub banded: Option<u16>,
}

fn dlog_strategy() -> BoxedStrategy<DlogPt> {
    (proptest::option::weighted(0.7, 0u8..POOL_SUB as u8), scalar_strategy(), proptest::option::weighted(0.2, any::<u16>())).prop_map(|(base, k, banded)| DlogPt { base, k, banded }).boxed()
}

/// discrete log (mod r) w.r.t. the generator
fn dlog<G: HasPool>(p: &DlogPt) -> Z {
    if let Some(i) = p.banded {
        let l = banded_list(G::NAME == "G2");
        if !l.is_empty() {
            return l[(i as usize * l.len()) >> 16].0.clone() % r();
        }
    }
    let a0 = match p.base {
        None => Z::one(),
        Some(i) => G::pool().sub[i as usize % POOL_SUB].0.clone(),
    };
    (a0 * p.k.build_r()) % r()
}

#[derive(Clone, Debug, Serialize, Deserialize, PartialEq, Eq, Hash)]
pub struct PairCase {
    pub p: DlogPt,
    pub q: DlogPt,
    /// Jacobian representatives in which the same points are handed to Engine::pairing as PROJECTIVE values
    /// (the engine converts them: an inversion of Z in Fq resp. Fq2)
    #[serde(default)]
    pub reps: Option<(RepR, RepR)>,
}

fn pair_strategy() -> BoxedStrategy<PairCase> {
    (dlog_strategy(), dlog_strategy(), proptest::option::weighted(0.6, (rep_strategy(), rep_strategy()))).prop_map(|(p, q, reps)| PairCase { p, q, reps }).boxed()
}

fn classify(c: &PairCase, a: &Z, b: &Z, info: &mut Info) {
    info.class(format!("a:{}", c.p.k.class()));
    if a.is_zero() || b.is_zero() {
        info.class("identity-operand");
    }
    if c.p.banded.is_some() {
        info.class("g1-operand-with-banded-coordinate");
    }
    if c.q.banded.is_some() {
        info.class("g2-operand-with-banded-coordinate");
    }
    if a.is_zero() && b.is_zero() {
        info.class("both-identity");
    }
    let ab = (a * b) % r();
    let triv = ab.is_zero() || ab.is_one() || ab == r() - Z::one();
    info.nt_if(!a.is_zero() && !b.is_zero() && !triv);
}

fn check_relations(c: &PairCase, info: &mut Info) -> Result<(), String> {
    let a = dlog::<G1m>(&c.p);
    let b = dlog::<G2m>(&c.q);
    classify(c, &a, &b, info);
    let pm = e1().mul(&a, &g1_gen());
    let qm = e2().mul(&b, &g2_gen());
    let (pc, qc) = (aff_c::<G1m>(&pm), aff_c::<G2m>(&qm));
    let e = fq12_m(&cr("Engine::pairing", || Bls12::pairing(pc, qc))?);
    // bilinearity against the published e(g1,g2): e([a]g1,[b]g2) = e(g1,g2)^(ab)
    let ab = (&a * &b) % r();
    let want = published_e_g1_g2().pow(&ab);
    if e != want {
        return Err(format!("e([a]g1,[b]g2) != e(g1,g2)^(ab) for a = 0x{:x}, b = 0x{:x}: crate {:?}, expected {:?}", a, b, e, want));
    }
    // non-degeneracy: 1 exactly when an argument is the identity
    let is_one = e == Fq12::one();
    if is_one != (pm.is_inf() || qm.is_inf()) {
        return Err(format!("e(P,Q) = 1 must hold exactly when P or Q is the identity (a = 0x{:x}, b = 0x{:x}, e = 1: {})", a, b, is_one));
    }
    // the same points as projective values in generated representatives
    if let Some((rp_, rq_)) = &c.reps {
        let pj = rep_build::<G1m>(&pm, rp_);
        let qj = rep_build::<G2m>(&qm, rq_);
        let ej = fq12_m(&cr("Engine::pairing (projective arguments)", || Bls12::pairing(pj, qj))?);
        if ej != want {
            return Err(format!("e(P,Q) for projective arguments in the representatives {:?}, {:?} differs from e(g1,g2)^(ab) (a = 0x{:x}, b = 0x{:x})", rp_, rq_, a, b));
        }
        info.class("projective-arguments-in-generated-representatives");
    }
    // both call directions
    let e1_ = fq12_m(&cr("G1Affine::pairing_with", || pc.pairing_with(&qc))?);
    let e2_ = fq12_m(&cr("G2Affine::pairing_with", || qc.pairing_with(&pc))?);
    if e1_ != e || e2_ != e {
        return Err(format!("pairing_with differs between call directions (a = 0x{:x}, b = 0x{:x})", a, b));
    }
    Ok(())
}

fn check_reference(c: &PairCase, info: &mut Info) -> Result<(), String> {
    let a = dlog::<G1m>(&c.p);
    let b = dlog::<G2m>(&c.q);
    classify(c, &a, &b, info);
    let pm = e1().mul(&a, &g1_gen());
    let qm = e2().mul(&b, &g2_gen());
    let e = fq12_m(&cr("Engine::pairing", || Bls12::pairing(aff_c::<G1m>(&pm), aff_c::<G2m>(&qm)))?);
    let want = mp::pairing(&pm, &qm);
    if e != want {
        return Err(format!("pairing differs from the textbook reduced ate pairing for a = 0x{:x}, b = 0x{:x}: crate {:?}, textbook {:?}", a, b, e, want));
    }
    // order divides r
    if e.pow(r()) != Fq12::one() {
        return Err(format!("e(P,Q)^r != 1 for a = 0x{:x}, b = 0x{:x}", a, b));
    }
    Ok(())
}

// ---- operands computed by the crate's own arithmetic ------------------------------------------------------
// (an identity reached by P + (-P) or [r]P carries left-over coordinates; it must still pair to 1)

#[derive(Clone, Debug, Serialize, Deserialize, PartialEq, Eq, Hash)]
pub enum How {
    /// [k]B by mul_assign on the projective value
    MulAssign(ScalarR),
    /// [k]B by CurveAffine::mul
    AffMul(ScalarR),
    /// B + (-B) by add_assign
    AddNeg,
    /// B - B by sub_assign_mixed
    SubMixedSelf,
    /// ([k]B) doubled, then the original added back twice negated: 2[k]B - [k]B - [k]B
    DoubleMinusTwice(ScalarR),
    /// the value as built from coordinates
    Plain,
}

#[derive(Clone, Debug, Serialize, Deserialize, PartialEq, Eq, Hash)]
pub struct ComputedCase {
    pub i: u8,
    pub how_p: How,
    pub j: u8,
    pub how_q: How,
    /// hand the projective values to Engine::pairing (true) or convert with into_affine first (false)
    pub projective_args: bool,
}

fn how_strategy() -> BoxedStrategy<How> {
    let k = || prop_oneof![3 => scalar_strategy(), 2 => (0u8..3).prop_map(ScalarR::NearR), 2 => (0u8..5, -8i16..=8).prop_map(|(m, d)| ScalarR::NearMultR(m, d)), 1 => Just(ScalarR::Zero)];
    prop_oneof![
        3 => k().prop_map(How::MulAssign),
        3 => k().prop_map(How::AffMul),
        2 => Just(How::AddNeg),
        2 => Just(How::SubMixedSelf),
        1 => k().prop_map(How::DoubleMinusTwice),
        3 => Just(How::Plain),
    ]
    .boxed()
}

fn computed_strategy() -> BoxedStrategy<ComputedCase> {
    (0u8..POOL_SUB as u8, how_strategy(), 0u8..POOL_SUB as u8, how_strategy(), any::<bool>()).prop_map(|(i, how_p, j, how_q, projective_args)| ComputedCase { i, how_p, j, how_q, projective_args }).boxed()
}

/// (crate value, discrete log w.r.t. the generator)
fn compute<G: HasPool>(idx: u8, how: &How) -> Result<(G::Proj, Z), String> {
    let (a0, bm) = {
        let e = &G::pool().sub[idx as usize % POOL_SUB];
        (e.0.clone(), e.1.clone())
    };
    let b = proj_c::<G>(&bm);
    let ba = aff_c::<G>(&bm);
    let rep = |k: &Z| pairing_plus::bls12_381::FrRepr(scalar_limbs(k));
    Ok(match how {
        How::Plain => (b, a0),
        How::MulAssign(k) => {
            let kz = k.build();
            let mut t = b;
            cr("mul_assign", || G::op_mul_assign(&mut t, rep(&kz)))?;
            (t, (a0 * kz) % r())
        }
        How::AffMul(k) => {
            let kz = k.build();
            (cr("mul", || G::op_aff_mul(&ba, rep(&kz)))?, (a0 * kz) % r())
        }
        How::AddNeg => {
            let mut n = b;
            cr("negate", || G::op_neg(&mut n))?;
            let mut t = b;
            cr("add_assign", || G::op_add(&mut t, &n))?;
            (t, Z::zero())
        }
        How::SubMixedSelf => {
            let mut t = b;
            cr("sub_assign_mixed", || G::op_sub_mixed(&mut t, &ba))?;
            (t, Z::zero())
        }
        How::DoubleMinusTwice(k) => {
            let kz = k.build();
            let mut t = b;
            cr("mul_assign", || G::op_mul_assign(&mut t, rep(&kz)))?;
            let orig = t;
            cr("double", || G::op_double(&mut t))?;
            cr("sub", || G::op_sub(&mut t, &orig))?;
            cr("sub", || G::op_sub(&mut t, &orig))?;
            (t, Z::zero())
        }
    })
}

fn check_computed(c: &ComputedCase, info: &mut Info) -> Result<(), String> {
    let (p, a) = compute::<G1m>(c.i, &c.how_p)?;
    let (q, b) = compute::<G2m>(c.j, &c.how_q)?;
    let p_id = a.is_zero();
    let q_id = b.is_zero();
    if p_id && !matches!(c.how_p, How::Plain) {
        info.class("G1-identity-reached-by-arithmetic");
    }
    if q_id && !matches!(c.how_q, How::Plain) {
        info.class("G2-identity-reached-by-arithmetic");
    }
    info.nt_if(p_id || q_id || !matches!((&c.how_p, &c.how_q), (How::Plain, How::Plain)));
    let e = if c.projective_args {
        fq12_m(&cr("Engine::pairing(projective, projective)", || Bls12::pairing(p, q))?)
    } else {
        let (pa, qa) = (cr("into_affine", || G1m::op_to_affine(&p))?, cr("into_affine", || G2m::op_to_affine(&q))?);
        fq12_m(&cr("pairing_with", || pa.pairing_with(&qa))?)
    };
    let want = published_e_g1_g2().pow(&((&a * &b) % r()));
    if e != want {
        return Err(format!(
            "pairing of operands computed by the crate ({:?} on pool point {}, {:?} on pool point {}): result differs from e(g1,g2)^(ab) with a = 0x{:x}, b = 0x{:x}{}",
            c.how_p,
            c.i,
            c.how_q,
            c.j,
            a,
            b,
            if p_id || q_id { " (an operand is the identity: the pairing must be exactly 1)" } else { "" }
        ));
    }
    Ok(())
}

// ---- call histories: the value must not depend on earlier calls --------------------------------------

/// a point drawn from a tiny set so that related points (same point, its negation = same x /
/// opposite y, its beta-twist = same y / other x) meet in consecutive calls
#[derive(Clone, Debug, Serialize, Deserialize, PartialEq, Eq, Hash)]
pub struct HPt {
    pub idx: u8,
    pub neg: bool,
    /// multiply x by beta^k (the endomorphism (x,y) -> (beta x, y) acts as a scalar lambda^k on the subgroup)
    pub beta: u8,
}

#[derive(Clone, Debug, Serialize, Deserialize, PartialEq, Eq, Hash)]
pub struct HistCase {
    pub calls: Vec<(HPt, HPt, u8)>,
}

fn hpt_strategy() -> BoxedStrategy<HPt> {
    (0u8..3, any::<bool>(), prop_oneof![4 => Just(0u8), 1 => Just(1u8), 1 => Just(2u8)]).prop_map(|(idx, neg, beta)| HPt { idx, neg, beta }).boxed()
}

fn hist_strategy() -> BoxedStrategy<HistCase> {
    proptest::collection::vec((hpt_strategy(), hpt_strategy(), 0u8..3), 2..7).prop_map(|calls| HistCase { calls }).boxed()
}

fn hpt_build<G: HasPool>(h: &HPt) -> refmodel::curve::Pt<G::F> {
    let base = PointR::Sub(h.idx);
    let p = if h.beta % 3 == 0 { base } else { PointR::Beta(Box::new(base), h.beta % 3) };
    let p = if h.neg { PointR::Neg(Box::new(p)) } else { p };
    p.build::<G>()
}

fn check_history(c: &HistCase, info: &mut Info) -> Result<(), String> {
    let mut related = false;
    let mut prev: Option<(HPt, HPt)> = None;
    for (i, (hp, hq, how)) in c.calls.iter().enumerate() {
        let pm = hpt_build::<G1m>(hp);
        let qm = hpt_build::<G2m>(hq);
        if let Some((pp, pq)) = &prev {
            if (pq.idx == hq.idx && pq != hq) || (pp.idx == hp.idx && pp != hp) {
                related = true;
                info.class("consecutive-calls-on-related-points (same x / same y)");
            }
            if pq == hq || pp == hp {
                info.class("consecutive-calls-on-the-same-point");
            }
        }
        prev = Some((hp.clone(), hq.clone()));
        let (pc, qc) = (aff_c::<G1m>(&pm), aff_c::<G2m>(&qm));
        let e = match how % 3 {
            0 => fq12_m(&cr("Engine::pairing", || Bls12::pairing(pc, qc))?),
            1 => fq12_m(&cr("pairing_with", || pc.pairing_with(&qc))?),
            _ => fq12_m(&cr("pairing_with", || qc.pairing_with(&pc))?),
        };
        // oracle independent of any history: the textbook pairing of exactly these two points
        let want = mp::pairing(&pm, &qm);
        if e != want {
            return Err(format!("call #{} of the history: pairing of {:?} and {:?} differs from the textbook value (the same call may be right in isolation: result depends on earlier calls?)", i, hp, hq));
        }
    }
    info.nt_if(related);
    Ok(())
}

fn kat(_i: u64) -> Result<(), String> {
    let e = fq12_m(&cr("pairing", || Bls12::pairing(aff_c::<G1m>(&g1_gen()), aff_c::<G2m>(&g2_gen())))?);
    if e != published_e_g1_g2() {
        return Err(format!("e(g1,g2) = {:?} differs from the published value", e));
    }
    Ok(())
}

fn run_kat(_ctx: &Ctx, rec: &mut dyn FnMut(Value, Info)) -> Result<(), (String, Value)> {
    for i in 0..2u64 {
        kat(i).map_err(|m| (m, json!({"kat": i})))?;
        let mut info = Info::default();
        info.nt();
        info.class("published e(g1,g2)");
        rec(json!({"kat": i, "evaluation": if i == 0 { "first" } else { "repeated" }}), info);
    }
    Ok(())
}

fn replay_kat(v: &Value) -> Result<(), String> {
    kat(v["kat"].as_u64().unwrap_or(0))
}

// ---- a long-lived thread: thousands of distinct arguments, then known pairs again ------------------------

fn long_history_case(n: usize, side: u8, seed: u64) -> Result<(), String> {
    use pairing_plus::CurveProjective;
    let (a0, p0) = &G1m::pool().sub[seed as usize % POOL_SUB];
    let (b0, q0) = &G2m::pool().sub[(seed / 5) as usize % POOL_SUB];
    let res: Result<(), String> = std::thread::scope(|sc| {
        sc.spawn(|| {
            let g1 = aff_c::<G1m>(&G1m::gen());
            let g2 = aff_c::<G2m>(&G2m::gen());
            let pa = aff_c::<G1m>(p0);
            let qa = aff_c::<G2m>(q0);
            let mut t1 = proj_c::<G1m>(p0);
            let mut t2 = proj_c::<G2m>(q0);
            let mut kept: Vec<(usize, crt::G1Affine, crt::G2Affine)> = vec![];
            for i in 0..n {
                let (x1, x2) = if side == 0 { (pa, t2.into_affine()) } else { (t1.into_affine(), qa) };
                let _ = cr("pairing", || Bls12::pairing(x1, x2))?;
                if i < 12 || i + 12 >= n || i % std::cmp::max(1, n / 16) == 0 {
                    kept.push((i, x1, x2));
                }
                if side == 0 {
                    t2.add_assign_mixed(&g2);
                } else {
                    t1.add_assign_mixed(&g1);
                }
            }
            // the kept pairs again, now against the definition: e = published^((a0 + i)(b0)) resp. ^(a0 (b0 + i))
            for (i, x1, x2) in kept.iter().chain(kept.iter().rev()) {
                let e = cr("pairing", || Bls12::pairing(*x1, *x2))?;
                let (a, b) = if side == 0 { (a0.clone(), b0 + Z::from(*i as u64)) } else { (a0 + Z::from(*i as u64), b0.clone()) };
                let want = published_e_g1_g2().pow(&((&a * &b) % r()));
                if fq12_m(&e) != want {
                    return Err(format!("after {} pairings with distinct {} arguments on one thread, the pairing of pair #{} evaluated again differs from e(g1,g2)^(ab)", n, if side == 0 { "G2" } else { "G1" }, i));
                }
            }
            Ok(())
        })
        .join()
        .map_err(|_| "harness: worker thread panicked".to_string())?
    });
    res
}

fn run_long(ctx: &Ctx, rec: &mut dyn FnMut(Value, Info)) -> Result<(), (String, Value)> {
    let _ = (G1m::pool(), G2m::pool());
    let n = if ctx.tier == crate::engine::Tier::Quick { 2_300 } else { 9_000 };
    let seed = ctx.seed;
    let res = crate::engine::par_map(ctx.threads, 2, |i| long_history_case(n, i as u8, seed));
    for (i, r) in res.into_iter().enumerate() {
        let case = json!({"n": n, "side": i, "seed": seed});
        r.map_err(|m| (m, case.clone()))?;
        let mut info = Info::default();
        info.nt();
        info.class(format!("distinct-{}-arguments:n={}", if i == 0 { "G2" } else { "G1" }, n));
        rec(case, info);
    }
    Ok(())
}

fn replay_long(v: &Value) -> Result<(), String> {
    long_history_case(v["n"].as_u64().unwrap_or(2300) as usize, v["side"].as_u64().unwrap_or(0) as u8, v["seed"].as_u64().unwrap_or(0))
}

pub fn def() -> PropDef {
    PropDef {
        id: "C03",
        rule: "P = [a]g1, Q = [b]g2 built by the model from pool points with known discrete logs times structured scalars (0, 1, r-1, r, r+1, single bits, word-straddling patterns, 2^255-1, 2^256-1, uniform: values >= r included), so identities occur on either or both sides. Oracles: (i) textbook reduced ate pairing over the flat Fq12 (exact equality of all 12 coefficients) on a subset; (ii) the published e(g1,g2); (iii) e([a]g1,[b]g2) = published^(ab) with the power taken in the model; (iv) e^r = 1; (v) e = 1 iff P = O or Q = O; (vi) both pairing_with directions equal Engine::pairing; (vii) call histories on related points (negations, beta-twists) give history-independent values. Non-trivial = both points non-identity and ab not in {0, +-1}; distinct = distinct cases",
        needs_pairing: true,
        subs: vec![
            Box::new(EnumSub { name: "published-value", rule: "e(g1,g2) equals the published value (enumerated: evaluated twice)", run: run_kat, replay: replay_kat, exhaustive: true }),
            Box::new(Sub { name: "textbook-reference", rule: "crate pairing == textbook ate pairing (model), e^r = 1", quick: 120, thorough: 3000, strategy: || boxed(pair_strategy()), check: check_reference }),
            Box::new(Sub { name: "call-histories", rule: "sequences of 2..6 pairing calls on one thread over a tiny point set closed under negation (same x, opposite y) and the beta-twist (same y, other x), each compared with the textbook pairing: the value must not depend on earlier calls", quick: 50, thorough: 1500, strategy: || boxed(hist_strategy()), check: check_history }),
            Box::new(EnumSub { name: "long-history", rule: "one worker thread evaluates 2300 (quick) / 9000 (thorough) pairings with DISTINCT G2 (resp. G1) arguments Q_0 + i g2, then a sample of the earlier pairs again, forwards and backwards, each compared with published^(ab) (a bounded cache of prepared arguments that misbehaves once full)", run: run_long, replay: replay_long, exhaustive: false }),
            Box::new(Sub { name: "computed-operands", rule: "operands produced by the crate's own arithmetic on pool points with known discrete logs ([k]B by mul_assign / CurveAffine::mul with k incl. 0, r-1, r, r+1; B + (-B); B - B mixed; 2[k]B - [k]B - [k]B), passed as projective values or through into_affine: e == published^(ab), in particular exactly 1 when an operand is an identity reached by arithmetic", quick: 600, thorough: 20_000, strategy: || boxed(computed_strategy()), check: check_computed }),
            Box::new(Sub { name: "bilinearity", rule: "e([a]g1,[b]g2) == published^(ab); non-degeneracy; call direction", quick: 1_500, thorough: 40_000, strategy: || boxed(pair_strategy()), check: check_relations }),
        ],
        assumptions: COMMON_ASSUMPTIONS.to_vec(),
    }
}
