//! C04 - point decoding accepts exactly canonical encodings of subgroup points.
//! (the byte-string generator and the crate-side decoding glue are shared with C05 and C19)

use super::{PropDef, COMMON_ASSUMPTIONS};
use crate::adapt::*;
use crate::engine::{boxed, Info, Sub};
use crate::recipes::*;
use pairing_plus::GroupDecodingError;
use proptest::prelude::*;
use refmodel::consts::q;
use refmodel::curve::{Pt, Words};
use refmodel::enc::{decode, encode, Decoded, EncFld, Stage};
use refmodel::fld::{SqrtFld, Z};
use serde::{Deserialize, Serialize};

/// 0 = G1 compressed (48), 1 = G1 uncompressed (96), 2 = G2 compressed (96), 3 = G2 uncompressed (192)
pub fn fmt_len(fmt: u8) -> usize {
    [48, 96, 96, 192][fmt as usize % 4]
}
pub fn fmt_name(fmt: u8) -> &'static str {
    ["G1-compressed", "G1-uncompressed", "G2-compressed", "G2-uncompressed"][fmt as usize % 4]
}

#[derive(Clone, Debug, Serialize, Deserialize, PartialEq, Eq, Hash)]
pub enum BaseR {
    /// the valid encoding of a point (any class: subgroup, full curve, small order, identity)
    Point(PointR),
    /// pool subgroup point + [steps]G: many different valid points
    Walk(u8, u16),
    /// uniform bytes from a seed
    Uniform(u64),
    Zeros,
    /// the pair (t^2 x, t^3 y) for a curve point (x, y): an (almost always off-curve) point of the
    /// isomorphic curve y^2 = x^3 + b t^6 with the same order under the b-independent group formulas
    Rescaled(PointR, FeR),
}

#[derive(Clone, Debug, Serialize, Deserialize, PartialEq, Eq, Hash)]
pub enum CoordVal {
    /// q + k
    QPlus(u8),
    /// q - 1 - k (largest valid values)
    QMinus(u8),
    Pow381,
    /// 2^381 - 1 (all 381 low bits set; the three flag bits are left alone)
    AllOnes,
    Zero,
    Small(u8),
    Uniform(u64),
}

#[derive(Clone, Debug, Serialize, Deserialize, PartialEq, Eq, Hash)]
pub enum Edit {
    /// force the three flag bits
    Flags(u8),
    /// replace 48-byte coordinate component number `which` (in wire order) keeping byte-0 flag bits
    Coord(u8, CoordVal),
    /// add a small signed delta to component `which`
    Nudge(u8, i8),
    FlipBit(u16),
    /// replace the x-coordinate by one with no point on the curve (found from the seed)
    XNoRoot(u64),
    /// replace x by the x of another on-curve point, keep y (off-curve pair for uncompressed)
    XOther(u64),
    FlipSort,
    /// fill the whole string with a periodic byte pattern (period 1..16), keeping the three flag bits:
    /// structured junk (equal 8-byte words, equal bytes) behind whatever the flags announce
    Periodic(Vec<u8>),
}

#[derive(Clone, Debug, Serialize, Deserialize, PartialEq, Eq, Hash)]
pub struct DecCase {
    pub fmt: u8,
    pub base: BaseR,
    pub edits: Vec<Edit>,
}

pub fn coordval_strategy() -> BoxedStrategy<CoordVal> {
    prop_oneof![
        3 => (0u8..4).prop_map(CoordVal::QPlus),
        2 => (0u8..4).prop_map(CoordVal::QMinus),
        1 => Just(CoordVal::Pow381),
        1 => Just(CoordVal::AllOnes),
        1 => Just(CoordVal::Zero),
        1 => any::<u8>().prop_map(CoordVal::Small),
        2 => any::<u64>().prop_map(CoordVal::Uniform),
    ]
    .boxed()
}

fn edit_strategy() -> BoxedStrategy<Edit> {
    prop_oneof![
        6 => (0u8..8).prop_map(Edit::Flags),
        5 => (0u8..4, coordval_strategy()).prop_map(|(w, v)| Edit::Coord(w, v)),
        2 => (0u8..4, prop_oneof![Just(1i8), Just(-1i8), any::<i8>()]).prop_map(|(w, d)| Edit::Nudge(w, d)),
        2 => any::<u16>().prop_map(Edit::FlipBit),
        3 => any::<u64>().prop_map(Edit::XNoRoot),
        2 => any::<u64>().prop_map(Edit::XOther),
        3 => Just(Edit::FlipSort),
        2 => prop_oneof![
            proptest::collection::vec(any::<u8>(), 1..=1),
            proptest::collection::vec(any::<u8>(), 8..=8),
            proptest::collection::vec(0u8..2, 8..=8),
            proptest::collection::vec(any::<u8>(), 1..=16),
        ].prop_map(Edit::Periodic),
    ]
    .boxed()
}

pub fn base_strategy() -> BoxedStrategy<BaseR> {
    prop_oneof![
        10 => point_strategy(true).prop_map(BaseR::Point),
        4 => (0u8..POOL_SUB as u8, any::<u16>()).prop_map(|(s, k)| BaseR::Walk(s, k)),
        3 => any::<u64>().prop_map(BaseR::Uniform),
        1 => Just(BaseR::Zeros),
        3 => (point_strategy(true), fq_uniformish()).prop_map(|(p, t)| BaseR::Rescaled(p, t)),
    ]
    .boxed()
}

pub fn dec_case_strategy() -> BoxedStrategy<DecCase> {
    (0u8..4, base_strategy(), proptest::collection::vec(edit_strategy(), 0..3)).prop_map(|(fmt, base, edits)| DecCase { fmt, base, edits }).boxed()
}

pub fn base_point<G: HasPool>(b: &BaseR) -> Option<Pt<G::F>>
where
    G::F: SqrtFld,
{
    match b {
        BaseR::Point(p) => Some(p.build::<G>()),
        BaseR::Walk(s, k) => {
            let c = G::curve();
            Some(c.add(&G::pool().sub[*s as usize % POOL_SUB].1, &c.mul(&Z::from(*k as u32), &G::gen())))
        }
        BaseR::Rescaled(p, t) => Some(match p.build::<G>() {
            Pt::Inf => Pt::Inf,
            Pt::Aff(x, y) => {
                // embed t (an Fq recipe) into the coordinate field
                let tv = t.fq();
                let mut acc = <G::F as refmodel::fld::Fld>::zero();
                let base = <G::F as refmodel::fld::Fld>::from_u64(1u64 << 32);
                for d in tv.0.to_u32_digits().iter().rev() {
                    acc = refmodel::fld::Fld::add(&refmodel::fld::Fld::mul(&acc, &base), &<G::F as refmodel::fld::Fld>::from_u64(*d as u64));
                }
                if refmodel::fld::Fld::is_zero(&acc) {
                    acc = <G::F as refmodel::fld::Fld>::from_u64(2);
                }
                let t2 = refmodel::fld::Fld::sqr(&acc);
                let t3 = refmodel::fld::Fld::mul(&t2, &acc);
                Pt::Aff(refmodel::fld::Fld::mul(&x, &t2), refmodel::fld::Fld::mul(&y, &t3))
            }
        }),
        _ => None,
    }
}

pub fn coord_bytes(v: &CoordVal) -> Vec<u8> {
    let val: Z = match v {
        CoordVal::QPlus(k) => q() + Z::from(*k as u32),
        CoordVal::QMinus(k) => q() - Z::from(1u32) - Z::from(*k as u32),
        CoordVal::Pow381 => Z::from(1u32) << 381,
        CoordVal::AllOnes => (Z::from(1u32) << 381) - Z::from(1u32),
        CoordVal::Zero => Z::from(0u32),
        CoordVal::Small(k) => Z::from(*k as u32),
        CoordVal::Uniform(seed) => {
            let mut w = Words(*seed);
            let mut x = Z::from(0u32);
            for _ in 0..6 {
                x = (x << 64) + Z::from(w.next());
            }
            x % (Z::from(1u32) << 381)
        }
    };
    let raw = val.to_bytes_be();
    let mut out = vec![0u8; 48 - raw.len()];
    out.extend_from_slice(&raw);
    out
}

/// build the byte string of a case (a pure function of the recipe)
pub fn build_bytes<G: HasPool>(c: &DecCase) -> Vec<u8>
where
    G::F: EncFld,
{
    let compressed = c.fmt % 2 == 0;
    let len = fmt_len(c.fmt);
    let fsize = <G::F as EncFld>::size();
    let curve = G::curve();
    let mut bytes = match &c.base {
        BaseR::Uniform(seed) => {
            let mut w = Words(*seed);
            let mut v = Vec::with_capacity(len);
            while v.len() < len {
                v.extend_from_slice(&w.next().to_le_bytes());
            }
            v.truncate(len);
            v
        }
        BaseR::Zeros => vec![0u8; len],
        b => encode(&base_point::<G>(b).unwrap(), compressed),
    };
    for e in &c.edits {
        match e {
            Edit::Flags(f) => {
                bytes[0] = (bytes[0] & 0x1f) | ((*f & 7) << 5);
            }
            Edit::Coord(which, v) => {
                let ncomp = len / 48;
                let w = *which as usize % ncomp;
                let flags = bytes[0] & 0xe0;
                let cb = coord_bytes(v);
                bytes[48 * w..48 * (w + 1)].copy_from_slice(&cb);
                if w == 0 {
                    bytes[0] = (bytes[0] & 0x1f) | flags;
                }
            }
            Edit::Nudge(which, d) => {
                let ncomp = len / 48;
                let w = *which as usize % ncomp;
                let flags = bytes[0] & 0xe0;
                let mut seg = bytes[48 * w..48 * (w + 1)].to_vec();
                if w == 0 {
                    seg[0] &= 0x1f;
                }
                let v = Z::from_bytes_be(&seg);
                let nv = if *d >= 0 { v + Z::from(*d as u32) } else { let m = Z::from((-(*d as i32)) as u32); if v >= m { v - m } else { v } };
                let nv = nv % (Z::from(1u32) << 381);
                let raw = nv.to_bytes_be();
                let mut out = vec![0u8; 48 - raw.len()];
                out.extend_from_slice(&raw);
                bytes[48 * w..48 * (w + 1)].copy_from_slice(&out);
                if w == 0 {
                    bytes[0] = (bytes[0] & 0x1f) | flags;
                }
            }
            Edit::FlipBit(i) => {
                let i = *i as usize % (8 * len);
                bytes[i / 8] ^= 0x80 >> (i % 8);
            }
            Edit::XNoRoot(seed) | Edit::XOther(seed) => {
                let want_root = matches!(e, Edit::XOther(_));
                let mut w = Words(*seed);
                let x = loop {
                    let x = <G::F as SqrtFld>::from_words(&mut || w.next());
                    if curve.rhs(&x).is_square() == want_root {
                        break x;
                    }
                };
                let flags = bytes[0] & 0xe0;
                let xb = x.to_be();
                bytes[..fsize].copy_from_slice(&xb);
                bytes[0] = (bytes[0] & 0x1f) | flags;
            }
            Edit::FlipSort => {
                bytes[0] ^= 0x20;
            }
            Edit::Periodic(pat) => {
                if !pat.is_empty() {
                    let flags = bytes[0] & 0xe0;
                    for (k, b) in bytes.iter_mut().enumerate() {
                        *b = pat[k % pat.len()];
                    }
                    bytes[0] = (bytes[0] & 0x1f) | flags;
                }
            }
        }
    }
    bytes
}

pub fn stage_of(e: &GroupDecodingError) -> Stage {
    match e {
        GroupDecodingError::UnexpectedCompressionMode => Stage::FormFlag,
        GroupDecodingError::UnexpectedInformation => Stage::InfSortFlags,
        GroupDecodingError::CoordinateDecodingError(_, _) => Stage::CoordRange,
        GroupDecodingError::NotOnCurve => Stage::Curve,
        GroupDecodingError::NotInSubgroup => Stage::Subgroup,
    }
}

/// crate decoding of `bytes` in format `fmt`, normalised to the model's vocabulary
pub fn crate_decode<G: Grp>(fmt: u8, bytes: &[u8], checked: bool) -> Result<Result<Decoded<G::F>, Stage>, String> {
    let r = G::decode_bytes(fmt % 2 == 0, bytes, checked).map_err(|m| format!("{}: {}", fmt_name(fmt), m))?;
    Ok(match r {
        Ok(a) => Ok(match aff_m::<G>(&a) {
            Pt::Inf => Decoded::Inf,
            Pt::Aff(x, y) => Decoded::Coords(x, y),
        }),
        Err(e) => Err(stage_of(&e)),
    })
}

fn outcome_label<F>(r: &Result<Decoded<F>, Stage>) -> String {
    match r {
        Ok(Decoded::Inf) => "accept:identity".into(),
        Ok(_) => "accept:point".into(),
        Err(s) => format!("reject:{:?}", s),
    }
}

fn check_dec<G: HasPool>(c: &DecCase, info: &mut Info) -> Result<(), String>
where
    G::F: EncFld,
{
    let compressed = c.fmt % 2 == 0;
    let bytes = build_bytes::<G>(c);
    let want = decode::<G::F>(&bytes, compressed, true);
    let got = crate_decode::<G>(c.fmt, &bytes, true)?;
    info.class(format!("{}:{}", fmt_name(c.fmt), outcome_label(&want)));
    info.nt_if(want != Err(Stage::FormFlag));
    if got != want {
        return Err(format!(
            "{} checked decoding of {}: crate {:?}, specification {:?}",
            fmt_name(c.fmt),
            hex(&bytes),
            got.as_ref().map(|_| "accepted").map_err(|s| *s),
            want.as_ref().map(|_| "accept").map_err(|s| *s)
        ) + &match (&got, &want) {
            (Ok(a), Ok(b)) => format!(" (decoded points differ: {:?} vs {:?})", a, b),
            _ => String::new(),
        });
    }
    let want_u = decode::<G::F>(&bytes, compressed, false);
    let got_u = crate_decode::<G>(c.fmt, &bytes, false)?;
    info.class(format!("{}:unchecked:{}", fmt_name(c.fmt), outcome_label(&want_u)));
    if got_u != want_u {
        return Err(format!(
            "{} unchecked decoding of {}: crate {:?}, specification {:?}",
            fmt_name(c.fmt),
            hex(&bytes),
            got_u.as_ref().map_err(|s| *s),
            want_u.as_ref().map_err(|s| *s)
        ));
    }
    // the verdict is a function of the BYTES, not of where the EncodedPoint value came from: whatever the
    // unchecked decoder returned is re-encoded by the crate and the checked decoder is applied to that very value
    if let Ok(aff) = G::decode_bytes(compressed, &bytes, false)? {
        for via_from_affine in [false, true] {
            let (b2, res) = G::roundtrip_value(&aff, compressed, true, via_from_affine)?;
            if b2 == bytes && res.is_ok() != want.is_ok() {
                return Err(format!(
                    "{}: checked decoding of {} is {} when the bytes are copied into an empty EncodedPoint but {} on the value the encoder ({}) returned for the unchecked-decoded point: the verdict depends on the provenance of the value, not on its bytes",
                    fmt_name(c.fmt),
                    hex(&bytes),
                    if want.is_ok() { "accepted" } else { "rejected" },
                    if res.is_ok() { "accepted" } else { "rejected" },
                    if via_from_affine { "from_affine" } else { "into_(un)compressed" }
                ));
            }
            info.class("provenance:re-encoded-value-checked");
        }
    }
    Ok(())
}

pub fn hex(b: &[u8]) -> String {
    b.iter().map(|x| format!("{:02x}", x)).collect()
}

fn check_dec_any(c: &DecCase, info: &mut Info) -> Result<(), String> {
    if c.fmt % 4 < 2 {
        check_dec::<G1m>(c, info)
    } else {
        check_dec::<G2m>(c, info)
    }
}

/// related byte strings decoded back to back (a cache keyed by part of the input, e.g. the x bytes
/// without the flags, needs exactly this)
#[derive(Clone, Debug, Serialize, Deserialize, PartialEq, Eq, Hash)]
pub enum Then {
    Same,
    Edit(Edit),
    /// the same base point / bytes recipe in another format of the same group
    OtherForm,
}

#[derive(Clone, Debug, Serialize, Deserialize, PartialEq, Eq, Hash)]
pub struct DecSeq {
    pub base: DecCase,
    pub then: Vec<Then>,
}

fn dec_seq_strategy() -> BoxedStrategy<DecSeq> {
    let then = prop_oneof![
        1 => Just(Then::Same),
        3 => Just(Then::Edit(Edit::FlipSort)),
        3 => (0u8..8).prop_map(|f| Then::Edit(Edit::Flags(f))),
        3 => edit_strategy().prop_map(Then::Edit),
        2 => Just(Then::OtherForm),
    ];
    (dec_case_strategy(), proptest::collection::vec(then, 1..5)).prop_map(|(base, then)| DecSeq { base, then }).boxed()
}

fn check_dec_seq(c: &DecSeq, info: &mut Info) -> Result<(), String> {
    let mut cur = c.base.clone();
    let mut tmp = Info::default();
    check_dec_any(&cur, &mut tmp)?;
    for t in &c.then {
        match t {
            Then::Same => {}
            Then::Edit(e) => cur.edits.push(e.clone()),
            Then::OtherForm => cur.fmt = (cur.fmt & 2) | (1 - (cur.fmt & 1)),
        }
        let mut tmp = Info::default();
        check_dec_any(&cur, &mut tmp).map_err(|m| format!("after decoding a related string first: {}", m))?;
    }
    info.nt();
    info.class(format!("strings={}", 1 + c.then.len()));
    Ok(())
}

crate::long_sub!(run_long_history, [15, 16]);

pub fn def() -> PropDef {
    PropDef {
        id: "C04",
        rule: "byte strings of length 48/96/96/192 for the four formats: valid encodings of every point class (identity, subgroup, full-curve, each small prime order dividing the cofactor, order l*r, walks P+[k]G) and uniform / all-zero bytes, then 0..2 edits (force each of the 8 flag combinations, replace one 48-byte coordinate component by q+k, q-1-k, 2^381, 2^381-1, 0, small, uniform; +-delta; bit flip; x without a square root; x of another point; flip sort flag). Oracle: model decoder returning the accepted point or the first failing stage in the order form flag, infinity/sort flags, coordinate range, curve, subgroup; checked and unchecked variants; no panic; for every string the unchecked decoder accepts, the checked decoder applied to the crate's own re-encoding of that point (the EncodedPoint value, not a copy of its bytes) must give the verdict of the bytes. Non-trivial = input passes the form-flag stage; distinct = distinct cases",
        needs_pairing: false,
        subs: vec![
            Box::new(crate::engine::EnumSub { name: "long-history", rule: super::longhist::RULE, run: run_long_history, replay: super::longhist::replay, exhaustive: false }),
            Box::new(crate::engine::EnumSub { name: "two-input-bursts", rule: super::longhist::BURST_RULE, run: run_two_input_bursts, replay: super::longhist::replay_burst, exhaustive: false }),
            Box::new(Sub { name: "decoders", rule: "four decoders, checked and unchecked, vs model decoder (accepted point or first failing stage)", quick: 24_000, thorough: 250_000, strategy: || boxed(dec_case_strategy()), check: check_dec_any }),
            Box::new(Sub { name: "related-strings", rule: "a byte string followed back to back by 1..4 related strings (sort flag flipped, other flag combination, further edit, the same point in the other form, the same again), each compared with the model decoder", quick: 3_000, thorough: 80_000, strategy: || boxed(dec_seq_strategy()), check: check_dec_seq }),
            super::corpus_sub_decode(),
        ],
        assumptions: {
            let mut v = COMMON_ASSUMPTIONS.to_vec();
            v.push("the coordinate label inside CoordinateDecodingError is recorded but not asserted (the property does not state it)");
            v
        },
    }
}
