//! C19 - stream (de)serialization round-trips, validates and consumes exact lengths.

use super::c04::{base_point, build_bytes, hex, BaseR, DecCase};
use super::c09::ExtR;
use super::{PropDef, COMMON_ASSUMPTIONS};
use crate::adapt::*;
use crate::engine::{boxed, cr, Info, Sub};
use crate::recipes::*;
use pairing_plus::bls12_381 as crt;
use pairing_plus::serdes::SerDes;
use proptest::prelude::*;
use refmodel::consts::{q, r};
use refmodel::curve::Words;
use refmodel::enc::{decode, encode};
use refmodel::fld::{Fq12, Z};
use serde::{Deserialize, Serialize};
use std::io::Read;

/// a reader that hands out the data in generated chunk sizes and counts what was consumed
pub struct ChunkReader<'a> {
    pub data: &'a [u8],
    pub pos: usize,
    pub chunks: &'a [u8],
    pub i: usize,
}

impl<'a> Read for ChunkReader<'a> {
    fn read(&mut self, buf: &mut [u8]) -> std::io::Result<usize> {
        let c = if self.chunks.is_empty() { usize::MAX } else { std::cmp::max(1, self.chunks[self.i % self.chunks.len()] as usize) };
        self.i += 1;
        let n = std::cmp::min(std::cmp::min(c, buf.len()), self.data.len() - self.pos);
        buf[..n].copy_from_slice(&self.data[self.pos..self.pos + n]);
        self.pos += n;
        Ok(n)
    }
}

/// a writer that accepts the data in generated chunk sizes (short writes are legal for `Write::write`)
pub struct ChunkWriter<'a> {
    pub data: Vec<u8>,
    pub chunks: &'a [u8],
    pub i: usize,
}

impl<'a> std::io::Write for ChunkWriter<'a> {
    fn write(&mut self, buf: &[u8]) -> std::io::Result<usize> {
        let c = if self.chunks.is_empty() { usize::MAX } else { std::cmp::max(1, self.chunks[self.i % self.chunks.len()] as usize) };
        self.i += 1;
        let n = std::cmp::min(c, buf.len());
        self.data.extend_from_slice(&buf[..n]);
        Ok(n)
    }
    fn flush(&mut self) -> std::io::Result<()> {
        Ok(())
    }
}

/// a writer that takes `left` bytes and then fails (a broken pipe, a full frame)
pub struct FailingWriter {
    pub left: usize,
    pub refused: bool,
}

impl std::io::Write for FailingWriter {
    fn write(&mut self, buf: &[u8]) -> std::io::Result<usize> {
        if buf.is_empty() {
            return Ok(0);
        }
        if self.left == 0 {
            self.refused = true;
            return Err(std::io::Error::new(std::io::ErrorKind::BrokenPipe, "writer closed"));
        }
        let n = std::cmp::min(self.left, buf.len());
        self.left -= n;
        Ok(n)
    }
    fn flush(&mut self) -> std::io::Result<()> {
        Ok(())
    }
}

#[derive(Clone, Debug, Serialize, Deserialize, PartialEq, Eq, Hash)]
pub enum Ty {
    Fr,
    Fq12,
    G1,
    G2,
    G1Affine,
    G2Affine,
}

#[derive(Clone, Debug, Serialize, Deserialize, PartialEq, Eq, Hash)]
pub enum StreamR {
    /// the image written by the crate's own serialize
    Valid,
    /// a proper prefix of the valid image: len * num / 65536 bytes
    Prefix(u16),
    /// valid image followed by extra bytes
    Trailing(Vec<u8>),
    /// read back with the opposite flag
    WrongFlag,
    /// one 48- (32- for Fr) byte field component replaced by a non-reduced / boundary value
    Component(u8, super::c04::CoordVal),
    /// for point types: an arbitrary byte string from the C04 generator (same group, form by flag)
    PointBytes(DecCase),
    /// uniform bytes of the full length
    Uniform(u64),
    /// flip one bit of the valid image
    FlipBit(u16),
    /// point types: the image of the negated point (a different valid image sharing x)
    NegateY,
}

#[derive(Clone, Debug, Serialize, Deserialize, PartialEq, Eq, Hash)]
pub struct SerCase {
    pub ty: Ty,
    pub fr: FeR,
    pub fq12: ExtR,
    pub point: BaseR,
    pub rep: RepR,
    pub compressed: bool,
    pub stream: StreamR,
    pub chunks: Vec<u8>,
    /// first serialize the value into a writer that fails after this many bytes (the error is returned to the
    /// caller, as a service writing to a socket would see it), then serialize it again into a good writer
    #[serde(default)]
    pub fail_first: Option<u16>,
}

fn subgroup_base() -> BoxedStrategy<BaseR> {
    prop_oneof![
        4 => point_strategy(false).prop_map(BaseR::Point),
        6 => (0u8..POOL_SUB as u8, any::<u16>()).prop_map(|(s, k)| BaseR::Walk(s, k)),
    ]
    .boxed()
}

fn ser_case_strategy() -> BoxedStrategy<SerCase> {
    let ty = prop_oneof![Just(Ty::Fr), Just(Ty::Fq12), Just(Ty::G1), Just(Ty::G2), Just(Ty::G1Affine), Just(Ty::G2Affine)];
    let stream = prop_oneof![
        6 => Just(StreamR::Valid),
        4 => any::<u16>().prop_map(StreamR::Prefix),
        2 => proptest::collection::vec(any::<u8>(), 1..40).prop_map(StreamR::Trailing),
        2 => Just(StreamR::WrongFlag),
        4 => (any::<u8>(), super::c04::coordval_strategy()).prop_map(|(w, v)| StreamR::Component(w, v)),
        5 => super::c04::dec_case_strategy().prop_map(StreamR::PointBytes),
        2 => any::<u64>().prop_map(StreamR::Uniform),
        2 => any::<u16>().prop_map(StreamR::FlipBit),
        1 => Just(StreamR::NegateY),
    ];
    let chunks = prop_oneof![
        3 => Just(vec![]),
        2 => Just(vec![1u8]),
        3 => proptest::collection::vec(1u8..=64, 1..6),
    ];
    let fail = prop_oneof![5 => Just(None), 1 => (0u16..600).prop_map(Some)];
    (ty, fr_strategy(), super::c09::ext_strategy(12), subgroup_base(), rep_strategy(), any::<bool>(), stream, chunks, fail)
        .prop_map(|(ty, fr, fq12, point, rep, compressed, stream, chunks, fail_first)| SerCase { ty, fr, fq12, point, rep, compressed, stream, chunks, fail_first })
        .boxed()
}

pub fn be_fixed(v: &Z, n: usize) -> Vec<u8> {
    let raw = v.to_bytes_be();
    let mut out = vec![0u8; n - raw.len()];
    out.extend_from_slice(&raw);
    out
}

/// what the model expects from reading `stream` as type `ty` with flag `compressed`
pub enum Expect {
    /// must be Err (not a value, not a panic)
    Error(&'static str),
    /// must succeed, consume exactly `n` bytes and yield the model value encoded by `image`
    Value { consumed: usize, image: Vec<u8> },
}

pub fn expect_for(ty: &Ty, compressed: bool, stream: &[u8]) -> Expect {
    match ty {
        Ty::Fr => {
            if stream.len() < 32 {
                return Expect::Error("truncated");
            }
            if &Z::from_bytes_be(&stream[..32]) >= r() {
                return Expect::Error("non-reduced Fr value");
            }
            Expect::Value { consumed: 32, image: stream[..32].to_vec() }
        }
        Ty::Fq12 => {
            if stream.len() < 576 {
                return Expect::Error("truncated");
            }
            for i in 0..12 {
                if &Z::from_bytes_be(&stream[48 * i..48 * (i + 1)]) >= q() {
                    return Expect::Error("non-reduced Fq coefficient");
                }
            }
            Expect::Value { consumed: 576, image: stream[..576].to_vec() }
        }
        _ => {
            let g1 = matches!(ty, Ty::G1 | Ty::G1Affine);
            let csize = if g1 { 48 } else { 96 };
            let need = if compressed { csize } else { 2 * csize };
            if stream.len() < csize {
                return Expect::Error("truncated");
            }
            if (stream[0] & 0x80 != 0) != compressed {
                return Expect::Error("compression flag contradicts the data");
            }
            if stream.len() < need {
                return Expect::Error("truncated");
            }
            let ok = if g1 { decode::<refmodel::fld::Fq>(&stream[..need], compressed, true).is_ok() } else { decode::<refmodel::fld::Fq2>(&stream[..need], compressed, true).is_ok() };
            if !ok {
                return Expect::Error("point encoding rejected by the checked decoder");
            }
            Expect::Value { consumed: need, image: stream[..need].to_vec() }
        }
    }
}

/// serialize the crate value again and compare with the consumed image: since the model has
/// established that `image` is the canonical encoding of exactly one value, equality of the
/// re-serialization (checked against the model encoder elsewhere) identifies the value; in
/// addition the value is compared directly through the accessors.
pub fn run_read<T: SerDes>(ty: &Ty, compressed: bool, stream: &[u8], chunks: &[u8], value_image: impl Fn(&T) -> Result<Vec<u8>, String>, info: &mut Info) -> Result<(), String> {
    let mut rd = ChunkReader { data: stream, pos: 0, chunks, i: 0 };
    run_read_at::<T>(ty, compressed, &mut rd, value_image, info).map(|_| ())
}

/// one read from the reader's current position; Ok(true) = a value was due and delivered
pub fn run_read_at<T: SerDes>(ty: &Ty, compressed: bool, rd: &mut ChunkReader, value_image: impl Fn(&T) -> Result<Vec<u8>, String>, info: &mut Info) -> Result<bool, String> {
    let start = rd.pos;
    let stream = &rd.data[start..];
    let res = cr("deserialize", || T::deserialize(&mut *rd, compressed))?;
    let consumed = rd.pos - start;
    match (expect_for(ty, compressed, stream), res) {
        (Expect::Error(why), Ok(_)) => Err(format!("{:?} deserialize(compressed={}) returned a value for a stream that is invalid ({}): {}", ty, compressed, why, hex(&stream[..std::cmp::min(stream.len(), 200)]))),
        (Expect::Error(why), Err(_)) => {
            info.class(format!("error:{}", why));
            Ok(false)
        }
        (Expect::Value { .. }, Err(e)) => Err(format!("{:?} deserialize(compressed={}) failed ({}) on a valid stream {}", ty, compressed, e, hex(&stream[..std::cmp::min(stream.len(), 200)]))),
        (Expect::Value { consumed: want, image }, Ok(v)) => {
            if consumed != want {
                return Err(format!("{:?} deserialize(compressed={}) consumed {} bytes, expected exactly {}", ty, compressed, consumed, want));
            }
            let got_image = value_image(&v)?;
            if got_image != image {
                return Err(format!("{:?} deserialize(compressed={}) returned a value whose canonical image is {} but the stream held {}", ty, compressed, hex(&got_image), hex(&image)));
            }
            info.class("value");
            Ok(true)
        }
    }
}

fn check_ser(c: &SerCase, info: &mut Info) -> Result<(), String> {
    let (stream, read_flag) = prepare(c, info)?;
    read_one(&c.ty, read_flag, &mut ChunkReader { data: &stream, pos: 0, chunks: &c.chunks, i: 0 }, info).map(|_| ())
}

/// steps 1 and 2: serialize the value (compared with the model image) and build the stream to read
fn prepare(c: &SerCase, info: &mut Info) -> Result<(Vec<u8>, bool), String> {
    info.class(format!("type:{:?}", c.ty));
    info.class(format!("chunks:{}", if c.chunks.is_empty() { "whole" } else if c.chunks == [1] { "byte-at-a-time" } else { "generated" }));
    // 1. the value, its model image, and what the crate writes
    let g1 = matches!(c.ty, Ty::G1 | Ty::G1Affine);
    let (written, model_image): (Vec<u8>, Vec<u8>) = match c.ty {
        Ty::Fr => {
            let v = c.fr.fr();
            let mut buf = ChunkWriter { data: vec![], chunks: &c.chunks, i: 0 };
            let e = fr_c(&v);
            if let Some(k) = c.fail_first {
                let mut fw = FailingWriter { left: k as usize, refused: false };
                let r = cr("Fr::serialize (failing writer)", || e.serialize(&mut fw, c.compressed))?;
                if r.is_ok() && fw.refused {
                    return Err(format!("Fr::serialize returned Ok although the writer refused data after {} bytes", k));
                }
                info.class("serialize-after-a-failed-write");
            }
            cr("Fr::serialize", || e.serialize(&mut buf, c.compressed))?.map_err(|e| format!("serialize error {}", e))?;
            (buf.data, be_fixed(&v, 32))
        }
        Ty::Fq12 => {
            let t = c.fq12.tower(12);
            let mut img = vec![];
            for i in 0..2 {
                for j in 0..3 {
                    img.extend_from_slice(&be_fixed(&t[i][j].c0 .0, 48));
                    img.extend_from_slice(&be_fixed(&t[i][j].c1 .0, 48));
                }
            }
            let e = fq12_c_tower(&t);
            let mut buf = ChunkWriter { data: vec![], chunks: &c.chunks, i: 0 };
            if let Some(k) = c.fail_first {
                let mut fw = FailingWriter { left: k as usize, refused: false };
                let r = cr("Fq12::serialize (failing writer)", || e.serialize(&mut fw, c.compressed))?;
                if r.is_ok() && fw.refused {
                    return Err(format!("Fq12::serialize returned Ok although the writer refused data after {} bytes", k));
                }
                info.class("serialize-after-a-failed-write");
            }
            cr("Fq12::serialize", || e.serialize(&mut buf, c.compressed))?.map_err(|e| format!("serialize error {}", e))?;
            (buf.data, img)
        }
        Ty::G1 | Ty::G1Affine => {
            let pm = base_point::<G1m>(&c.point).unwrap();
            let img = encode(&pm, c.compressed);
            let mut buf = ChunkWriter { data: vec![], chunks: &c.chunks, i: 0 };
            if c.ty == Ty::G1 {
                let p = rep_build::<G1m>(&pm, &c.rep);
                if let Some(k) = c.fail_first {
                let mut fw = FailingWriter { left: k as usize, refused: false };
                let r = cr("G1::serialize (failing writer)", || p.serialize(&mut fw, c.compressed))?;
                if r.is_ok() && fw.refused {
                    return Err(format!("G1::serialize returned Ok although the writer refused data after {} bytes", k));
                }
                info.class("serialize-after-a-failed-write");
            }
            cr("G1::serialize", || p.serialize(&mut buf, c.compressed))?.map_err(|e| format!("serialize error {}", e))?;
            } else {
                let p = aff_c::<G1m>(&pm);
                if let Some(k) = c.fail_first {
                let mut fw = FailingWriter { left: k as usize, refused: false };
                let r = cr("G1Affine::serialize (failing writer)", || p.serialize(&mut fw, c.compressed))?;
                if r.is_ok() && fw.refused {
                    return Err(format!("G1Affine::serialize returned Ok although the writer refused data after {} bytes", k));
                }
                info.class("serialize-after-a-failed-write");
            }
            cr("G1Affine::serialize", || p.serialize(&mut buf, c.compressed))?.map_err(|e| format!("serialize error {}", e))?;
            }
            (buf.data, img)
        }
        Ty::G2 | Ty::G2Affine => {
            let pm = base_point::<G2m>(&c.point).unwrap();
            let img = encode(&pm, c.compressed);
            let mut buf = ChunkWriter { data: vec![], chunks: &c.chunks, i: 0 };
            if c.ty == Ty::G2 {
                let p = rep_build::<G2m>(&pm, &c.rep);
                if let Some(k) = c.fail_first {
                let mut fw = FailingWriter { left: k as usize, refused: false };
                let r = cr("G2::serialize (failing writer)", || p.serialize(&mut fw, c.compressed))?;
                if r.is_ok() && fw.refused {
                    return Err(format!("G2::serialize returned Ok although the writer refused data after {} bytes", k));
                }
                info.class("serialize-after-a-failed-write");
            }
            cr("G2::serialize", || p.serialize(&mut buf, c.compressed))?.map_err(|e| format!("serialize error {}", e))?;
            } else {
                let p = aff_c::<G2m>(&pm);
                if let Some(k) = c.fail_first {
                let mut fw = FailingWriter { left: k as usize, refused: false };
                let r = cr("G2Affine::serialize (failing writer)", || p.serialize(&mut fw, c.compressed))?;
                if r.is_ok() && fw.refused {
                    return Err(format!("G2Affine::serialize returned Ok although the writer refused data after {} bytes", k));
                }
                info.class("serialize-after-a-failed-write");
            }
            cr("G2Affine::serialize", || p.serialize(&mut buf, c.compressed))?.map_err(|e| format!("serialize error {}", e))?;
            }
            (buf.data, img)
        }
    };
    if written != model_image {
        return Err(format!("{:?}::serialize(compressed={}) wrote {} ({} bytes) but the specified image is {} ({} bytes)", c.ty, c.compressed, hex(&written), written.len(), hex(&model_image), model_image.len()));
    }
    // 2. the stream to read
    let mut read_flag = c.compressed;
    let comp_size = match c.ty {
        Ty::Fr => 32,
        _ => 48,
    };
    let stream: Vec<u8> = match &c.stream {
        StreamR::Valid => model_image.clone(),
        StreamR::Prefix(k) => {
            let n = (model_image.len() * (*k as usize)) >> 16;
            model_image[..n].to_vec()
        }
        StreamR::Trailing(t) => {
            let mut s = model_image.clone();
            s.extend_from_slice(t);
            s
        }
        StreamR::WrongFlag => {
            read_flag = !c.compressed;
            model_image.clone()
        }
        StreamR::Component(w, v) => {
            let mut s = model_image.clone();
            let ncomp = s.len() / comp_size;
            let w = *w as usize % ncomp;
            let flags = s[0] & 0xe0;
            let val: Z = {
                // reuse the C04 coordinate values, scaled to the component width
                let cb = super::c04::coord_bytes(v);
                Z::from_bytes_be(&cb)
            };
            let val = if c.ty == Ty::Fr {
                // for Fr: map the "q + k" family onto "r + k"
                match v {
                    super::c04::CoordVal::QPlus(k) => r() + Z::from(*k as u32),
                    super::c04::CoordVal::QMinus(k) => r() - Z::from(1u32) - Z::from(*k as u32),
                    super::c04::CoordVal::Pow381 => Z::from(1u32) << 255,
                    super::c04::CoordVal::AllOnes => (Z::from(1u32) << 256) - Z::from(1u32),
                    _ => val % (Z::from(1u32) << 256),
                }
            } else {
                val
            };
            let cb = be_fixed(&val, comp_size);
            s[comp_size * w..comp_size * (w + 1)].copy_from_slice(&cb);
            if w == 0 && !matches!(c.ty, Ty::Fr | Ty::Fq12) {
                s[0] = (s[0] & 0x1f) | flags;
            }
            s
        }
        StreamR::PointBytes(d) => match c.ty {
            Ty::Fr | Ty::Fq12 => {
                // not a point type: use uniform bytes derived from the case instead
                let mut w = Words(d.edits.len() as u64 ^ 0x77);
                let mut v = vec![];
                while v.len() < model_image.len() {
                    v.extend_from_slice(&w.next().to_le_bytes());
                }
                v.truncate(model_image.len());
                v
            }
            _ => {
                let fmt = (if g1 { 0 } else { 2 }) + if c.compressed { 0 } else { 1 };
                let d2 = DecCase { fmt, base: d.base.clone(), edits: d.edits.clone() };
                if g1 {
                    build_bytes::<G1m>(&d2)
                } else {
                    build_bytes::<G2m>(&d2)
                }
            }
        },
        StreamR::Uniform(seed) => {
            let mut w = Words(*seed);
            let mut v = vec![];
            while v.len() < model_image.len() {
                v.extend_from_slice(&w.next().to_le_bytes());
            }
            v.truncate(model_image.len());
            v
        }
        StreamR::FlipBit(i) => {
            let mut s = model_image.clone();
            let i = *i as usize % (8 * s.len());
            s[i / 8] ^= 0x80 >> (i % 8);
            s
        }
        StreamR::NegateY => match c.ty {
            Ty::Fr | Ty::Fq12 => model_image.clone(),
            _ => {
                let neg = if g1 {
                    let pm = base_point::<G1m>(&c.point).unwrap();
                    encode(&refmodel::curve::e1().neg(&pm), c.compressed)
                } else {
                    let pm = base_point::<G2m>(&c.point).unwrap();
                    encode(&refmodel::curve::e2().neg(&pm), c.compressed)
                };
                neg
            }
        },
    };
    info.class(format!("stream:{}", match &c.stream {
        StreamR::Valid => "valid",
        StreamR::Prefix(_) => "proper-prefix",
        StreamR::Trailing(_) => "trailing-data",
        StreamR::WrongFlag => "wrong-flag",
        StreamR::Component(_, _) => "component-replaced",
        StreamR::PointBytes(_) => "generated-point-bytes",
        StreamR::Uniform(_) => "uniform",
        StreamR::FlipBit(_) => "bit-flip",
        StreamR::NegateY => "image-of-the-negated-point",
    }));
    info.nt_if(stream != model_image);
    Ok((stream, read_flag))
}

/// step 3: read one value of type `ty` from the reader's current position
fn read_one(ty: &Ty, read_flag: bool, rd: &mut ChunkReader, info: &mut Info) -> Result<bool, String> {
    match ty {
        Ty::Fr => run_read_at::<crt::Fr>(ty, read_flag, rd, |v| Ok(be_fixed(&fr_m(v), 32)), info),
        Ty::Fq12 => run_read_at::<crt::Fq12>(
            ty,
            read_flag,
            rd,
            |v| {
                let t = Fq12::to_tower(&fq12_m(v));
                let mut img = vec![];
                for i in 0..2 {
                    for j in 0..3 {
                        img.extend_from_slice(&be_fixed(&t[i][j].c0 .0, 48));
                        img.extend_from_slice(&be_fixed(&t[i][j].c1 .0, 48));
                    }
                }
                Ok(img)
            },
            info,
        ),
        Ty::G1 => run_read_at::<crt::G1>(ty, read_flag, rd, |v| Ok(encode(&proj_m::<G1m>(v), read_flag)), info),
        Ty::G1Affine => run_read_at::<crt::G1Affine>(ty, read_flag, rd, |v| Ok(encode(&aff_m::<G1m>(v), read_flag)), info),
        Ty::G2 => run_read_at::<crt::G2>(ty, read_flag, rd, |v| Ok(encode(&proj_m::<G2m>(v), read_flag)), info),
        Ty::G2Affine => run_read_at::<crt::G2Affine>(ty, read_flag, rd, |v| Ok(encode(&aff_m::<G2m>(v), read_flag)), info),
    }
}

fn stream_strategy() -> BoxedStrategy<StreamR> {
    prop_oneof![
        4 => Just(StreamR::Valid),
        2 => any::<u16>().prop_map(StreamR::Prefix),
        1 => proptest::collection::vec(any::<u8>(), 1..40).prop_map(StreamR::Trailing),
        2 => Just(StreamR::WrongFlag),
        3 => (any::<u8>(), super::c04::coordval_strategy()).prop_map(|(w, v)| StreamR::Component(w, v)),
        1 => any::<u64>().prop_map(StreamR::Uniform),
        6 => any::<u16>().prop_map(StreamR::FlipBit),
        4 => Just(StreamR::NegateY),
    ]
    .boxed()
}

/// related streams back to back: the SAME value's image and variants of it (bit flips anywhere, one
/// component replaced, the negated point, opposite flag, prefixes), each read with a fresh reader and
/// each decided by the model from its own bytes alone
#[derive(Clone, Debug, Serialize, Deserialize, PartialEq, Eq, Hash)]
pub struct SerSeq {
    pub base: SerCase,
    pub steps: Vec<StreamR>,
}

fn ser_seq_strategy() -> BoxedStrategy<SerSeq> {
    (ser_case_strategy(), proptest::collection::vec(stream_strategy(), 2..6)).prop_map(|(base, steps)| SerSeq { base, steps }).boxed()
}

fn check_ser_seq(c: &SerSeq, info: &mut Info) -> Result<(), String> {
    info.class(format!("type:{:?}", c.base.ty));
    let mut prev_valid = false;
    for (i, st) in c.steps.iter().enumerate() {
        let mut case = c.base.clone();
        case.stream = st.clone();
        let mut tmp = Info::default();
        check_ser(&case, &mut tmp).map_err(|m| format!("read #{} of a sequence of related streams ({:?}): {}", i, st, m))?;
        let valid = matches!(st, StreamR::Valid | StreamR::NegateY | StreamR::Trailing(_));
        if prev_valid && !valid {
            info.class("invalid-variant-right-after-valid-image");
        }
        if !prev_valid && valid && i > 0 {
            info.class("valid-image-right-after-invalid-variant");
        }
        prev_valid = valid;
    }
    info.nt();
    Ok(())
}

/// several values of mixed types written one after the other and read back through ONE reader
#[derive(Clone, Debug, Serialize, Deserialize, PartialEq, Eq, Hash)]
pub struct MultiCase {
    pub items: Vec<SerCase>,
    pub chunks: Vec<u8>,
}

fn multi_strategy() -> BoxedStrategy<MultiCase> {
    let item = ser_case_strategy().prop_map(|mut c| {
        // mostly intact items so that the stream continues past the first one
        if !matches!(c.stream, StreamR::Valid | StreamR::FlipBit(_) | StreamR::Prefix(_)) {
            c.stream = StreamR::Valid;
        }
        c
    });
    let chunks = prop_oneof![
        2 => Just(vec![]),
        2 => Just(vec![1u8]),
        4 => proptest::collection::vec(1u8..=200, 1..6),
    ];
    (proptest::collection::vec(item, 2..6), chunks).prop_map(|(items, chunks)| MultiCase { items, chunks }).boxed()
}

fn check_multi(c: &MultiCase, info: &mut Info) -> Result<(), String> {
    let mut data = vec![];
    let mut flags = vec![];
    for it in &c.items {
        let mut tmp = Info::default();
        let (s, f) = prepare(it, &mut tmp)?;
        data.extend_from_slice(&s);
        flags.push(f);
    }
    let mut rd = ChunkReader { data: &data, pos: 0, chunks: &c.chunks, i: 0 };
    let mut delivered = 0;
    for (i, it) in c.items.iter().enumerate() {
        let mut tmp = Info::default();
        let ok = read_one(&it.ty, flags[i], &mut rd, &mut tmp).map_err(|m| format!("item #{} ({:?}) of a {}-item stream read through one reader: {}", i, it.ty, c.items.len(), m))?;
        if !ok {
            // after a due error the position is unconstrained: stop
            info.class("stream-ends-in-due-error");
            break;
        }
        delivered += 1;
    }
    info.class(format!("items-delivered={}", delivered));
    info.nt_if(delivered >= 2);
    Ok(())
}

crate::long_sub!(run_long_history, [18]);

pub fn def() -> PropDef {
    PropDef {
        id: "C19",
        rule: "values of Fr, Fq12, G1, G2, G1Affine, G2Affine (subgroup points of every class incl. identity, walks P+[k]G, projective values in generated representatives) x both flags: bytes written (through a writer that takes them in generated chunk sizes) compared with the model image (32 / 576 / 48|96 / 96|192 bytes); streams read back through a chunking, counting reader (whole / byte-at-a-time / generated chunk sizes): valid image, every kind of proper prefix, trailing data, opposite flag, one field component replaced by p+k / p-1-k / 2^381 / all-ones / uniform, arbitrary point bytes from the C04 generator (every rejection class), uniform bytes, single bit flips, the negated point's image; sequences of related streams back to back and multi-item streams through one reader. Oracle: model decides from the bytes alone whether a value is due (then: Ok, exact consumption, value's canonical image equals the consumed bytes) or an error is due (then: Err, never a value or a panic). Non-trivial = stream differs from the valid image; distinct = distinct cases",
        needs_pairing: false,
        subs: vec![
            Box::new(crate::engine::EnumSub { name: "long-history", rule: super::longhist::RULE, run: run_long_history, replay: super::longhist::replay, exhaustive: false }),
            Box::new(crate::engine::EnumSub { name: "two-input-bursts", rule: super::longhist::BURST_RULE, run: run_two_input_bursts, replay: super::longhist::replay_burst, exhaustive: false }),
            Box::new(Sub { name: "serdes", rule: "serialize bytes == model image; deserialize outcome / consumption / value decided by the model from the bytes", quick: 24_000, thorough: 250_000, strategy: || boxed(ser_case_strategy()), check: check_ser }),
            Box::new(Sub { name: "related-streams", rule: "2..5 reads back to back of variants of ONE value's image (bit flips, replaced component, negated point, opposite flag, prefixes, the image again), each decided by the model from its own bytes (no dependence on earlier reads)", quick: 4_000, thorough: 50_000, strategy: || boxed(ser_seq_strategy()), check: check_ser_seq }),
            Box::new(Sub { name: "multi-item-streams", rule: "2..5 values of mixed types and flags concatenated and read back through one chunking reader: every item delivered with exact consumption until the first due error", quick: 4_000, thorough: 50_000, strategy: || boxed(multi_strategy()), check: check_multi }),
            super::corpus_sub_serdes(),
        ],
        assumptions: {
            let mut v = COMMON_ASSUMPTIONS.to_vec();
            v.push("bytes consumed are only constrained on success, as the property states");
            v
        },
    }
}
