//! C14 - map_to_curve / map2_to_curve equal the RFC composition for all field inputs.

use super::{PropDef, COMMON_ASSUMPTIONS};
use crate::adapt::*;
use crate::engine::{boxed, cr, Info, Sub};
use crate::recipes::*;
use pairing_plus::bls12_381 as crt;
use pairing_plus::map_to_curve::MapToCurve;
use proptest::prelude::*;
use refmodel::curve::{e1_iso, e2_iso};
use refmodel::enc::in_subgroup;
use refmodel::fld::{Fld, Fq, Fq2, SqrtFld, Z};
use std::sync::OnceLock;
use refmodel::h2c;
use serde::{Deserialize, Serialize};

#[derive(Clone, Debug, Serialize, Deserialize, PartialEq, Eq, Hash)]
pub enum URecipe {
    Fe(Fq2R),
    Zero,
    One,
    MinusOne,
    /// G1 only: +-sqrt(-1/11), the non-zero SSWU-exceptional inputs
    Exceptional(bool),
    /// an input constructed by inverting the SSWU map on a point of the isogenous curve that is special for
    /// a LATER stage of the pipeline: a rational kernel point of the 11-isogeny (G1), a point of small order,
    /// a pure cofactor point [r]R (all mapped to the identity by the composition), a point of order r
    StagePreimage(u16),
    /// an input constructed backwards from a STRUCTURED intermediate value of the SSWU computation:
    /// stage 0: N = Z^2 u^4 + Z u^2, 1: w = Z u^2, 2: u^2, 3: x1 = (-B/A)(1 + 1/N); shape (Fq2 only)
    /// 0: (c,0)  1: (0,c)  2: (c,c)  3: (c,-c); `pick` chooses among the square roots
    Structured { stage: u8, shape: u8, c: FeR, pick: u8 },
    /// G1: an input constructed from a prescribed OUTPUT ordinate: y (or -y) of the SSWU image is the structured
    /// value (Montgomery-limb patterns, limb combinations, boundary values ...): the cubic x^3 + A'x + B' = y^2 is
    /// solved over Fq and the SSWU map inverted at the root. (G2: the value is used as c0 of the input itself.)
    FromY(FeR, u8),
}

/// u with sswu_g1(u) = (x, +-y) for the prescribed y, if the cubic has a root in the image of the map
pub fn u_from_y_g1(y: &Fq, pick: u8) -> Option<Fq> {
    static CACHE: OnceLock<std::sync::Mutex<std::collections::HashMap<(Z, u8), Option<Fq>>>> = OnceLock::new();
    let cache = CACHE.get_or_init(|| std::sync::Mutex::new(std::collections::HashMap::new()));
    if let Some(v) = cache.lock().unwrap().get(&(y.0.clone(), pick)) {
        return v.clone();
    }
    let r = u_from_y_g1_uncached(y, pick);
    cache.lock().unwrap().insert((y.0.clone(), pick), r.clone());
    r
}

fn u_from_y_g1_uncached(y: &Fq, pick: u8) -> Option<Fq> {
    let c = e1_iso();
    let f = vec![c.b.sub(&y.sqr()), c.a.clone(), Fq::zero(), Fq::one()];
    let mut roots = refmodel::fld::poly_roots_fq(&f);
    if roots.is_empty() {
        return None;
    }
    let k = pick as usize % roots.len();
    roots.rotate_left(k);
    for x in roots {
        for yy in [y.clone(), y.neg()] {
            let pre = h2c::sswu_preimages_of_point(&c, &h2c::z1(), &refmodel::curve::Pt::Aff(x.clone(), yy));
            if let Some(u) = pre.get((pick as usize / 4) % std::cmp::max(pre.len(), 1)) {
                return Some(u.clone());
            }
        }
    }
    None
}

/// invert the chain x1 -> N -> w -> u^2 -> u with square roots; None when a root does not exist
fn u_from_stage<F: SqrtFld>(curve: &refmodel::curve::Curve<F>, zc: &F, stage: u8, e: &F, pick: u8) -> Option<F> {
    let inv2 = F::from_u64(2).inv().unwrap();
    let n_to_w = |n: &F| -> Option<F> {
        let s = F::one().add(&n.mul_u64(4)).sqrt()?;
        let s = if pick & 1 == 1 { s.neg() } else { s };
        Some(s.sub(&F::one()).mul(&inv2))
    };
    let w_to_u2 = |w: &F| w.mul(&zc.inv().unwrap());
    let u2_to_u = |u2: &F| -> Option<F> {
        let r = u2.sqrt()?;
        Some(if pick & 2 == 2 { r.neg() } else { r })
    };
    match stage % 4 {
        0 => u2_to_u(&w_to_u2(&n_to_w(e)?)),
        1 => u2_to_u(&w_to_u2(e)),
        2 => u2_to_u(e),
        _ => {
            // x1 = (-B/A)(1 + 1/N)  =>  1/N = -x1 A/B - 1
            let d = e.mul(&curve.a).mul(&curve.b.inv()?).neg().sub(&F::one());
            u2_to_u(&w_to_u2(&n_to_w(&d.inv()?)?))
        }
    }
}

fn structured_u<F: SqrtFld>(curve: &refmodel::curve::Curve<F>, zc: &F, stage: u8, c: &Fq, pick: u8, shape: &dyn Fn(&Fq) -> F) -> F {
    let mut c = c.clone();
    for _ in 0..64 {
        if let Some(u) = u_from_stage(curve, zc, stage, &shape(&c), pick) {
            return u;
        }
        c = c.add(&Fq::one());
    }
    F::one()
}

fn shape_fq2(shape: u8) -> impl Fn(&Fq) -> Fq2 {
    move |c: &Fq| match shape % 4 {
        0 => Fq2::new(c.clone(), Fq::zero()),
        1 => Fq2::new(Fq::zero(), c.clone()),
        2 => Fq2::new(c.clone(), c.clone()),
        _ => Fq2::new(c.clone(), c.neg()),
    }
}

const STAGE_NAMES: [&str; 4] = ["N=Z^2u^4+Zu^2", "w=Zu^2", "u^2", "x1"];
const SHAPE_NAMES: [&str; 4] = ["(c,0)", "(0,c)", "(c,c)", "(c,-c)"];

#[derive(Clone, Debug, Serialize, Deserialize, PartialEq, Eq, Hash)]
pub enum Second {
    Independent(URecipe),
    Same,
    Negated,
    /// constructed u1 not in {u0, -u0} with sswu(u1) = sswu(u0)
    PartnerSame,
    /// constructed u1 not in {u0, -u0} with sswu(u1) = -sswu(u0)
    PartnerInverse,
    /// constructed u1 whose SSWU intermediate t1 = Z u1^2 is tied to t0 = Z u0^2 although the images are unrelated:
    /// kind 0: t1 = -1 - t0 (same t^2 + t, hence the same denominators / Jacobian Z), 1: -t0, 2: 1/t0, 3: t0 + 1,
    /// 4: t0^2, 5: -1 - 1/t0; u1 = +-sqrt(t1 / Z) when the root exists
    SharedIntermediate(u8, bool),
}

const SHARED_KINDS: [&str; 6] = ["t1=-1-t0 (same t^2+t)", "t1=-t0", "t1=1/t0", "t1=t0+1", "t1=t0^2", "t1=-1-1/t0"];

pub fn shared_intermediate<F: refmodel::fld::SqrtFld>(z: &F, u0: &F, kind: u8, neg: bool) -> Option<F> {
    let t0 = z.mul(&u0.sqr());
    let one = F::one();
    let t1 = match kind % 6 {
        0 => one.neg().sub(&t0),
        1 => t0.neg(),
        2 => t0.inv()?,
        3 => t0.add(&one),
        4 => t0.sqr(),
        _ => one.neg().sub(&t0.inv()?),
    };
    let u1 = t1.mul(&z.inv()?).sqrt()?;
    Some(if neg { u1.neg() } else { u1 })
}

#[derive(Clone, Debug, Serialize, Deserialize, PartialEq, Eq, Hash)]
pub struct MapCase {
    pub group: u8,
    pub u0: URecipe,
    pub second: Second,
}

fn u_strategy() -> BoxedStrategy<URecipe> {
    prop_oneof![
        12 => fq2_strategy().prop_map(URecipe::Fe),
        1 => Just(URecipe::Zero),
        1 => Just(URecipe::One),
        1 => Just(URecipe::MinusOne),
        2 => any::<bool>().prop_map(URecipe::Exceptional),
        3 => any::<u16>().prop_map(URecipe::StagePreimage),
        4 => (0u8..4, 0u8..4, fq_strategy(), 0u8..4).prop_map(|(stage, shape, c, pick)| URecipe::Structured { stage, shape, c, pick }),
        1 => (fq_strategy(), any::<u8>()).prop_map(|(y, p)| URecipe::FromY(y, p)),
    ]
    .boxed()
}

/// (class, u) pairs: SSWU preimages of points of E' that are special for the isogeny / cofactor-clearing stages
pub struct StagePool<F> {
    pub items: Vec<(&'static str, F)>,
}

fn build_stage_pool<G: super::c16::IsoGrp>(zc: &G::F) -> StagePool<G::F>
where
    G::F: SqrtFld,
{
    use refmodel::curve::Pt;
    let curve = G::iso_curve();
    let pool = G::iso_pool();
    let n = G::order();
    let rr = refmodel::consts::r();
    let mut cands: Vec<(&'static str, Pt<G::F>)> = vec![];
    for s in &pool.order121 {
        let k = curve.mul(&Z::from(11u32), s);
        let mut acc = k.clone();
        for _ in 0..10 {
            cands.push(("isogeny-kernel-point", acc.clone()));
            acc = curve.add(&acc, &k);
        }
    }
    for v in &pool.small_order {
        for p in v {
            let mut acc = p.clone();
            for _ in 0..4 {
                if !acc.is_inf() {
                    cands.push(("small-order-point", acc.clone()));
                    cands.push(("small-order-point", curve.neg(&acc)));
                }
                acc = curve.add(&acc, p);
            }
        }
    }
    for (_, p) in &pool.structured {
        cands.push(("structured-x-point (incl. points shared with the target curve)", p.clone()));
    }
    let h = &n / rr;
    for f in &pool.full {
        let c = curve.mul(&rr, f);
        cands.push(("pure-cofactor-point", c.clone()));
        cands.push(("pure-cofactor-point", curve.neg(&c)));
        cands.push(("order-r-point-of-isogenous-curve", curve.mul(&h, f)));
    }
    let mut items = vec![];
    for (cl, p) in cands {
        for u in h2c::sswu_preimages_of_point(&curve, zc, &p) {
            items.push((cl, u));
        }
    }
    StagePool { items }
}

static SPOOL1: OnceLock<StagePool<Fq>> = OnceLock::new();
static SPOOL2: OnceLock<StagePool<Fq2>> = OnceLock::new();

pub fn stage_pool_g1() -> &'static StagePool<Fq> {
    SPOOL1.get_or_init(|| build_stage_pool::<G1m>(&h2c::z1()))
}
pub fn stage_pool_g2() -> &'static StagePool<Fq2> {
    SPOOL2.get_or_init(|| build_stage_pool::<G2m>(&h2c::z2()))
}

fn pick<T>(v: &[T], i: u16) -> &T {
    &v[(i as usize * v.len()) >> 16]
}

pub fn structured_class(group: u8, u: &URecipe) -> Option<String> {
    match u {
        URecipe::Structured { stage, shape, .. } => Some(if group == 0 {
            format!("u-from-structured-intermediate:{}", STAGE_NAMES[*stage as usize % 4])
        } else {
            format!("u-from-structured-intermediate:{}:{}", STAGE_NAMES[*stage as usize % 4], SHAPE_NAMES[*shape as usize % 4])
        }),
        _ => None,
    }
}

fn stage_class(group: u8, u: &URecipe) -> Option<&'static str> {
    match u {
        URecipe::StagePreimage(i) => Some(if group == 0 { pick(&stage_pool_g1().items, *i).0 } else { pick(&stage_pool_g2().items, *i).0 }),
        _ => None,
    }
}

fn map_case_strategy(group: u8) -> BoxedStrategy<MapCase> {
    let second = prop_oneof![
        6 => u_strategy().prop_map(Second::Independent),
        3 => Just(Second::Same),
        3 => Just(Second::Negated),
        4 => Just(Second::PartnerSame),
        4 => Just(Second::PartnerInverse),
        6 => (0u8..6, any::<bool>()).prop_map(|(k, n)| Second::SharedIntermediate(k, n)),
    ];
    (u_strategy(), second).prop_map(move |(u0, second)| MapCase { group, u0, second }).boxed()
}

pub fn u_g1(u: &URecipe) -> Fq {
    match u {
        URecipe::Fe(f) => f.build().c0,
        URecipe::Zero => Fq::zero(),
        URecipe::One => Fq::one(),
        URecipe::MinusOne => Fq::one().neg(),
        URecipe::Exceptional(s) => {
            let (a, b) = h2c::g1_exceptional_roots();
            if *s { a } else { b }
        }
        URecipe::StagePreimage(i) => pick(&stage_pool_g1().items, *i).1.clone(),
        URecipe::Structured { stage, c, pick, .. } => structured_u(&e1_iso(), &h2c::z1(), *stage, &c.fq(), *pick, &|c: &Fq| c.clone()),
        URecipe::FromY(y, pick) => u_from_y_g1(&y.fq(), *pick).unwrap_or_else(|| y.fq()),
    }
}

pub fn u_g2(u: &URecipe) -> Fq2 {
    match u {
        URecipe::Fe(f) => f.build(),
        URecipe::Zero => Fq2::zero(),
        URecipe::One => Fq2::one(),
        URecipe::MinusOne => Fq2::one().neg(),
        // no exceptional inputs in Fq2 besides 0: use the embedded Fq roots (ordinary inputs there)
        URecipe::Exceptional(s) => {
            let (a, b) = h2c::g1_exceptional_roots();
            Fq2::new(if *s { a } else { b }, Fq::zero())
        }
        URecipe::StagePreimage(i) => pick(&stage_pool_g2().items, *i).1.clone(),
        URecipe::Structured { stage, shape, c, pick } => structured_u(&e2_iso(), &h2c::z2(), *stage, &c.fq(), *pick, &shape_fq2(*shape)),
        URecipe::FromY(y, pick) => Fq2::new(y.fq(), Fq::from_u64(*pick as u64)),
    }
}

fn check_map(c: &MapCase, info: &mut Info) -> Result<(), String> {
    if let Some(cl) = stage_class(c.group, &c.u0) {
        info.class(format!("u0-sswu-preimage-of:{}", cl));
        info.nt();
    }
    if let Some(cl) = structured_class(c.group, &c.u0) {
        info.class(cl);
        info.nt();
    }
    if let Second::Independent(u) = &c.second {
        if let Some(cl) = stage_class(c.group, u) {
            info.class(format!("u1-sswu-preimage-of:{}", cl));
            info.nt();
        }
    }
    if c.group == 0 {
        let u0 = u_g1(&c.u0);
        if h2c::sswu_is_exceptional(&h2c::z1(), &u0) {
            info.class("u0-sswu-exceptional");
        }
        // single map
        let want = h2c::map_to_curve_g1(&u0);
        let got = cr("map_to_curve", || <crt::G1 as MapToCurve<crt::G1>>::map_to_curve(&fq_c(&u0)))?;
        let gm = proj_m::<G1m>(&got);
        if gm != want {
            return Err(format!("G1 map_to_curve({:?}): crate {} but clear_cofactor(iso(sswu(u))) = {}", u0, pt_brief(&gm), pt_brief(&want)));
        }
        if !in_subgroup(&gm) {
            return Err(format!("G1 map_to_curve({:?}) outside the subgroup", u0));
        }
        // pair
        let u1 = match &c.second {
            Second::Independent(u) => {
                info.class("pair:independent");
                u_g1(u)
            }
            Second::Same => {
                info.class("pair:u1=u0");
                info.nt();
                u0.clone()
            }
            Second::Negated => {
                info.class("pair:u1=-u0");
                info.nt();
                u0.neg()
            }
            Second::PartnerSame | Second::PartnerInverse => {
                let same = matches!(c.second, Second::PartnerSame);
                match h2c::sswu_partner(&e1_iso(), &h2c::z1(), &u0, same) {
                    Some(p) => {
                        info.class(if same { "pair:constructed-coinciding-images" } else { "pair:constructed-inverse-images" });
                        info.nt();
                        p
                    }
                    None => {
                        info.class("pair:no-partner-exists (fallback u1=u0)");
                        u0.clone()
                    }
                }
            }
            Second::SharedIntermediate(kind, neg) => match shared_intermediate(&h2c::z1(), &u0, *kind, *neg) {
                Some(p) => {
                    info.class(format!("pair:shared-intermediate {}", SHARED_KINDS[*kind as usize % 6]));
                    info.nt();
                    p
                }
                None => {
                    info.class("pair:shared-intermediate has no root (fallback u1=u0)");
                    u0.clone()
                }
            },
        };
        let want = h2c::map2_to_curve_g1(&u0, &u1);
        let got = cr("map2_to_curve", || <crt::G1 as MapToCurve<crt::G1>>::map2_to_curve(&fq_c(&u0), &fq_c(&u1)))?;
        let gm = proj_m::<G1m>(&got);
        if gm != want {
            return Err(format!("G1 map2_to_curve({:?}, {:?}): crate {} but clear_cofactor(iso(sswu(u0)) + iso(sswu(u1))) = {}", u0, u1, pt_brief(&gm), pt_brief(&want)));
        }
        if !in_subgroup(&gm) {
            return Err(format!("G1 map2_to_curve({:?}, {:?}) outside the subgroup", u0, u1));
        }
        if want.is_inf() {
            info.class("result-identity");
        }
    } else {
        let u0 = u_g2(&c.u0);
        let want = h2c::map_to_curve_g2(&u0);
        let got = cr("map_to_curve", || <crt::G2 as MapToCurve<crt::G2>>::map_to_curve(&fq2_c(&u0)))?;
        let gm = proj_m::<G2m>(&got);
        if gm != want {
            return Err(format!("G2 map_to_curve({:?}): crate {} but clear_cofactor(iso(sswu(u))) = {}", u0, pt_brief(&gm), pt_brief(&want)));
        }
        if !in_subgroup(&gm) {
            return Err(format!("G2 map_to_curve({:?}) outside the subgroup", u0));
        }
        let u1 = match &c.second {
            Second::Independent(u) => {
                info.class("pair:independent");
                u_g2(u)
            }
            Second::Same => {
                info.class("pair:u1=u0");
                info.nt();
                u0.clone()
            }
            Second::Negated => {
                info.class("pair:u1=-u0");
                info.nt();
                u0.neg()
            }
            Second::PartnerSame | Second::PartnerInverse => {
                let same = matches!(c.second, Second::PartnerSame);
                match h2c::sswu_partner(&e2_iso(), &h2c::z2(), &u0, same) {
                    Some(p) => {
                        info.class(if same { "pair:constructed-coinciding-images" } else { "pair:constructed-inverse-images" });
                        info.nt();
                        p
                    }
                    None => {
                        info.class("pair:no-partner-exists (fallback u1=u0)");
                        u0.clone()
                    }
                }
            }
            Second::SharedIntermediate(kind, neg) => match shared_intermediate(&h2c::z2(), &u0, *kind, *neg) {
                Some(p) => {
                    info.class(format!("pair:shared-intermediate {}", SHARED_KINDS[*kind as usize % 6]));
                    info.nt();
                    p
                }
                None => {
                    info.class("pair:shared-intermediate has no root (fallback u1=u0)");
                    u0.clone()
                }
            },
        };
        let want = h2c::map2_to_curve_g2(&u0, &u1);
        let got = cr("map2_to_curve", || <crt::G2 as MapToCurve<crt::G2>>::map2_to_curve(&fq2_c(&u0), &fq2_c(&u1)))?;
        let gm = proj_m::<G2m>(&got);
        if gm != want {
            return Err(format!("G2 map2_to_curve({:?}, {:?}): crate {} but clear_cofactor(iso(sswu(u0)) + iso(sswu(u1))) = {}", u0, u1, pt_brief(&gm), pt_brief(&want)));
        }
        if !in_subgroup(&gm) {
            return Err(format!("G2 map2_to_curve({:?}, {:?}) outside the subgroup", u0, u1));
        }
        if want.is_inf() {
            info.class("result-identity");
        }
    }
    Ok(())
}

/// related inputs back to back: u, -u, u again, a partner, ... each compared with the model
#[derive(Clone, Debug, Serialize, Deserialize, PartialEq, Eq, Hash)]
pub struct SeqCase {
    pub group: u8,
    pub u0: URecipe,
    pub steps: Vec<Second>,
}

fn seq_strategy() -> BoxedStrategy<SeqCase> {
    let second = prop_oneof![
        2 => u_strategy().prop_map(Second::Independent),
        2 => Just(Second::Same),
        2 => Just(Second::Negated),
        2 => Just(Second::PartnerSame),
        2 => Just(Second::PartnerInverse),
        3 => (0u8..6, any::<bool>()).prop_map(|(k, n)| Second::SharedIntermediate(k, n)),
    ];
    (0u8..2, u_strategy(), proptest::collection::vec(second, 2..5)).prop_map(|(group, u0, steps)| SeqCase { group, u0, steps }).boxed()
}

fn check_seq(c: &SeqCase, info: &mut Info) -> Result<(), String> {
    for (i, s) in c.steps.iter().enumerate() {
        let mut tmp = Info::default();
        check_map(&MapCase { group: c.group, u0: c.u0.clone(), second: s.clone() }, &mut tmp).map_err(|m| format!("call #{} of a sequence on related inputs: {}", i, m))?;
    }
    info.nt();
    info.class(format!("steps={}", c.steps.len()));
    Ok(())
}

crate::long_sub!(run_long_history, [9, 10]);

pub fn def() -> PropDef {
    PropDef {
        id: "C14",
        rule: "u from the field-element generator plus 0, +-1, (G1) the SSWU-exceptional roots +-sqrt(-1/11), and inputs constructed by inverting the SSWU map on points of E' that are special for the later stages (rational kernel points of the 11-isogeny, small-order points, pure cofactor points [r]R - the composition sends all of them to the identity - and order-r points), and inputs constructed backwards (square roots) from structured intermediate values of the SSWU computation; pairs (u0, u1): independent, u1 = u0, u1 = -u0, and partners constructed by the model (solving two quadratics for Z u'^2) with u1 not in {+-u0} and sswu(u1) = sswu(u0) resp. = -sswu(u0), and second inputs whose intermediate t1 = Z u1^2 is tied to t0 = Z u0^2 (t1 = -1 - t0: same t^2 + t and therefore the same Jacobian Z of the two SSWU images; -t0, 1/t0, t0 + 1, t0^2, -1 - 1/t0) while the images are unrelated points. Oracle: model clear_cofactor(iso(sswu(u))) and clear_cofactor(iso(sswu(u0)) + iso(sswu(u1))) with + the model law on the target curve; model subgroup test; no panic. Non-trivial = pair with coinciding or inverse SSWU images, or an input that is a constructed SSWU preimage of a stage-special point or backwards from a structured intermediate value (N, Z u^2, u^2 or x1 of shape (c,0), (0,c), (c,c), (c,-c) in Fq2; the generator's structured Fq values in G1); distinct = distinct cases",
        needs_pairing: false,
        subs: vec![
            Box::new(crate::engine::EnumSub { name: "long-history", rule: super::longhist::RULE, run: run_long_history, replay: super::longhist::replay, exhaustive: false }),
            Box::new(crate::engine::EnumSub { name: "two-input-bursts", rule: super::longhist::BURST_RULE, run: run_two_input_bursts, replay: super::longhist::replay_burst, exhaustive: false }),
            Box::new(Sub { name: "g1", rule: "G1 map_to_curve and map2_to_curve vs model composition", quick: 3_750, thorough: 50_000, strategy: || boxed(map_case_strategy(0)), check: check_map }),
            Box::new(Sub { name: "g2", rule: "G2 map_to_curve and map2_to_curve vs model composition", quick: 1_000, thorough: 12_000, strategy: || boxed(map_case_strategy(1)), check: check_map }),
            Box::new(Sub { name: "related-sequences", rule: "2..4 calls back to back on the same u0 with related second inputs (u0, -u0, constructed partners, independent), each compared with the model (no dependence on earlier calls)", quick: 300, thorough: 8_000, strategy: || boxed(seq_strategy()), check: check_seq }),
        ],
        assumptions: COMMON_ASSUMPTIONS.to_vec(),
    }
}
