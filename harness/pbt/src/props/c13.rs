//! C13 - expand_message and hash_to_field conform to RFC 9380 for all inputs.

use super::{PropDef, COMMON_ASSUMPTIONS};
use crate::adapt::*;
use crate::engine::{boxed, cr, cr_panics, Info, Sub};
use crate::recipes::*;
use digest::generic_array::GenericArray;
use pairing_plus::bls12_381 as crt;
use pairing_plus::hash_to_field::{hash_to_field, BaseFromRO, ExpandMsg, ExpandMsgXmd, ExpandMsgXof, FromRO};
use proptest::prelude::*;
use refmodel::consts::{q, r};
use refmodel::curve::Words;
use refmodel::fld::{Fq, Fq2, Z};
use refmodel::h2c::{expand_message, hash_to_fq, hash_to_fq2, hash_to_fr, os2ip_mod, Expander};
use serde::{Deserialize, Serialize};

pub fn expander_of(i: u8) -> Expander {
    Expander::all_extended()[i as usize % 8]
}

pub fn crate_expand(e: Expander, msg: &[u8], dst: &[u8], len: usize) -> Vec<u8> {
    match e {
        Expander::XmdSha256 => ExpandMsgXmd::<sha2::Sha256>::expand_message(msg, dst, len),
        Expander::XmdSha512 => ExpandMsgXmd::<sha2::Sha512>::expand_message(msg, dst, len),
        Expander::XofShake128 => ExpandMsgXof::<sha3::Shake128>::expand_message(msg, dst, len),
        Expander::XofShake256 => ExpandMsgXof::<sha3::Shake256>::expand_message(msg, dst, len),
        Expander::XmdSha224 => ExpandMsgXmd::<sha2::Sha224>::expand_message(msg, dst, len),
        Expander::XmdSha384 => ExpandMsgXmd::<sha2::Sha384>::expand_message(msg, dst, len),
        Expander::XmdSha512t224 => ExpandMsgXmd::<sha2::Sha512Trunc224>::expand_message(msg, dst, len),
        Expander::XmdSha512t256 => ExpandMsgXmd::<sha2::Sha512Trunc256>::expand_message(msg, dst, len),
    }
}

#[derive(Clone, Debug, Serialize, Deserialize, PartialEq, Eq, Hash)]
pub enum LenR {
    /// k * b + d  with b the digest size (XMD) or 32 (XOF)
    Blocks(u16, i8),
    Exact(u16),
    /// XMD only: one byte more than 255 blocks and beyond: must abort
    TooLong(u16),
}

#[derive(Clone, Debug, Serialize, Deserialize, PartialEq, Eq, Hash)]
pub struct ExpandCase {
    pub expander: u8,
    pub msg: BytesR,
    pub dst: BytesR,
    pub len: LenR,
}

fn len_strategy() -> BoxedStrategy<LenR> {
    prop_oneof![
        6 => (0u16..8, -1i8..=1).prop_map(|(k, d)| LenR::Blocks(k, d)),
        3 => (0u16..=255, -1i8..=1).prop_map(|(k, d)| LenR::Blocks(k, d)),
        2 => (253u16..=255, -1i8..=1).prop_map(|(k, d)| LenR::Blocks(k, d)),
        4 => (0u16..600).prop_map(LenR::Exact),
        2 => any::<u16>().prop_map(LenR::Exact),
        2 => (0u16..2000).prop_map(LenR::TooLong),
    ]
    .boxed()
}

fn expand_case_strategy() -> BoxedStrategy<ExpandCase> {
    (0u8..8, msg_strategy(), dst_strategy(), len_strategy()).prop_map(|(expander, msg, dst, len)| ExpandCase { expander, msg, dst, len }).boxed()
}

fn check_expand(c: &ExpandCase, info: &mut Info) -> Result<(), String> {
    let e = expander_of(c.expander);
    let msg = c.msg.build();
    let dst = c.dst.build();
    let b = e.xmd_params().map(|p| p.0).unwrap_or(32);
    let len: usize = match &c.len {
        LenR::Blocks(k, d) => std::cmp::max(0, (*k as i64) * b as i64 + *d as i64) as usize,
        LenR::Exact(n) => *n as usize,
        LenR::TooLong(x) => 255 * b + 1 + *x as usize,
    };
    let len = std::cmp::min(len, 65535);
    info.class(format!("{:?}", e));
    let must_abort = e.xmd_params().is_some() && (len + b - 1) / b > 255;
    if must_abort {
        info.class("must-abort (more than 255 blocks)");
        info.nt();
        if !cr_panics(|| crate_expand(e, &msg, &dst, len)) {
            return Err(format!("{:?}: a request of {} bytes (> 255 blocks of {}) returned bytes instead of aborting", e, len, b));
        }
        return Ok(());
    }
    let want = expand_message(e, &msg, &dst, len).ok_or("model refused an in-range request (harness bug)")?;
    let got = cr("expand_message", || crate_expand(e, &msg, &dst, len))?;
    info.class(if len % b == 0 { "len-multiple-of-block" } else { "len-partial-block" });
    info.class(format!("dst-len-class:{}", match dst.len() { 0 => "0", 1..=16 => "1..16", 17..=254 => "17..254", _ => "255" }));
    info.nt_if(len % b != 0 || [55usize, 56, 63, 64, 111, 112, 119, 127, 128, 135, 136, 167, 168].contains(&msg.len()) || dst.len() >= 254 || len > 8 * b);
    if got != want {
        let first = got.iter().zip(want.iter()).position(|(a, b)| a != b);
        return Err(format!(
            "{:?} expand_message(msg {} bytes, dst {} bytes, len {}): crate returned {} bytes, RFC gives {} bytes; first difference at {:?}",
            e,
            msg.len(),
            dst.len(),
            len,
            got.len(),
            want.len(),
            first
        ));
    }
    Ok(())
}

// ---- related requests back to back ---------------------------------------------------------------------

#[derive(Clone, Debug, Serialize, Deserialize, PartialEq, Eq, Hash)]
pub enum ExpVariant {
    Same,
    OtherDst(BytesR),
    OtherMsg(BytesR),
    OtherLen(LenR),
    OtherExpander(u8),
    /// a call outside the property's domain (tag of 256..=400 bytes), outcome ignored, panic caught
    OutOfDomainTag(u8),
    /// move k bytes across the msg | tag boundary (same concatenation, different request)
    ShiftBoundary(i8),
}

/// (msg, dst) with k bytes moved across the boundary; unchanged when there are not enough bytes or the tag would exceed 255
pub fn shift_boundary(msg: &[u8], dst: &[u8], k: i8) -> (Vec<u8>, Vec<u8>) {
    let (mut m, mut d) = (msg.to_vec(), dst.to_vec());
    if k > 0 {
        let k = std::cmp::min(k as usize, m.len());
        if d.len() + k <= 255 {
            let tail = m.split_off(m.len() - k);
            let mut nd = tail;
            nd.extend_from_slice(&d);
            d = nd;
        }
    } else if k < 0 {
        let k = std::cmp::min((-(k as i32)) as usize, d.len());
        let rest = d.split_off(k);
        m.extend_from_slice(&d);
        d = rest;
    }
    (m, d)
}

#[derive(Clone, Debug, Serialize, Deserialize, PartialEq, Eq, Hash)]
pub struct ExpandSeq {
    pub base: ExpandCase,
    pub variants: Vec<ExpVariant>,
}

fn expand_seq_strategy() -> BoxedStrategy<ExpandSeq> {
    let v = prop_oneof![
        1 => Just(ExpVariant::Same),
        3 => dst_strategy().prop_map(ExpVariant::OtherDst),
        3 => msg_strategy().prop_map(ExpVariant::OtherMsg),
        3 => len_strategy().prop_map(ExpVariant::OtherLen),
        2 => (0u8..8).prop_map(ExpVariant::OtherExpander),
        1 => any::<u8>().prop_map(ExpVariant::OutOfDomainTag),
        3 => prop_oneof![Just(1i8), Just(-1i8), -12i8..=12].prop_map(ExpVariant::ShiftBoundary),
    ];
    (expand_case_strategy(), proptest::collection::vec(v, 1..5)).prop_map(|(base, variants)| ExpandSeq { base, variants }).boxed()
}

fn check_expand_seq(c: &ExpandSeq, info: &mut Info) -> Result<(), String> {
    let mut cur = c.base.clone();
    let mut tmp = Info::default();
    check_expand(&cur, &mut tmp)?;
    for v in &c.variants {
        match v {
            ExpVariant::Same => {}
            ExpVariant::OtherDst(d) => cur.dst = d.clone(),
            ExpVariant::OtherMsg(m) => cur.msg = m.clone(),
            ExpVariant::OtherLen(l) => cur.len = l.clone(),
            ExpVariant::OtherExpander(e) => cur.expander = *e,
            ExpVariant::ShiftBoundary(k) => {
                let (m2, d2) = shift_boundary(&cur.msg.build(), &cur.dst.build(), *k);
                cur.msg = BytesR::Lit(m2);
                cur.dst = BytesR::Lit(d2);
                info.class("msg-tag-boundary-shifted");
            }
            ExpVariant::OutOfDomainTag(n) => {
                let long: Vec<u8> = (0..256 + (*n as usize * 145) / 255).map(|i| (i % 251) as u8).collect();
                let e = expander_of(cur.expander);
                let msg = cur.msg.build();
                let _ = cr_panics(|| crate_expand(e, &msg, &long, 32));
                info.class("request-after-an-out-of-domain-call");
            }
        }
        let mut tmp = Info::default();
        check_expand(&cur, &mut tmp).map_err(|m| format!("after a related request: {}", m))?;
    }
    info.nt();
    info.class(format!("requests={}", 1 + c.variants.len()));
    Ok(())
}

// ---- reduction of blocks ---------------------------------------------------------------------

#[derive(Clone, Debug, Serialize, Deserialize, PartialEq, Eq, Hash)]
pub enum BlockR {
    Zero,
    AllOnes,
    /// m * p + d  (just above / below multiples of the modulus)
    NearMultiple(Vec<u64>, i8),
    Uniform(u64),
    Lit(Vec<u8>),
    /// a two-part block hi * 2^(8 low) + lo whose LOW part is j*p + d (clipped to its width): every way of
    /// splitting the block for a two-step reduction sees a low part at / around a small multiple of the modulus;
    /// d = sign * (2^k + e) sweeps the distance to the multiple over all magnitudes.
    /// (low_sel: which split; hi_kind 0: seeded, 1: zero, 2: all ones)
    SplitNearMultiple { low_sel: u8, j: u8, k: u16, e: i8, neg: bool, hi_kind: u8, seed: u64 },
}

fn block_strategy() -> BoxedStrategy<BlockR> {
    prop_oneof![
        1 => Just(BlockR::Zero),
        1 => Just(BlockR::AllOnes),
        4 => (proptest::collection::vec(any::<u64>(), 0..3), -2i8..=2).prop_map(|(m, d)| BlockR::NearMultiple(m, d)),
        6 => any::<u64>().prop_map(BlockR::Uniform),
        1 => proptest::collection::vec(any::<u8>(), 0..8).prop_map(BlockR::Lit),
        6 => (0u8..8, 0u8..16, prop_oneof![2 => 0u16..8, 3 => 0u16..400], -3i8..=3, any::<bool>(), 0u8..3, any::<u64>())
            .prop_map(|(low_sel, j, k, e, neg, hi_kind, seed)| BlockR::SplitNearMultiple { low_sel, j, k, e, neg, hi_kind, seed }),
    ]
    .boxed()
}

pub fn block_bytes(b: &BlockR, n: usize, p: &Z) -> Vec<u8> {
    let m = Z::from(1u32) << (8 * n);
    let v: Z = match b {
        BlockR::Zero => Z::from(0u32),
        BlockR::AllOnes => &m - Z::from(1u32),
        BlockR::NearMultiple(mm, d) => {
            let mult = limbs_to_z(mm);
            let base = mult * p;
            let v = if *d >= 0 { base + Z::from(*d as u32) } else { let dd = Z::from((-(*d as i32)) as u32); if base >= dd { base - dd } else { base } };
            v % &m
        }
        BlockR::Uniform(seed) => {
            let mut w = Words(*seed);
            let mut x = Z::from(0u32);
            for _ in 0..(n + 7) / 8 {
                x = (x << 64) + Z::from(w.next());
            }
            x % &m
        }
        BlockR::Lit(bytes) => Z::from_bytes_be(bytes) % &m,
        BlockR::SplitNearMultiple { low_sel, j, k, e, neg, hi_kind, seed } => {
            let lows = [n / 4, n / 2, 3 * n / 4, n - 8, n - 16, 32, 48, n - 24];
            let mut low = lows[*low_sel as usize % lows.len()];
            if low == 0 || low >= n {
                low = n / 2;
            }
            let lo_mod = Z::from(1u32) << (8 * low);
            let max_j = (&lo_mod - Z::from(1u32)) / p;
            let jj = std::cmp::min(Z::from(*j as u32), max_j);
            let base = jj * p;
            let mag = (Z::from(1u32) << (*k as usize % (8 * low))) + Z::from(e.unsigned_abs() as u32);
            let mag = if *k == 0 { Z::from(e.unsigned_abs() as u32) } else { mag };
            let lo = if *neg { if base >= mag { base - mag } else { base } } else { base + mag };
            let lo = if lo >= lo_mod { &lo_mod - Z::from(1u32) } else { lo };
            let hi_bits = 8 * (n - low);
            let hi = match hi_kind % 3 {
                0 => {
                    let mut w = Words(*seed);
                    let mut x = Z::from(0u32);
                    for _ in 0..(n - low + 7) / 8 {
                        x = (x << 64) + Z::from(w.next());
                    }
                    x % (Z::from(1u32) << hi_bits)
                }
                1 => Z::from(0u32),
                _ => (Z::from(1u32) << hi_bits) - Z::from(1u32),
            };
            (hi << (8 * low)) + lo
        }
    };
    let raw = v.to_bytes_be();
    let mut out = vec![0u8; n - raw.len()];
    out.extend_from_slice(&raw);
    out
}

#[derive(Clone, Debug, Serialize, Deserialize, PartialEq, Eq, Hash)]
pub struct OkmCase {
    pub a: BlockR,
    pub b: BlockR,
}

fn okm_strategy() -> BoxedStrategy<OkmCase> {
    (block_strategy(), block_strategy()).prop_map(|(a, b)| OkmCase { a, b }).boxed()
}

pub fn check_okm(c: &OkmCase, info: &mut Info) -> Result<(), String> {
    info.nt_if(!matches!(c.a, BlockR::Zero));
    info.class(match c.a {
        BlockR::Zero => "zero",
        BlockR::AllOnes => "all-ones",
        BlockR::NearMultiple(_, _) => "near-multiple-of-modulus",
        BlockR::Uniform(_) => "uniform",
        BlockR::Lit(_) => "small-literal",
        BlockR::SplitNearMultiple { .. } => "low-part-near-multiple-of-modulus",
    });
    // Fq: 64 bytes
    let b64 = block_bytes(&c.a, 64, q());
    let got = cr("Fq::from_okm", || crt::Fq::from_okm(GenericArray::from_slice(&b64)))?;
    let want = os2ip_mod(&b64, q());
    if fq_m(&got).0 != want {
        return Err(format!("Fq::from_okm({}) = 0x{:x}, OS2IP mod q = 0x{:x}", super::c04::hex(&b64), fq_m(&got).0, want));
    }
    let got = cr("Fq::from_ro", || <crt::Fq as FromRO>::from_ro(GenericArray::from_slice(&b64)))?;
    if fq_m(&got).0 != want {
        return Err(format!("Fq::from_ro({}) differs from OS2IP mod q", super::c04::hex(&b64)));
    }
    // Fr: 48 bytes
    let b48 = block_bytes(&c.a, 48, r());
    let got = cr("Fr::from_okm", || crt::Fr::from_okm(GenericArray::from_slice(&b48)))?;
    let want = os2ip_mod(&b48, r());
    if fr_m(&got) != want {
        return Err(format!("Fr::from_okm({}) = 0x{:x}, OS2IP mod r = 0x{:x}", super::c04::hex(&b48), fr_m(&got), want));
    }
    // Fq2: two Fq blocks, real part first
    let mut b128 = b64.clone();
    b128.extend_from_slice(&block_bytes(&c.b, 64, q()));
    let got = cr("Fq2::from_ro", || <crt::Fq2 as FromRO>::from_ro(GenericArray::from_slice(&b128)))?;
    let want = Fq2::new(Fq(os2ip_mod(&b128[..64], q())), Fq(os2ip_mod(&b128[64..], q())));
    if fq2_m(&got) != want {
        return Err(format!("Fq2::from_ro({}) = {:?}, expected {:?} (real part first)", super::c04::hex(&b128), fq2_m(&got), want));
    }
    Ok(())
}

// ---- hash_to_field ---------------------------------------------------------------------------

#[derive(Clone, Debug, Serialize, Deserialize, PartialEq, Eq, Hash)]
pub struct H2fCase {
    pub expander: u8,
    /// 0 = Fq, 1 = Fr, 2 = Fq2
    pub field: u8,
    pub msg: BytesR,
    pub dst: BytesR,
    pub count: u8,
}

fn h2f_strategy() -> BoxedStrategy<H2fCase> {
    let count = prop_oneof![8 => 0u8..=8, 1 => 9u8..=60];
    (0u8..8, 0u8..3, msg_strategy(), dst_strategy(), count).prop_map(|(expander, field, msg, dst, count)| H2fCase { expander, field, msg, dst, count }).boxed()
}

fn h2f_crate<T: FromRO>(e: Expander, msg: &[u8], dst: &[u8], count: usize) -> Vec<T> {
    match e {
        Expander::XmdSha256 => hash_to_field::<T, ExpandMsgXmd<sha2::Sha256>>(msg, dst, count),
        Expander::XmdSha512 => hash_to_field::<T, ExpandMsgXmd<sha2::Sha512>>(msg, dst, count),
        Expander::XofShake128 => hash_to_field::<T, ExpandMsgXof<sha3::Shake128>>(msg, dst, count),
        Expander::XofShake256 => hash_to_field::<T, ExpandMsgXof<sha3::Shake256>>(msg, dst, count),
        Expander::XmdSha224 => hash_to_field::<T, ExpandMsgXmd<sha2::Sha224>>(msg, dst, count),
        Expander::XmdSha384 => hash_to_field::<T, ExpandMsgXmd<sha2::Sha384>>(msg, dst, count),
        Expander::XmdSha512t224 => hash_to_field::<T, ExpandMsgXmd<sha2::Sha512Trunc224>>(msg, dst, count),
        Expander::XmdSha512t256 => hash_to_field::<T, ExpandMsgXmd<sha2::Sha512Trunc256>>(msg, dst, count),
    }
}

fn check_h2f(c: &H2fCase, info: &mut Info) -> Result<(), String> {
    let e = expander_of(c.expander);
    let msg = c.msg.build();
    let dst = c.dst.build();
    let per = [64usize, 48, 128][c.field as usize % 3];
    // stay within 255 blocks for XMD (the abort class is covered by the expand sub-check)
    let mut count = c.count as usize;
    if let Some((b, _)) = e.xmd_params() {
        while (count * per + b - 1) / b > 255 {
            count -= 1;
        }
    }
    info.class(format!("{:?}:{}", e, ["Fq", "Fr", "Fq2"][c.field as usize % 3]));
    info.class(format!("count={}", if count > 8 { ">8".to_string() } else { count.to_string() }));
    info.nt_if(count >= 1);
    let ctx = format!("{:?} msg {} bytes dst {} bytes count {}", e, msg.len(), dst.len(), count);
    match c.field % 3 {
        0 => {
            let want = hash_to_fq(e, &msg, &dst, count).ok_or("model refused (harness bug)")?;
            let got: Vec<crt::Fq> = cr("hash_to_field::<Fq>", || h2f_crate(e, &msg, &dst, count))?;
            if got.len() != want.len() || got.iter().zip(want.iter()).any(|(g, w)| fq_m(g) != *w) {
                return Err(format!("hash_to_field::<Fq> differs from the RFC ({})", ctx));
            }
        }
        1 => {
            let want = hash_to_fr(e, &msg, &dst, count).ok_or("model refused (harness bug)")?;
            let got: Vec<crt::Fr> = cr("hash_to_field::<Fr>", || h2f_crate(e, &msg, &dst, count))?;
            if got.len() != want.len() || got.iter().zip(want.iter()).any(|(g, w)| fr_m(g) != *w) {
                return Err(format!("hash_to_field::<Fr> differs from the RFC ({})", ctx));
            }
        }
        _ => {
            let want = hash_to_fq2(e, &msg, &dst, count).ok_or("model refused (harness bug)")?;
            let got: Vec<crt::Fq2> = cr("hash_to_field::<Fq2>", || h2f_crate(e, &msg, &dst, count))?;
            if got.len() != want.len() || got.iter().zip(want.iter()).any(|(g, w)| fq2_m(g) != *w) {
                return Err(format!("hash_to_field::<Fq2> differs from the RFC ({})", ctx));
            }
        }
    }
    Ok(())
}

// ---- every message length / every output length -------------------------------------------------------------
//
// A staging buffer, a block counter or a length field that is wrong for ONE total size is invisible to sampled
// lengths. The sweep evaluates, for each of the eight expanders, every message length 0..=N with three tag lengths
// (N = 16800 quick: past 4096, 8192 and 16384 plus the largest prefix; 70000 thorough: past 65536), and every output length
// up to the XMD limit (255 blocks) resp. 4200 / 65535 bytes for the XOFs, against the model.

fn sweep_msg(e: Expander, lo: usize, hi: usize, dst: &[u8]) -> Result<(), (String, serde_json::Value)> {
    let data: Vec<u8> = (0..hi + 1).map(|i| (i as u32).wrapping_mul(2654435761).to_le_bytes()[1]).collect();
    for n in lo..=hi {
        let msg = &data[..n];
        let want = expand_message(e, msg, dst, 40).ok_or_else(|| ("model refused".to_string(), serde_json::Value::Null))?;
        let case = serde_json::json!({"sweep": "msg", "expander": format!("{:?}", e), "msg_len": n, "dst_len": dst.len()});
        let got = cr("expand_message", || crate_expand(e, msg, dst, 40)).map_err(|m| (m, case.clone()))?;
        if got != want {
            return Err((format!("{:?} expand_message(msg of {} bytes, dst of {} bytes, 40): differs from the RFC (the neighbouring message lengths agree)", e, n, dst.len()), case));
        }
    }
    Ok(())
}

fn sweep_len(e: Expander, hi: usize) -> Result<(), (String, serde_json::Value)> {
    for len in 0..=hi {
        let case = serde_json::json!({"sweep": "len", "expander": format!("{:?}", e), "len": len});
        let want = expand_message(e, b"sweep", b"QUUX-V01-CS02", len).ok_or_else(|| ("model refused".to_string(), serde_json::Value::Null))?;
        let got = cr("expand_message", || crate_expand(e, b"sweep", b"QUUX-V01-CS02", len)).map_err(|m| (m, case.clone()))?;
        if got != want {
            return Err((format!("{:?} expand_message(len_in_bytes = {}): differs from the RFC", e, len), case));
        }
    }
    Ok(())
}

fn sweep_jobs(tier: crate::engine::Tier) -> Vec<(Expander, u8, usize, usize, usize)> {
    // (expander, kind 0 = message sweep / 1 = output-length sweep, lo, hi, tag length)
    let nmax = if tier == crate::engine::Tier::Quick { 16_800 } else { 70_000 };
    let mut jobs = vec![];
    for e in Expander::all_extended().iter() {
        for dl in [0usize, 43, 255] {
            let mut lo = 0;
            while lo <= nmax {
                let hi = std::cmp::min(lo + 2_099, nmax);
                jobs.push((*e, 0u8, lo, hi, dl));
                lo = hi + 1;
            }
        }
        let lmax = match e.xmd_params() {
            Some((b, _)) => 255 * b,
            None => if tier == crate::engine::Tier::Quick { 4_200 } else { 65_535 },
        };
        jobs.push((*e, 1u8, 0, lmax, 13));
    }
    jobs
}

fn run_sweep(ctx: &crate::engine::Ctx, rec: &mut dyn FnMut(serde_json::Value, Info)) -> Result<(), (String, serde_json::Value)> {
    let jobs = sweep_jobs(ctx.tier);
    let res = crate::engine::par_map(ctx.threads, jobs.len(), |i| {
        let (e, kind, lo, hi, dl) = jobs[i];
        let dst: Vec<u8> = (0..dl).map(|k| b'A' + (k % 26) as u8).collect();
        if kind == 0 { sweep_msg(e, lo, hi, &dst) } else { sweep_len(e, hi) }
    });
    for (i, r) in res.into_iter().enumerate() {
        r?;
        let (e, kind, lo, hi, dl) = jobs[i];
        let mut info = Info::default();
        info.nt();
        info.class(if kind == 0 { format!("{:?}:every-message-length:tag-{}", e, dl) } else { format!("{:?}:every-output-length", e) });
        rec(serde_json::json!({"expander": format!("{:?}", e), "kind": kind, "lo": lo, "hi": hi, "dst_len": dl}), info);
    }
    Ok(())
}

/// message lengths far beyond "long": around the sizes at which an implementation would start to absorb the
/// message in pieces (64 KiB, 10^5, 128 KiB, 10^6, 1 MiB, 2 MiB, 5 * 10^6, 16 MiB; thorough: 64 MiB and 256 MiB), each
/// with a remainder that is not a multiple of any piece size
pub fn huge_lens(tier: crate::engine::Tier) -> Vec<usize> {
    let mut v = vec![65_535, 65_536, 65_537, 100_001, 131_073, 1_000_001, (1 << 20) - 1, 1 << 20, (1 << 20) + 1, (1 << 20) + 12_345, (1 << 21) + 1, 3 * (1 << 20) + 77_777, 5_000_011, (1 << 24) + 1];
    if tier != crate::engine::Tier::Quick {
        v.extend([(1 << 26) + 5, (1 << 28) + 3]);
    }
    v
}

fn run_huge(ctx: &crate::engine::Ctx, rec: &mut dyn FnMut(serde_json::Value, Info)) -> Result<(), (String, serde_json::Value)> {
    let mut jobs = vec![];
    for e in Expander::all_extended().iter() {
        for n in huge_lens(ctx.tier) {
            jobs.push((*e, n));
        }
    }
    let res = crate::engine::par_map(ctx.threads, jobs.len(), |i| sweep_msg(jobs[i].0, jobs[i].1, jobs[i].1, b"QUUX-V01-CS02-huge"));
    for (i, r) in res.into_iter().enumerate() {
        r?;
        let mut info = Info::default();
        info.nt();
        info.class(format!("{:?}:huge-message", jobs[i].0));
        info.class(format!("msg_len>={}", if jobs[i].1 > (1 << 20) { "1MiB" } else { "64KiB" }));
        rec(serde_json::json!({"sweep": "msg", "expander": format!("{:?}", jobs[i].0), "msg_len": jobs[i].1, "dst_len": 18, "huge": true}), info);
    }
    Ok(())
}

fn replay_sweep(v: &serde_json::Value) -> Result<(), String> {
    let name = v["expander"].as_str().unwrap_or("XmdSha256").to_string();
    let e = *Expander::all_extended().iter().find(|e| format!("{:?}", e) == name).unwrap_or(&Expander::XmdSha256);
    if v["sweep"].as_str() == Some("len") {
        let l = v["len"].as_u64().unwrap_or(0) as usize;
        return sweep_len(e, l).map_err(|(m, _)| m);
    }
    let n = v["msg_len"].as_u64().or(v["hi"].as_u64()).unwrap_or(0) as usize;
    let lo = v["msg_len"].as_u64().or(v["lo"].as_u64()).unwrap_or(0) as usize;
    let dl = v["dst_len"].as_u64().unwrap_or(0) as usize;
    let dst: Vec<u8> = if v["huge"].as_bool() == Some(true) { b"QUUX-V01-CS02-huge".to_vec() } else { (0..dl).map(|k| b'A' + (k % 26) as u8).collect() };
    sweep_msg(e, lo, n, &dst).map_err(|(m, _)| m)
}

crate::long_sub!(run_long_history, [14]);

pub fn def() -> PropDef {
    PropDef {
        id: "C13",
        rule: "(expander in {XMD-SHA-256, XMD-SHA-512, XOF-SHAKE128, XOF-SHAKE256 and - the XMD construction being generic in the Merkle-Damgard hash - XMD-SHA-224, XMD-SHA-384, XMD-SHA-512/224, XMD-SHA-512/256, whose digest size is not half the block size}, msg, dst, len) with message lengths 0, 1 and around every SHA-2 / SHAKE block boundary, occasional long messages (<= 20 kB), tags of length 0, 1, 16, 43, 254, 255 and others, lengths k*b+-1 for k up to 255, exact lengths up to 65535, and the must-abort class 255*b+1.. for XMD; 64-/48-/128-byte blocks (zero, all-ones, m*p+-d just around multiples of the modulus, two-part blocks whose low part - for every plausible split position - is j*p +- (2^k + e), uniform) through from_okm / from_ro; hash_to_field for Fq, Fr, Fq2 with count 0..=8 (occasionally up to 60). Oracle: model expand_message_xmd / _xof and OS2IP mod p written from RFC 9380 section 5. Non-trivial = partial block, block-boundary message, long tag or many blocks (expand); non-zero block; count >= 1; distinct = distinct cases",
        needs_pairing: false,
        subs: vec![
            Box::new(crate::engine::EnumSub { name: "long-history", rule: super::longhist::RULE, run: run_long_history, replay: super::longhist::replay, exhaustive: false }),
            Box::new(crate::engine::EnumSub { name: "two-input-bursts", rule: super::longhist::BURST_RULE, run: run_two_input_bursts, replay: super::longhist::replay_burst, exhaustive: false }),
            Box::new(crate::engine::EnumSub { name: "length-sweep", rule: "for each of the eight expanders: EVERY message length 0..=16800 (thorough: 0..=70000) with tags of 0, 43 and 255 bytes, and EVERY output length up to 255 blocks (XMD) resp. 4200 / 65535 bytes (XOF), each compared with the model", run: run_sweep, replay: replay_sweep, exhaustive: false }),
            Box::new(crate::engine::EnumSub { name: "huge-messages", rule: "for each of the eight expanders: messages of 64 KiB .. 16 MiB (thorough: .. 256 MiB) around the sizes at which an implementation would absorb the message in pieces (2^16, 10^5, 2^17, 10^6, 2^20 - 1, 2^20, 2^20 + 1, 2^20 + 12345, 2^21 + 1, 3 * 2^20 + 77777, 5 * 10^6 + 11, 2^24 + 1), each compared with the model", run: run_huge, replay: replay_sweep, exhaustive: false }),
            Box::new(Sub { name: "expand-message", rule: "bytes equal the RFC; requests beyond 255 blocks abort", quick: 60_000, thorough: 250_000, strategy: || boxed(expand_case_strategy()), check: check_expand }),
            Box::new(Sub { name: "related-requests", rule: "a request followed back to back by 1..4 related requests (other tag, other message, other length, other expander, same again), each compared with the model; out-of-domain requests (tags beyond 255 bytes) interleaved, outcome ignored", quick: 30_000, thorough: 300_000, strategy: || boxed(expand_seq_strategy()), check: check_expand_seq }),
            Box::new(Sub { name: "block-reduction", rule: "from_okm / from_ro == OS2IP(block) mod p for Fq (64), Fr (48), Fq2 (2 x 64, real first)", quick: 200_000, thorough: 1_000_000, strategy: || boxed(okm_strategy()), check: check_okm }),
            Box::new(Sub { name: "hash-to-field", rule: "hash_to_field::<Fq|Fr|Fq2, expander>(msg, dst, count) == consecutive reduced blocks of the model expansion", quick: 40_000, thorough: 150_000, strategy: || boxed(h2f_strategy()), check: check_h2f }),
            super::corpus_sub_expand(),
        ],
        assumptions: {
            let mut v = COMMON_ASSUMPTIONS.to_vec();
            v.push("tags are at most 255 bytes and requested lengths at most 65535 bytes, the RFC limits named by the property");
            v
        },
    }
}
