//! C12 - final exponentiation is f -> f^(3(q^12-1)/r) on every non-zero f.

use super::c09::{ext_strategy, ExtR};
use super::{PropDef, COMMON_ASSUMPTIONS};
use crate::adapt::*;
use crate::engine::{boxed, cr, Info, Sub};
use crate::recipes::*;
use pairing_plus::bls12_381::Bls12;
use pairing_plus::{CurveAffine, Engine};
use proptest::prelude::*;
use refmodel::consts::{r, C};
use refmodel::fld::{Fld, Fq12};
use serde::{Deserialize, Serialize};

#[derive(Clone, Debug, Serialize, Deserialize, PartialEq, Eq, Hash)]
pub enum FeIn {
    Elem(ExtR),
    /// output of a Miller loop on pool points (i, j)
    Miller(u8, u8),
    /// product of an element and a Miller-loop output
    Product(ExtR, u8, u8),
    /// an element with multiplicative structure, computed by the model from e (1 when e = 0):
    /// kind 0: e itself; 1: e^((q^6-1)(q^2+1)) (cyclotomic subgroup: unitary, what the hard part is fed);
    /// 2: e^(3(q^12-1)/r) (an element of GT); then op 0: as is, 1: inverse, 2: conjugate, 3..: Frobenius^(op-2),
    /// and finally multiplied by the subfield element `c` when `times` is set (fe must not change)
    Derived { e: ExtR, kind: u8, op: u8, times: Option<ExtR> },
}

fn fein_strategy() -> BoxedStrategy<FeIn> {
    prop_oneof![
        8 => ext_strategy(12).prop_map(FeIn::Elem),
        3 => (0u8..POOL_SUB as u8, 0u8..POOL_SUB as u8).prop_map(|(i, j)| FeIn::Miller(i, j)),
        2 => (ext_strategy(12), 0u8..POOL_SUB as u8, 0u8..POOL_SUB as u8).prop_map(|(e, i, j)| FeIn::Product(e, i, j)),
        5 => (ext_strategy(12), 0u8..3, 0u8..8, proptest::option::of(ext_strategy(6))).prop_map(|(e, kind, op, times)| FeIn::Derived { e, kind, op, times }),
    ]
    .boxed()
}

fn miller_out(i: u8, j: u8) -> Result<Fq12, String> {
    let p = aff_c::<G1m>(&G1m::pool().sub[i as usize % POOL_SUB].1);
    let q = aff_c::<G2m>(&G2m::pool().sub[j as usize % POOL_SUB].1);
    let f = cr("miller_loop", || Bls12::miller_loop([(&p.prepare(), &q.prepare())].iter()))?;
    Ok(fq12_m(&f))
}

fn build(f: &FeIn) -> Result<Fq12, String> {
    Ok(match f {
        FeIn::Elem(e) => Fq12::from_tower(&e.tower(12)),
        FeIn::Miller(i, j) => miller_out(*i, *j)?,
        FeIn::Product(e, i, j) => Fq12::from_tower(&e.tower(12)).mul(&miller_out(*i, *j)?),
        FeIn::Derived { e, kind, op, times } => {
            let mut v = Fq12::from_tower(&e.tower(12));
            if v.is_zero() {
                v = Fq12::one();
            }
            let v = match kind % 3 {
                0 => v,
                1 => {
                    let t = v.conj().mul(&v.inv().unwrap());
                    t.frobenius(2).mul(&t)
                }
                _ => v.pow(&C().final_exp),
            };
            let v = match op % 8 {
                0 => v,
                1 => v.inv().unwrap(),
                2 => v.conj(),
                k => v.frobenius(k as usize - 2),
            };
            match times {
                Some(c) => {
                    let cm = Fq12::from_tower(&c.tower(6));
                    if cm.is_zero() { v } else { v.mul(&cm) }
                }
                None => v,
            }
        }
    })
}

fn class_of(f: &FeIn, v: &Fq12) -> String {
    match f {
        FeIn::Elem(e) => {
            if v.is_zero() {
                "zero".into()
            } else {
                format!("element:{}", e.shape(12))
            }
        }
        FeIn::Miller(_, _) => "miller-output".into(),
        FeIn::Product(_, _, _) => "element-times-miller-output".into(),
        FeIn::Derived { kind, op, times, .. } => format!(
            "derived:{}:{}{}",
            ["element", "cyclotomic-subgroup-element", "GT-element"][*kind as usize % 3],
            match op % 8 { 0 => "as-is", 1 => "inverse", 2 => "conjugate", _ => "frobenius-image" },
            if times.is_some() { ":times-subfield-element" } else { "" }
        ),
    }
}

/// does v lie in a proper subfield containing it by construction of the recipe?
fn in_proper_subfield(v: &Fq12) -> bool {
    // Fq6: no odd powers of w ; Fq4 = Fq2(w^3): only coefficients of w^0, w^3, w^6, w^9
    let fq6 = (0..12).filter(|i| i % 2 == 1).all(|i| v.0[i] == refmodel::fld::Z::from(0u32));
    let fq4 = (0..12).filter(|i| i % 3 != 0).all(|i| v.0[i] == refmodel::fld::Z::from(0u32));
    fq6 || fq4
}

#[derive(Clone, Debug, Serialize, Deserialize, PartialEq, Eq, Hash)]
pub struct PowCase {
    pub f: FeIn,
}

fn check_power(c: &PowCase, info: &mut Info) -> Result<(), String> {
    let fm = build(&c.f)?;
    info.class(class_of(&c.f, &fm));
    info.nt_if(!fm.is_zero() && !in_proper_subfield(&fm));
    let got = cr("final_exponentiation", || Bls12::final_exponentiation(&fq12_c(&fm)))?;
    match got {
        None => {
            if !fm.is_zero() {
                return Err(format!("final_exponentiation reported failure for the non-zero element {:?}", fm));
            }
        }
        Some(g) => {
            if fm.is_zero() {
                return Err("final_exponentiation(0) returned a value".into());
            }
            let want = fm.pow(&C().final_exp);
            let gm = fq12_m(&g);
            if gm != want {
                let alt = fm.pow(&C().final_exp_nothree);
                return Err(format!("final_exponentiation({:?}) = {:?} but f^(3(q^12-1)/r) = {:?}{}", fm, gm, want, if gm == alt { " (the crate value equals f^((q^12-1)/r), the factor 3 is missing)" } else { "" }));
            }
        }
    }
    Ok(())
}

#[derive(Clone, Debug, Serialize, Deserialize, PartialEq, Eq, Hash)]
pub struct RelCase {
    pub f: FeIn,
    pub g: FeIn,
}

fn check_relations(c: &RelCase, info: &mut Info) -> Result<(), String> {
    let fm = build(&c.f)?;
    let gm = build(&c.g)?;
    info.class(class_of(&c.f, &fm));
    info.nt_if(!fm.is_zero() && !in_proper_subfield(&fm));
    let fe = |x: &Fq12| -> Result<Option<Fq12>, String> { Ok(cr("final_exponentiation", || Bls12::final_exponentiation(&fq12_c(x)))?.map(|v| fq12_m(&v))) };
    let ef = fe(&fm)?;
    if ef.is_none() != fm.is_zero() {
        return Err(format!("final_exponentiation fails exactly for zero: violated on {:?}", fm));
    }
    let eg = fe(&gm)?;
    if eg.is_none() != gm.is_zero() {
        return Err(format!("final_exponentiation fails exactly for zero: violated on {:?}", gm));
    }
    let (ef, eg) = match (ef, eg) {
        (Some(a), Some(b)) => (a, b),
        _ => {
            info.class("zero-operand");
            return Ok(());
        }
    };
    // multiplicative
    let efg = fe(&fm.mul(&gm))?.ok_or("final_exponentiation(f*g) failed for non-zero f, g")?;
    if efg != ef.mul(&eg) {
        return Err(format!("final_exponentiation is not multiplicative on f = {:?}, g = {:?}", fm, gm));
    }
    // into the r-th roots of unity
    if ef.pow(r()) != Fq12::one() {
        return Err(format!("final_exponentiation({:?})^r != 1", fm));
    }
    // proper subfields go to 1
    if in_proper_subfield(&fm) {
        info.class("proper-subfield");
        if ef != Fq12::one() {
            return Err(format!("final_exponentiation of the subfield element {:?} is {:?}, expected 1", fm, ef));
        }
    }
    Ok(())
}

/// related arguments back to back on one thread: f, then conj f / 1/f / -f / frob^k f / f again / f*c (c in Fq6),
/// each compared with the model power (a memo keyed by a function of the argument needs exactly this)
#[derive(Clone, Debug, Serialize, Deserialize, PartialEq, Eq, Hash)]
pub struct SeqCase {
    pub f: FeIn,
    pub steps: Vec<(u8, ExtR)>,
}

fn seq_strategy() -> BoxedStrategy<SeqCase> {
    (fein_strategy(), proptest::collection::vec((0u8..7, ext_strategy(6)), 2..5)).prop_map(|(f, steps)| SeqCase { f, steps }).boxed()
}

fn fe_vs_model(v: &Fq12, what: &str) -> Result<(), String> {
    let got = cr("final_exponentiation", || Bls12::final_exponentiation(&fq12_c(v)))?;
    match got {
        None => {
            if !v.is_zero() {
                return Err(format!("final_exponentiation({}) reported failure for a non-zero element", what));
            }
        }
        Some(g) => {
            if v.is_zero() {
                return Err(format!("final_exponentiation({}) returned a value for zero", what));
            }
            if fq12_m(&g) != v.pow(&C().final_exp) {
                return Err(format!("final_exponentiation({}) differs from the model power; argument {:?}", what, v));
            }
        }
    }
    Ok(())
}

fn check_seq(c: &SeqCase, info: &mut Info) -> Result<(), String> {
    let f = build(&c.f)?;
    fe_vs_model(&f, "f")?;
    for (i, (op, e)) in c.steps.iter().enumerate() {
        let (name, v) = match op % 7 {
            0 => ("conj f", f.conj()),
            1 => ("1/f", f.inv().unwrap_or_else(Fq12::zero)),
            2 => ("-f", Fq12::zero().sub(&f)),
            3 => ("frob f", f.frobenius(1 + (i % 11))),
            4 => ("f again", f.clone()),
            5 => {
                let cm = Fq12::from_tower(&e.tower(6));
                ("f * c, c in Fq6", if cm.is_zero() { f.clone() } else { f.mul(&cm) })
            }
            _ => ("conj(1/f)", f.inv().unwrap_or_else(Fq12::zero).conj()),
        };
        info.class(format!("then:{}", name));
        fe_vs_model(&v, name).map_err(|m| format!("call #{} of a sequence on related arguments (after final_exponentiation(f)): {}", i + 1, m))?;
    }
    info.nt_if(!f.is_zero() && !in_proper_subfield(&f));
    Ok(())
}

crate::long_sub!(run_long_history, [11]);

pub fn def() -> PropDef {
    PropDef {
        id: "C12",
        rule: "elements of Fq12: zero, one, powers of w, dense / masked coefficient vectors (elements of Fq, Fq2, Fq6, Fq4-type, pure w-odd part), Miller-loop outputs on pool points, products of these, and elements with multiplicative structure computed by the model (cyclotomic-subgroup / unitary elements, GT elements, their inverses, conjugates, Frobenius images, each optionally times an Fq6 element). Oracle: generic square-and-multiply power 3(q^12-1)/r in the flat model ring (exact equality of all 12 coefficients), failure exactly for 0; relations fe(fg) = fe(f)fe(g), fe(f)^r = 1 and proper subfield => 1 evaluated in the model. Non-trivial = f non-zero and outside Fq6 and Fq4; distinct = distinct cases",
        needs_pairing: true,
        subs: vec![
            Box::new(crate::engine::EnumSub { name: "long-history", rule: super::longhist::RULE, run: run_long_history, replay: super::longhist::replay, exhaustive: false }),
            Box::new(crate::engine::EnumSub { name: "two-input-bursts", rule: super::longhist::BURST_RULE, run: run_two_input_bursts, replay: super::longhist::replay_burst, exhaustive: false }),
            Box::new(Sub { name: "model-power", rule: "final_exponentiation(f) == f^(3(q^12-1)/r) by the model; None iff f = 0", quick: 400, thorough: 5000, strategy: || boxed(fein_strategy().prop_map(|f| PowCase { f })), check: check_power }),
            Box::new(Sub { name: "related-sequences", rule: "final_exponentiation(f), then 2..4 calls on related arguments back to back (conj f, 1/f, -f, frob^k f, f again, f*c with c in Fq6, conj(1/f)), each compared with the model power", quick: 150, thorough: 3000, strategy: || boxed(seq_strategy()), check: check_seq }),
            Box::new(Sub { name: "relations", rule: "multiplicative; image has order dividing r; proper subfields map to 1", quick: 3_000, thorough: 40_000, strategy: || boxed((fein_strategy(), fein_strategy()).prop_map(|(f, g)| RelCase { f, g })), check: check_relations }),
        ],
        assumptions: COMMON_ASSUMPTIONS.to_vec(),
    }
}
