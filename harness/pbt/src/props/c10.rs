//! C10 - multi-scalar multiplication returns sum [k_i]P_i for every shape of input.
//! Points are drawn with known discrete logs, so the expected result is [sum k_i a_i mod r]G:
//! one model multiplication regardless of the list length.

use super::{PropDef, COMMON_ASSUMPTIONS};
use crate::adapt::*;
use crate::engine::{boxed, cr, Ctx, EnumSub, Info, Sub, Tier};
use crate::recipes::*;
use num_traits::{One, Zero};
use pairing_plus::CurveAffine;
use proptest::prelude::*;
use refmodel::consts::r;
use refmodel::curve::Pt;
use refmodel::fld::{SqrtFld, Z};
use serde::{Deserialize, Serialize};
use serde_json::{json, Value};

#[derive(Clone, Debug, Serialize, Deserialize, PartialEq, Eq, Hash)]
pub enum PtSel {
    Identity,
    /// [j]G
    Small(u8),
    /// pool subgroup point with known discrete log
    Sub(u8),
}

#[derive(Clone, Debug, Serialize, Deserialize, PartialEq, Eq, Hash)]
pub struct Entry {
    pub pt: PtSel,
    pub neg: bool,
    pub k: ScalarR,
}

#[derive(Clone, Debug, Serialize, Deserialize, PartialEq, Eq, Hash)]
pub struct MsmCase {
    pub group: u8,
    /// the list is this pattern cycled to length n; repetition j adds j*step to each scalar (mod 2^255)
    pub pattern: Vec<Entry>,
    pub n: u32,
    pub step: u64,
    /// window for sum_of_products_pippinger, 1..=20
    pub window: u8,
    /// surplus entries in exactly one of the two lists (ignored by the crate: min of the lengths)
    pub extra_points: u8,
    pub extra_scalars: u8,
    /// limbs (bit i = 64-bit word i) that are forced to zero in EVERY scalar of the list: whole words that are zero
    /// across the list (packed 64-bit quantities at word positions 0 and 2, short scalars, ...)
    #[serde(default)]
    pub zero_limbs: u8,
}

fn entry_strategy() -> BoxedStrategy<Entry> {
    let pt = prop_oneof![
        2 => Just(PtSel::Identity),
        4 => (0u8..=SMALL_MULT_MAX as u8).prop_map(PtSel::Small),
        6 => (0u8..POOL_SUB as u8).prop_map(PtSel::Sub),
    ];
    (pt, any::<bool>(), scalar_strategy()).prop_map(|(pt, neg, k)| Entry { pt, neg, k }).boxed()
}

const BOUNDARIES_QUICK: [u32; 14] = [19, 20, 21, 42, 43, 104, 105, 238, 239, 577, 578, 1257, 1258, 1259];

fn n_strategy(pattern_len_max: u32) -> BoxedStrategy<u32> {
    prop_oneof![
        2 => Just(0u32),
        2 => Just(1u32),
        2 => Just(2u32),
        8 => 0u32..=pattern_len_max,
        3 => (0usize..BOUNDARIES_QUICK.len()).prop_map(|i| BOUNDARIES_QUICK[i]),
        1 => 40u32..700,
    ]
    .boxed()
}

fn window_strategy() -> BoxedStrategy<u8> {
    prop_oneof![24 => 1u8..=10, 3 => 11u8..=13, 1 => 14u8..=16].boxed()
}

fn msm_strategy(group: u8) -> BoxedStrategy<MsmCase> {
    (proptest::collection::vec(entry_strategy(), 1..24), n_strategy(40), any::<u64>(), window_strategy(), 0u8..3, 0u8..3, prop_oneof![6 => Just(0u8), 3 => 1u8..15])
        .prop_map(move |(pattern, n, step, window, ep, es, zero_limbs)| {
            let (extra_points, extra_scalars) = if ep > 0 && es > 0 { (ep, 0) } else { (ep, es) };
            MsmCase { group, pattern, n, step, window, extra_points, extra_scalars, zero_limbs }
        })
        .boxed()
}

struct Built<G: Grp> {
    bases: Vec<G::Aff>,
    scalars: Vec<[u64; 4]>,
    /// sum k_i a_i mod r over the first min(#points, #scalars) entries
    exponent: Z,
    nontrivial: bool,
    classes: Vec<String>,
}

fn dlog_and_point<G: HasPool>(e: &Entry) -> (Z, Pt<G::F>) {
    let pool = G::pool();
    let (a, p) = match &e.pt {
        PtSel::Identity => (Z::zero(), Pt::Inf),
        PtSel::Small(j) => {
            let j = *j as usize % (SMALL_MULT_MAX + 1);
            (Z::from(j as u64), pool.small_mult[j].clone())
        }
        PtSel::Sub(i) => {
            let i = *i as usize % POOL_SUB;
            (pool.sub[i].0.clone(), pool.sub[i].1.clone())
        }
    };
    if e.neg {
        ((r() - &a) % r(), G::curve().neg(&p))
    } else {
        (a, p)
    }
}

fn build<G: HasPool>(c: &MsmCase) -> Built<G>
where
    G::F: SqrtFld,
{
    let m = c.pattern.len();
    let two255 = Z::one() << 255;
    let pat: Vec<(Z, G::Aff, Z)> = c
        .pattern
        .iter()
        .map(|e| {
            let (a, p) = dlog_and_point::<G>(e);
            (a, aff_c::<G>(&p), e.k.build255())
        })
        .collect();
    let n = c.n as usize;
    let mut bases = Vec::with_capacity(n + 3);
    let mut scalars = Vec::with_capacity(n + 3);
    let mut exponent = Z::zero();
    let step = Z::from(c.step | 1) << 40;
    for i in 0..n {
        let (a, p, k0) = &pat[i % m];
        let mut k = (k0 + &step * Z::from((i / m) as u64)) % &two255;
        if c.zero_limbs != 0 {
            let mut l = scalar_limbs(&k);
            for w in 0..4 {
                if c.zero_limbs & (1 << w) != 0 {
                    l[w] = 0;
                }
            }
            // the bits next to a zeroed word matter: make the top bits of the word below and the low bits of the word above dense
            for w in 0..4 {
                if c.zero_limbs & (1 << w) != 0 {
                    if w > 0 && c.zero_limbs & (1 << (w - 1)) == 0 {
                        l[w - 1] |= 0xe000_0000_0000_0000 & (c.step.rotate_left(i as u32) | (1u64 << 63));
                    }
                    if w < 3 && c.zero_limbs & (1 << (w + 1)) == 0 {
                        l[w + 1] |= 1 + (i as u64 % 7);
                    }
                }
            }
            l[3] &= 0x7fff_ffff_ffff_ffff;
            k = limbs_to_z(&l);
        }
        exponent = (exponent + &k * a) % r();
        bases.push(*p);
        scalars.push(scalar_limbs(&k));
    }
    // surplus entries that must be ignored
    for j in 0..c.extra_points as usize {
        bases.push(pat[j % m].1);
    }
    for j in 0..c.extra_scalars as usize {
        scalars.push(scalar_limbs(&pat[j % m].2));
    }
    // classification
    let mut classes = vec![];
    let used = std::cmp::min(n, m);
    let mut nontrivial = false;
    if n >= 2 {
        let pts: Vec<&PtSel> = c.pattern[..used].iter().map(|e| &e.pt).collect();
        let dup = n > m || (0..used).any(|i| (0..i).any(|j| pts[i] == pts[j] && c.pattern[i].neg == c.pattern[j].neg && pts[i] != &PtSel::Identity));
        let inv = (0..used).any(|i| (0..used).any(|j| i != j && pts[i] == pts[j] && c.pattern[i].neg != c.pattern[j].neg && pts[i] != &PtSel::Identity));
        let ident = pts.iter().any(|p| **p == PtSel::Identity || **p == PtSel::Small(0));
        let zero_k = c.pattern[..used].iter().any(|e| e.k.build255().is_zero());
        let straddle = c.pattern[..used].iter().any(|e| matches!(e.k, ScalarR::WordEdge(_, _) | ScalarR::ChunkEdge(_, _) | ScalarR::AllOnes255 | ScalarR::LowMask(_)));
        if dup {
            classes.push("duplicate-points".to_string());
        }
        if inv {
            classes.push("mutually-inverse-points".to_string());
        }
        if ident {
            classes.push("identity-point".to_string());
        }
        if zero_k {
            classes.push("zero-scalar".to_string());
        }
        if straddle {
            classes.push("word-straddling-or-dense-scalar".to_string());
        }
        nontrivial = dup || inv || ident || straddle;
    }
    if c.zero_limbs != 0 && n > 0 {
        classes.push("a-whole-64-bit-word-is-zero-in-every-scalar".to_string());
    }
    if c.extra_points > 0 || c.extra_scalars > 0 {
        classes.push("mismatched-lengths".to_string());
    }
    classes.push(match n {
        0 => "n=0".to_string(),
        1 => "n=1".to_string(),
        2..=19 => "n=2..19".to_string(),
        20..=104 => "n=20..104".to_string(),
        105..=577 => "n=105..577".to_string(),
        _ => "n>=578".to_string(),
    });
    Built { bases, scalars, exponent, nontrivial, classes }
}

fn expect<G: Ops>(what: &str, got: &G::Proj, want: &Pt<G::F>) -> Result<(), String> {
    let g = proj_m::<G>(got);
    if &g != want {
        return Err(format!("{} {}: crate gives {} but sum [k_i]P_i = {}", G::NAME, what, pt_brief(&g), pt_brief(want)));
    }
    if !cr("==", || G::op_eq(got, &proj_c::<G>(want)))? {
        return Err(format!("{} {}: the result is {} but the crate's == says it differs from that point built from its coordinates", G::NAME, what, pt_brief(want)));
    }
    Ok(())
}

fn check_msm<G: HasPool>(c: &MsmCase, info: &mut Info) -> Result<(), String>
where
    G::F: SqrtFld,
{
    let b = build::<G>(c);
    for cl in &b.classes {
        info.class(cl.clone());
    }
    info.nt_if(b.nontrivial);
    let want = G::curve().mul(&b.exponent, &G::gen());
    let refs: Vec<&[u64; 4]> = b.scalars.iter().collect();
    let ncomp = std::cmp::min(b.bases.len(), b.scalars.len());
    // default entry point; the window it selects must be in 1..=16
    let w = cr("find_pippinger_window", || G::op_find_pippinger_window(ncomp))?;
    if !(1..=16).contains(&w) {
        return Err(format!("find_pippinger_window({}) = {} outside 1..=16", ncomp, w));
    }
    info.class(format!("default-window={}", w));
    let t = cr("sum_of_products", || G::op_sum_of_products(&b.bases, &refs))?;
    expect::<G>(&format!("sum_of_products (n={}, window {})", ncomp, w), &t, &want)?;
    // explicit window
    let mut win = 1 + (c.window as usize + 19) % 20;
    // keep the crate's own work bounded: about n * 256 / window mixed additions per call
    while win < 20 && ncomp * 256 / win > 24_000 {
        win += 1;
    }
    info.class(format!("explicit-window={}", win));
    let t = cr("sum_of_products_pippinger", || G::op_sum_of_products_pippinger(&b.bases, &refs, win))?;
    expect::<G>(&format!("sum_of_products_pippinger (n={}, window {})", ncomp, win), &t, &want)?;
    // table-driven variant, tables from the crate's own 256-entry precomputation
    let limit = if G::NAME == "G1" { 12 } else { 4 };
    if b.bases.len() <= limit {
        let mut pre = scratch_table::<G>(256 * b.bases.len());
        for (j, p) in b.bases.iter().enumerate() {
            cr("precomp_256", || G::op_precomp_256(p, &mut pre[j * 256..(j + 1) * 256]))?;
        }
        let t = cr("sum_of_products_precomp_256", || G::op_sum_of_products_precomp_256(&b.bases, &refs, &pre))?;
        expect::<G>(&format!("sum_of_products_precomp_256 (n={})", ncomp), &t, &want)?;
        info.class("precomp_256-variant-checked");
    }
    Ok(())
}

fn check_msm_any(c: &MsmCase, info: &mut Info) -> Result<(), String> {
    if c.group == 0 {
        check_msm::<G1m>(c, info)
    } else {
        check_msm::<G2m>(c, info)
    }
}

// ---- a rejected call must not influence later calls ------------------------------------------------------

/// valid list, then a call the crate rejects (a scalar with bit 255 set: the bucket method asserts on
/// it) whose panic is caught as a long-lived worker would, then valid lists again on the same thread
#[derive(Clone, Debug, Serialize, Deserialize, PartialEq, Eq, Hash)]
pub struct AfterRejected {
    pub first: MsmCase,
    /// which entry of `first` gets bit 255 set in the rejected call
    pub bad_index: u8,
    pub then: Vec<MsmCase>,
}

fn after_rejected_strategy() -> BoxedStrategy<AfterRejected> {
    (0u8..2)
        .prop_flat_map(|g| (msm_strategy(g), any::<u8>(), proptest::collection::vec(msm_strategy(g), 1..3)))
        .prop_map(|(first, bad_index, then)| AfterRejected { first, bad_index, then })
        .boxed()
}

fn rejected_call<G: HasPool>(c: &MsmCase, bad_index: usize, window: usize) -> bool
where
    G::F: SqrtFld,
{
    let mut b = build::<G>(c);
    if b.scalars.is_empty() || b.bases.is_empty() {
        return false;
    }
    let i = bad_index % b.scalars.len();
    b.scalars[i][3] |= 1u64 << 63;
    let refs: Vec<&[u64; 4]> = b.scalars.iter().collect();
    // the outcome of an out-of-domain call is not specified: it may panic or return anything
    crate::engine::cr_panics(|| G::op_sum_of_products_pippinger(&b.bases, &refs, window))
}

fn check_after_rejected(c: &AfterRejected, info: &mut Info) -> Result<(), String> {
    let mut tmp = Info::default();
    check_msm_any(&c.first, &mut tmp)?;
    let window = 1 + (c.first.window as usize + 19) % 20;
    let window = std::cmp::min(window, 12);
    let panicked = if c.first.group == 0 { rejected_call::<G1m>(&c.first, c.bad_index as usize, window) } else { rejected_call::<G2m>(&c.first, c.bad_index as usize, window) };
    info.class(if panicked { "out-of-domain-call-panicked" } else { "out-of-domain-call-returned" });
    for (k, t) in c.then.iter().enumerate() {
        let mut tmp = Info::default();
        check_msm_any(t, &mut tmp).map_err(|m| format!("valid call #{} after a rejected (out-of-domain) call on the same thread: {}", k + 1, m))?;
    }
    info.nt_if(panicked);
    Ok(())
}

// ---- window-selection heuristic: exhaustive --------------------------------------------------

fn window_of(group: &str, n: usize) -> Result<usize, String> {
    let w = if group == "G1" {
        cr("find_pippinger_window", || pairing_plus::bls12_381::G1Affine::find_pippinger_window(n))?
    } else {
        cr("find_pippinger_window", || pairing_plus::bls12_381::G2Affine::find_pippinger_window(n))?
    };
    if !(1..=16).contains(&w) {
        return Err(format!("{} find_pippinger_window({}) = {} outside 1..=16", group, n, w));
    }
    Ok(w)
}

fn run_heuristic(ctx: &Ctx, rec: &mut dyn FnMut(Value, Info)) -> Result<(), (String, Value)> {
    let limit: usize = if ctx.tier == Tier::Quick { 1 << 20 } else { 1 << 23 };
    let mut ns: Vec<usize> = (0..=limit).collect();
    for e in 20..64u32 {
        for d in [-1i128, 0, 1] {
            ns.push(((1u128 << e) as i128 + d) as usize);
        }
    }
    ns.push(usize::MAX);
    ns.push(usize::MAX - 1);
    for group in ["G1", "G2"] {
        let mut seen = std::collections::BTreeSet::new();
        for n in &ns {
            let case = json!({"group": group, "n": n});
            let w = window_of(group, *n).map_err(|m| (m, case.clone()))?;
            let mut info = Info::default();
            if seen.insert(w) {
                info.nt();
                info.class(format!("{}:window={}", group, w));
                rec(case, info);
            } else {
                rec(Value::Null, info);
            }
        }
    }
    Ok(())
}

fn replay_heuristic(v: &Value) -> Result<(), String> {
    window_of(v["group"].as_str().unwrap_or("G1"), v["n"].as_u64().unwrap_or(0) as usize).map(|_| ())
}

// ---- big lists around every window-selection boundary -----------------------------------------

fn big_case<G: HasPool>(n: usize, variant: usize) -> Result<usize, String>
where
    G::F: SqrtFld,
{
    // pattern: 11 entries with duplicates, an inverse pair, an identity and structured scalars
    let pattern = vec![
        Entry { pt: PtSel::Sub(1), neg: false, k: ScalarR::AllOnes255 },
        Entry { pt: PtSel::Sub(2), neg: false, k: ScalarR::WordEdge(0, 15) },
        Entry { pt: PtSel::Sub(1), neg: true, k: ScalarR::Random([variant as u64 + 1, 0x1234_5678_9abc_def0, u64::MAX, 0x3fff_ffff_ffff_ffff]) },
        Entry { pt: PtSel::Identity, neg: false, k: ScalarR::NearR(0) },
        Entry { pt: PtSel::Small(3), neg: false, k: ScalarR::WordEdge(1, 9) },
        Entry { pt: PtSel::Sub(7), neg: false, k: ScalarR::Zero },
        Entry { pt: PtSel::Sub(9), neg: false, k: ScalarR::Bit(254) },
        Entry { pt: PtSel::Sub(2), neg: false, k: ScalarR::WordEdge(2, 6) },
        Entry { pt: PtSel::Small(1), neg: true, k: ScalarR::LowMask(255) },
        Entry { pt: PtSel::Sub(11), neg: false, k: ScalarR::Random([0xdead_beef, variant as u64, 7, 0x0123_4567_89ab_cdef]) },
        Entry { pt: PtSel::Sub(13), neg: false, k: ScalarR::ChunkEdge(3, 11) },
    ];
    let c = MsmCase { group: 0, pattern, n: n as u32, step: 0x9e37_79b9_7f4a_7c15 ^ variant as u64, window: 0, extra_points: 0, extra_scalars: 0, zero_limbs: 0 };
    let b = build::<G>(&c);
    let want = G::curve().mul(&b.exponent, &G::gen());
    let refs: Vec<&[u64; 4]> = b.scalars.iter().collect();
    let w = cr("find_pippinger_window", || G::op_find_pippinger_window(n))?;
    let t = cr("sum_of_products", || G::op_sum_of_products(&b.bases, &refs))?;
    expect::<G>(&format!("sum_of_products (n={}, window {})", n, w), &t, &want)?;
    Ok(w)
}

/// lists in which MANY terms share one scalar (hence one bucket in every window): n at the wrap-around points of
/// 8- and 16-bit counters
fn same_scalar_case<G: HasPool>(n: usize, variant: usize) -> Result<usize, String>
where
    G::F: SqrtFld,
{
    let ks = [ScalarR::One, ScalarR::Small(3), ScalarR::AllOnes255, ScalarR::Bit(200)];
    let pattern = vec![
        Entry { pt: PtSel::Sub(1), neg: false, k: ks[variant % 4].clone() },
        Entry { pt: PtSel::Sub(2), neg: false, k: ks[variant % 4].clone() },
        Entry { pt: PtSel::Small(3), neg: false, k: ks[variant % 4].clone() },
    ];
    let c = MsmCase { group: 0, pattern, n: n as u32, step: 0, window: 0, extra_points: 0, extra_scalars: 0, zero_limbs: 0 };
    let b = build::<G>(&c);
    let want = G::curve().mul(&b.exponent, &G::gen());
    let refs: Vec<&[u64; 4]> = b.scalars.iter().collect();
    let w = cr("find_pippinger_window", || G::op_find_pippinger_window(n))?;
    let t = cr("sum_of_products", || G::op_sum_of_products(&b.bases, &refs))?;
    expect::<G>(&format!("sum_of_products (n={} terms sharing one scalar, window {})", n, w), &t, &want)?;
    for win in [4usize, 9] {
        let t = cr("sum_of_products_pippinger", || G::op_sum_of_products_pippinger(&b.bases, &refs, win))?;
        expect::<G>(&format!("sum_of_products_pippinger (n={} terms sharing one scalar, window {})", n, win), &t, &want)?;
    }
    Ok(w)
}

fn same_scalar_ns(tier: Tier) -> Vec<usize> {
    let mut v = vec![255, 256, 257, 512, 65535, 65536, 65537];
    if tier == Tier::Thorough {
        v.extend_from_slice(&[131072, 196608, 65536 * 4 + 1]);
    }
    v
}

fn run_same_scalar(ctx: &Ctx, rec: &mut dyn FnMut(Value, Info)) -> Result<(), (String, Value)> {
    let ns = same_scalar_ns(ctx.tier);
    let seed = ctx.seed as usize;
    let mut jobs = vec![];
    for (i, n) in ns.iter().enumerate() {
        jobs.push((0u8, *n, seed + i));
        if *n <= 65537 {
            jobs.push((1u8, *n, seed + i + 1));
        }
    }
    let res = crate::engine::par_map(ctx.threads, jobs.len(), |i| {
        let (g, n, v) = jobs[i];
        if g == 0 { same_scalar_case::<G1m>(n, v) } else { same_scalar_case::<G2m>(n, v) }
    });
    for (i, r) in res.into_iter().enumerate() {
        let (g, n, v) = jobs[i];
        let case = json!({"group": g, "n": n, "variant": v, "same_scalar": true});
        r.map_err(|m| (m, case.clone()))?;
        let mut info = Info::default();
        info.nt();
        info.class(format!("same-scalar-list:n={}", n));
        rec(case, info);
    }
    Ok(())
}

fn replay_same_scalar(v: &Value) -> Result<(), String> {
    let (g, n, variant) = (v["group"].as_u64().unwrap_or(0), v["n"].as_u64().unwrap_or(0) as usize, v["variant"].as_u64().unwrap_or(0) as usize);
    if g == 0 { same_scalar_case::<G1m>(n, variant).map(|_| ()) } else { same_scalar_case::<G2m>(n, variant).map(|_| ()) }
}

fn big_ns(tier: Tier, group: u8) -> Vec<usize> {
    let mut v = vec![19, 20, 42, 43, 104, 105, 238, 239, 577, 578, 1257, 1258, 3463, 3464];
    // one list beyond 2^20 entries (a power-of-two threshold a blocked implementation would use) in every run
    if group == 0 {
        v.push((1 << 20) + 1);
    }
    if tier == Tier::Thorough {
        if group == 0 {
            v.extend_from_slice(&[(1 << 20) - 1, 1 << 20, (1 << 21) + 3, 3 * (1 << 20) + 1]);
        } else {
            v.extend_from_slice(&[(1 << 20) + 1]);
        }
        v.extend_from_slice(&[6491, 6492, 17145, 17146, 33675, 33676, 60318, 60319]);
        if group == 0 {
            v.extend_from_slice(&[218188, 218189, 303279, 303280, 543650, 543651]);
        }
    }
    v
}

fn run_big(ctx: &Ctx, rec: &mut dyn FnMut(Value, Info)) -> Result<(), (String, Value)> {
    let mut jobs = vec![];
    for g in 0..2u8 {
        for n in big_ns(ctx.tier, g) {
            jobs.push((g, n));
        }
    }
    let seed = ctx.seed as usize;
    let res = crate::engine::par_map(ctx.threads, jobs.len(), |i| {
        let (g, n) = jobs[i];
        if g == 0 {
            big_case::<G1m>(n, seed)
        } else {
            big_case::<G2m>(n, seed)
        }
    });
    for (i, r) in res.into_iter().enumerate() {
        let (g, n) = jobs[i];
        let case = json!({"group": g, "n": n, "variant": seed});
        let w = r.map_err(|m| (m, case.clone()))?;
        let mut info = Info::default();
        info.nt();
        info.class(format!("boundary-list:default-window={}", w));
        rec(case, info);
    }
    Ok(())
}

fn replay_big(v: &Value) -> Result<(), String> {
    let (g, n, variant) = (v["group"].as_u64().unwrap_or(0), v["n"].as_u64().unwrap_or(0) as usize, v["variant"].as_u64().unwrap_or(0) as usize);
    if g == 0 {
        big_case::<G1m>(n, variant).map(|_| ())
    } else {
        big_case::<G2m>(n, variant).map(|_| ())
    }
}

// ---- the large windows 17..=20 (cost ~ 2^w additions per bucket pass): enumerated -------------

fn large_window_case<G: HasPool>(w: usize, variant: usize) -> Result<(), String>
where
    G::F: SqrtFld,
{
    let pattern = vec![
        Entry { pt: PtSel::Sub(4), neg: false, k: ScalarR::AllOnes255 },
        Entry { pt: PtSel::Sub(5), neg: false, k: ScalarR::Random([variant as u64 ^ 0x5555, 0xfedc_ba98_7654_3210, u64::MAX, 0x7fff_ffff_ffff_ffff]) },
        Entry { pt: PtSel::Sub(4), neg: true, k: ScalarR::WordEdge(1, 15) },
        Entry { pt: PtSel::Identity, neg: false, k: ScalarR::AllOnes255 },
        Entry { pt: PtSel::Small(2), neg: false, k: ScalarR::Bit(254) },
        Entry { pt: PtSel::Sub(6), neg: false, k: ScalarR::Random([1, variant as u64, 0x8000_0000_0000_0001, 0x4000_0000_0000_0000]) },
        Entry { pt: PtSel::Sub(5), neg: false, k: ScalarR::WordEdge(2, 13) },
    ];
    let c = MsmCase { group: 0, pattern, n: 7, step: 1, window: 0, extra_points: 0, extra_scalars: 0, zero_limbs: 0 };
    let b = build::<G>(&c);
    let want = G::curve().mul(&b.exponent, &G::gen());
    let refs: Vec<&[u64; 4]> = b.scalars.iter().collect();
    let t = cr("sum_of_products_pippinger", || G::op_sum_of_products_pippinger(&b.bases, &refs, w))?;
    expect::<G>(&format!("sum_of_products_pippinger (n=7, window {})", w), &t, &want)
}

fn large_windows(tier: Tier) -> Vec<(u8, usize)> {
    let mut v = vec![(0u8, 17usize), (0, 18), (0, 19), (0, 20), (1, 17)];
    if tier == Tier::Thorough {
        v.extend_from_slice(&[(1, 18), (1, 19), (1, 20)]);
    }
    v
}

fn run_large(ctx: &Ctx, rec: &mut dyn FnMut(Value, Info)) -> Result<(), (String, Value)> {
    let jobs = large_windows(ctx.tier);
    let seed = ctx.seed as usize;
    let res = crate::engine::par_map(ctx.threads, jobs.len(), |i| {
        let (g, w) = jobs[i];
        if g == 0 {
            large_window_case::<G1m>(w, seed)
        } else {
            large_window_case::<G2m>(w, seed)
        }
    });
    for (i, r) in res.into_iter().enumerate() {
        let (g, w) = jobs[i];
        let case = json!({"group": g, "window": w, "variant": seed});
        r.map_err(|m| (m, case.clone()))?;
        let mut info = Info::default();
        info.nt();
        info.class(format!("large-window={}", w));
        rec(case, info);
    }
    Ok(())
}

fn replay_large(v: &Value) -> Result<(), String> {
    let (g, w, variant) = (v["group"].as_u64().unwrap_or(0), v["window"].as_u64().unwrap_or(17) as usize, v["variant"].as_u64().unwrap_or(0) as usize);
    if g == 0 {
        large_window_case::<G1m>(w, variant)
    } else {
        large_window_case::<G2m>(w, variant)
    }
}

crate::long_sub!(run_long_history, [24, 27]);

pub fn def() -> PropDef {
    PropDef {
        id: "C10",
        rule: "lists built from a generated pattern of (point with known discrete log: identity, [j]G, pool subgroup point; optionally negated; structured scalar < 2^255) cycled to a generated length n (0, 1, 2, 0..40, every window-selection boundary +-1 up to 1259, 40..700) with per-repetition scalar steps, surplus entries in one list, explicit windows 1..=16 generated and 17..=20 enumerated; expected value [sum k_i a_i mod r]G from one model multiplication; all three entry points (precomp_256 variant for short lists). Non-trivial = n >= 2 with a duplicate, an inverse pair, an identity or a word-straddling / dense scalar; distinct = distinct cases. Exhaustive: find_pippinger_window(n) in 1..=16 for all n <= 2^20 (quick) / 2^23 (thorough) plus powers of two +-1 up to usize::MAX; lists at every selection boundary +-1",
        needs_pairing: false,
        subs: vec![
            Box::new(crate::engine::EnumSub { name: "long-history", rule: super::longhist::RULE, run: run_long_history, replay: super::longhist::replay, exhaustive: false }),
            Box::new(crate::engine::EnumSub { name: "two-input-bursts", rule: super::longhist::BURST_RULE, run: run_two_input_bursts, replay: super::longhist::replay_burst, exhaustive: false }),
            Box::new(Sub { name: "g1-lists", rule: "G1 lists through sum_of_products / _pippinger(window) / _precomp_256", quick: 1_200, thorough: 40_000, strategy: || boxed(msm_strategy(0)), check: check_msm_any }),
            Box::new(Sub { name: "g2-lists", rule: "G2 lists, same entry points", quick: 500, thorough: 15_000, strategy: || boxed(msm_strategy(1)), check: check_msm_any }),
            Box::new(Sub { name: "after-rejected-call", rule: "a valid list, then the same list with bit 255 set in one scalar (outside the property's domain; the panic, if any, is caught as a long-lived worker would), then 1..2 valid lists on the same thread, each compared with the model: a rejected call must not leave anything behind", quick: 200, thorough: 6_000, strategy: || boxed(after_rejected_strategy()), check: check_after_rejected }),
            Box::new(EnumSub { name: "large-windows", rule: "sum_of_products_pippinger with windows 17..=20 (a bucket pass costs ~2^w additions, so these are enumerated on one structured 7-entry list: G1 17..=20 and G2 17 in quick, both groups 17..=20 in thorough)", run: run_large, replay: replay_large, exhaustive: false }),
            Box::new(EnumSub { name: "window-heuristic", rule: "find_pippinger_window(n) within 1..=16 (enumerated; evidence counts each returned window once)", run: run_heuristic, replay: replay_heuristic, exhaustive: true }),
            Box::new(EnumSub { name: "same-scalar-lists", rule: "lists of 255, 256, 257, 512, 65535, 65536, 65537 (thorough: up to 4*65536+1) terms that all share ONE scalar, so that one bucket of every window receives all of them (counters of 8 / 16 bits wrap exactly there); default entry point and explicit windows 4 and 9, both groups", run: run_same_scalar, replay: replay_same_scalar, exhaustive: false }),
            Box::new(EnumSub { name: "boundary-lists", rule: "default entry point on lists of length at every window-selection boundary +-1 (up to 3464 quick; up to 60319 / 543651 thorough) so that windows up to 9 (quick) / 16 (thorough) really run; plus lists of 2^20+1 entries (quick, G1) and 2^20-1, 2^20, 2^21+3, 3*2^20+1 (thorough)", run: run_big, replay: replay_big, exhaustive: false }),
        ],
        assumptions: {
            let mut v = COMMON_ASSUMPTIONS.to_vec();
            v.push("scalars are below 2^255 as the property states (the crate asserts it in one branch); tables only from the crate's precomp_256");
            v.push("points are subgroup points with known discrete logs (exponent bookkeeping); the abstract group law itself is decided by C01");
            v
        },
    }
}
