//! Long histories on one thread, shared by many properties.
//!
//! One worker thread sends N DISTINCT arguments through one operation, keeps the bits of the first, the last and
//! every (N/40)-th evaluation, then evaluates those arguments again (forwards, then backwards): the bits must be
//! those of the first evaluation. The first evaluations are what the other sub-checks of the property compare with
//! the model; this one adds the history: a bounded memo / ring / pool that misbehaves once it is full, flushed or
//! wrapped (capacities up to 2048 in the quick tier, 65536 for cheap operations in the thorough tier).

use crate::adapt::*;
use crate::engine::{cr, Ctx, Info, Tier};
use crate::recipes::*;
use ff_zeroize::{Field, PrimeField, SqrtField};
use pairing_plus::bls12_381 as crt;
use pairing_plus::bls12_381::verif_hooks::{ClearH, IsogenyMap, OSSWUMap};
use pairing_plus::bls12_381::Bls12;
use pairing_plus::map_to_curve::MapToCurve;
use pairing_plus::serdes::SerDes;
use pairing_plus::{CurveAffine, CurveProjective, Engine};
use refmodel::fld::Z;
use serde_json::{json, Value};

pub struct Kind {
    pub name: &'static str,
    pub expensive: bool,
}

pub const KINDS: [Kind; 28] = [
    Kind { name: "Fq2::sqrt (squares and non-squares)", expensive: false },       // 0  C18
    Kind { name: "Fq::sqrt", expensive: false },                                  // 1  C18
    Kind { name: "Fr::sqrt", expensive: false },                                  // 2  C18
    Kind { name: "G1 clear_h (full-curve points)", expensive: false },            // 3  C17
    Kind { name: "G2 clear_h (full-curve points)", expensive: true },             // 4  C17
    Kind { name: "G1 osswu_map", expensive: false },                              // 5  C15
    Kind { name: "G2 osswu_map", expensive: false },                              // 6  C15
    Kind { name: "G1 isogeny_map", expensive: false },                            // 7  C16
    Kind { name: "G2 isogeny_map", expensive: false },                            // 8  C16
    Kind { name: "G1 map_to_curve", expensive: false },                           // 9  C14
    Kind { name: "G2 map_to_curve", expensive: true },                            // 10 C14
    Kind { name: "final_exponentiation", expensive: true },                       // 11 C12
    Kind { name: "G1 hash_to_curve", expensive: false },                          // 12 C06
    Kind { name: "G2 encode_to_curve", expensive: true },                         // 13 C06
    Kind { name: "expand_message_xmd + hash_to_field", expensive: false },        // 14 C13
    Kind { name: "G1 decode (compressed, checked)", expensive: false },           // 15 C04
    Kind { name: "G2 decode (uncompressed, checked)", expensive: false },         // 16 C04
    Kind { name: "G2 encode (compressed)", expensive: false },                    // 17 C05
    Kind { name: "G2Affine deserialize", expensive: false },                      // 18 C19
    Kind { name: "G1 in_subgroup", expensive: false },                            // 19 C07
    Kind { name: "Fq12 inverse", expensive: false },                              // 20 C09
    Kind { name: "Fq6 / Fq2 inverse and frobenius", expensive: false },           // 21 C09
    Kind { name: "G1 mul_assign (distinct scalars)", expensive: false },          // 22 C02
    Kind { name: "G2 mul (distinct bases)", expensive: false },                   // 23 C02
    Kind { name: "G1 sum_of_products (rotating lists)", expensive: false },       // 24 C10
    Kind { name: "pairing_multi_product (rotating pairs)", expensive: true },     // 25 C11
    Kind { name: "G1 add / double (distinct operands)", expensive: false },       // 26 C01
    Kind { name: "G1 sum_of_products (1030 and 4100 terms)", expensive: true },   // 27 C10 / C20
];

struct State {
    p1: Vec<crt::G1Affine>,
    p2: Vec<crt::G2Affine>,
    /// full-curve (non-subgroup) walk
    f1: Vec<crt::G1Affine>,
    f2: Vec<crt::G2Affine>,
    seed: u64,
}

fn fqv(i: usize, seed: u64, salt: u64) -> crt::Fq {
    let z = Z::from(0x9e37_79b9_7f4a_7c15u64.wrapping_mul(salt + 1)) * Z::from(seed + 3) + Z::from(i as u64);
    fq_c(&refmodel::fld::Fq(z % refmodel::consts::q()))
}
fn fq2v(i: usize, seed: u64, salt: u64) -> crt::Fq2 {
    crt::Fq2 { c0: fqv(i, seed, salt), c1: fqv(7, seed, salt + 11) }
}
fn frv(i: usize, seed: u64) -> crt::Fr {
    fr_c(&((Z::from(0x1234_5678_9abc_def1u64) * Z::from(seed + 5) + Z::from(i as u64)) % refmodel::consts::r()))
}
fn put_fq(out: &mut Vec<u8>, a: &crt::Fq) {
    for l in a.into_repr().as_ref() {
        out.extend_from_slice(&l.to_le_bytes());
    }
}
fn put_fq2(out: &mut Vec<u8>, a: &crt::Fq2) {
    put_fq(out, &a.c0);
    put_fq(out, &a.c1);
}
fn put_fq6(out: &mut Vec<u8>, a: &crt::Fq6) {
    put_fq2(out, &a.c0);
    put_fq2(out, &a.c1);
    put_fq2(out, &a.c2);
}
fn put_fq12(out: &mut Vec<u8>, a: &crt::Fq12) {
    put_fq6(out, &a.c0);
    put_fq6(out, &a.c1);
}
fn put_g1(out: &mut Vec<u8>, p: &crt::G1) {
    let (x, y, z) = p.as_tuple();
    put_fq(out, x);
    put_fq(out, y);
    put_fq(out, z);
}
fn put_g2(out: &mut Vec<u8>, p: &crt::G2) {
    let (x, y, z) = p.as_tuple();
    put_fq2(out, x);
    put_fq2(out, y);
    put_fq2(out, z);
}
fn fq12v(i: usize, seed: u64) -> crt::Fq12 {
    let a = |s| fq2v(i, seed, s);
    crt::Fq12 { c0: crt::Fq6 { c0: a(1), c1: a(2), c2: a(3) }, c1: crt::Fq6 { c0: a(4), c1: a(5), c2: a(6) } }
}

fn eval(kind: usize, i: usize, st: &State) -> Result<Vec<u8>, String> {
    let mut out = vec![];
    let s = st.seed;
    let a1 = st.p1[i % st.p1.len()];
    let a2 = st.p2[i % st.p2.len()];
    match kind {
        0 => match cr("Fq2::sqrt", || fq2v(i, s, 0).sqrt())? {
            Some(r) => put_fq2(&mut out, &r),
            None => out.push(0xff),
        },
        1 => match cr("Fq::sqrt", || fqv(i, s, 0).sqrt())? {
            Some(r) => put_fq(&mut out, &r),
            None => out.push(0xff),
        },
        2 => match cr("Fr::sqrt", || frv(i, s).sqrt())? {
            Some(r) => {
                for l in r.into_repr().as_ref() {
                    out.extend_from_slice(&l.to_le_bytes());
                }
            }
            None => out.push(0xff),
        },
        3 => {
            let mut p = st.f1[i % st.f1.len()].into_projective();
            cr("clear_h", || p.clear_h())?;
            put_g1(&mut out, &p);
        }
        4 => {
            let mut p = st.f2[i % st.f2.len()].into_projective();
            cr("clear_h", || p.clear_h())?;
            put_g2(&mut out, &p);
        }
        5 => put_g1(&mut out, &cr("osswu_map", || <crt::G1 as OSSWUMap>::osswu_map(&fqv(i, s, 1)))?),
        6 => put_g2(&mut out, &cr("osswu_map", || <crt::G2 as OSSWUMap>::osswu_map(&fq2v(i, s, 1)))?),
        7 => {
            let mut p = cr("osswu_map", || <crt::G1 as OSSWUMap>::osswu_map(&fqv(i, s, 2)))?;
            cr("isogeny_map", || p.isogeny_map())?;
            put_g1(&mut out, &p);
        }
        8 => {
            let mut p = cr("osswu_map", || <crt::G2 as OSSWUMap>::osswu_map(&fq2v(i, s, 2)))?;
            cr("isogeny_map", || p.isogeny_map())?;
            put_g2(&mut out, &p);
        }
        9 => put_g1(&mut out, &cr("map_to_curve", || <crt::G1 as MapToCurve<crt::G1>>::map_to_curve(&fqv(i, s, 3)))?),
        10 => put_g2(&mut out, &cr("map_to_curve", || <crt::G2 as MapToCurve<crt::G2>>::map_to_curve(&fq2v(i, s, 3)))?),
        11 => match cr("final_exponentiation", || Bls12::final_exponentiation(&fq12v(i, s)))? {
            Some(e) => put_fq12(&mut out, &e),
            None => out.push(0xff),
        },
        12 => put_g1(&mut out, &cr("hash", || super::c06::crate_h2c_g1(refmodel::h2c::Expander::XmdSha256, true, &(i as u64 ^ s).to_le_bytes(), b"LONG-HISTORY"))?),
        13 => put_g2(&mut out, &cr("hash", || super::c06::crate_h2c_g2(refmodel::h2c::Expander::XofShake128, false, &(i as u64 ^ s).to_le_bytes(), b"LONG-HISTORY"))?),
        14 => {
            let m = (i as u64 ^ s).to_le_bytes();
            out.extend_from_slice(&cr("expand", || super::c13::crate_expand(refmodel::h2c::Expander::XmdSha256, &m, b"LH", 40 + i % 90))?);
            let v: Vec<crt::Fr> = cr("hash_to_field", || pairing_plus::hash_to_field::hash_to_field::<crt::Fr, pairing_plus::hash_to_field::ExpandMsgXmd<sha2::Sha512>>(&m, b"LH", 1 + i % 3))?;
            for x in v {
                for l in x.into_repr().as_ref() {
                    out.extend_from_slice(&l.to_le_bytes());
                }
            }
        }
        15 => {
            let b = cr("into_compressed", || a1.into_compressed())?;
            let r = G1m::decode_bytes(true, b.as_ref(), true)?.map_err(|e| format!("decoding a subgroup point failed: {:?}", e))?;
            put_g1(&mut out, &r.into_projective());
        }
        16 => {
            let b = cr("into_uncompressed", || a2.into_uncompressed())?;
            let r = G2m::decode_bytes(false, b.as_ref(), true)?.map_err(|e| format!("decoding a subgroup point failed: {:?}", e))?;
            put_g2(&mut out, &r.into_projective());
        }
        17 => out.extend_from_slice(cr("into_compressed", || a2.into_compressed())?.as_ref()),
        18 => {
            let mut b = vec![];
            cr("serialize", || a2.serialize(&mut b, i % 2 == 0))?.map_err(|e| e.to_string())?;
            let r = cr("deserialize", || crt::G2Affine::deserialize(&mut &b[..], i % 2 == 0))?.map_err(|e| e.to_string())?;
            put_g2(&mut out, &r.into_projective());
        }
        19 => {
            out.push(cr("in_subgroup", || G1m::op_in_subgroup(&a1))? as u8);
            out.push(cr("in_subgroup", || G1m::op_in_subgroup(&st.f1[i % st.f1.len()]))? as u8);
        }
        20 => match cr("Fq12::inverse", || fq12v(i, s).inverse())? {
            Some(e) => put_fq12(&mut out, &e),
            None => out.push(0xff),
        },
        21 => {
            let a = fq12v(i, s).c0;
            if let Some(e) = cr("Fq6::inverse", || a.inverse())? {
                put_fq6(&mut out, &e);
            }
            let mut t = a;
            cr("frobenius", || t.frobenius_map(1 + i % 5))?;
            put_fq6(&mut out, &t);
            if let Some(e) = cr("Fq2::inverse", || a.c1.inverse())? {
                put_fq2(&mut out, &e);
            }
        }
        22 => {
            let mut p = st.p1[0].into_projective();
            cr("mul_assign", || p.mul_assign(frv(i, s)))?;
            put_g1(&mut out, &p);
        }
        23 => put_g2(&mut out, &cr("mul", || a2.mul(frv(3, s)))?),
        24 => {
            let bases = [a1, st.p1[(i + 1) % st.p1.len()], st.p1[(i + 2) % st.p1.len()]];
            let ks = [frv(i, s).into_repr().0, frv(i + 1, s).into_repr().0, [i as u64, 0, 0, 0]];
            let refs: Vec<&[u64; 4]> = ks.iter().collect();
            put_g1(&mut out, &cr("sum_of_products", || G1m::op_sum_of_products(&bases, &refs))?);
        }
        25 => {
            let ps = [a1, st.p1[(i + 1) % st.p1.len()]];
            let qs = [a2, st.p2[(i + 1) % st.p2.len()]];
            put_fq12(&mut out, &cr("pairing_multi_product", || Bls12::pairing_multi_product(&ps, &qs))?);
        }
        27 => {
            let n = if i % 2 == 0 { 1030 } else { 4100 };
            let bases: Vec<crt::G1Affine> = (0..n).map(|j| st.p1[(i + j) % st.p1.len()]).collect();
            let ks: Vec<[u64; 4]> = (0..n).map(|j| frv(i * 7 + j, s).into_repr().0).collect();
            let refs: Vec<&[u64; 4]> = ks.iter().collect();
            put_g1(&mut out, &cr("sum_of_products", || G1m::op_sum_of_products(&bases, &refs))?);
        }
        _ => {
            let mut p = a1.into_projective();
            cr("add", || p.add_assign(&st.p1[(i + 1) % st.p1.len()].into_projective()))?;
            put_g1(&mut out, &p);
            cr("double", || p.double())?;
            put_g1(&mut out, &p);
            cr("add_mixed", || p.add_assign_mixed(&a1))?;
            put_g1(&mut out, &p);
        }
    }
    Ok(out)
}

fn walk1(start: &refmodel::curve::Pt<refmodel::fld::Fq>, n: usize) -> Vec<crt::G1Affine> {
    let g = aff_c::<G1m>(&G1m::gen());
    let mut t = proj_c::<G1m>(start);
    let mut v = Vec::with_capacity(n);
    for _ in 0..n {
        v.push(t);
        t.add_assign_mixed(&g);
    }
    crt::G1::batch_normalization(&mut v);
    v.iter().map(|p| p.into_affine()).collect()
}
fn walk2(start: &refmodel::curve::Pt<refmodel::fld::Fq2>, n: usize) -> Vec<crt::G2Affine> {
    let g = aff_c::<G2m>(&G2m::gen());
    let mut t = proj_c::<G2m>(start);
    let mut v = Vec::with_capacity(n);
    for _ in 0..n {
        v.push(t);
        t.add_assign_mixed(&g);
    }
    crt::G2::batch_normalization(&mut v);
    v.iter().map(|p| p.into_affine()).collect()
}

pub fn n_for(tier: Tier, kind: usize) -> usize {
    match (tier, KINDS[kind].expensive) {
        (Tier::Quick, true) => if kind == 27 { 300 } else { 2_300 },
        (Tier::Quick, false) => 4_400,
        (_, true) => if kind == 27 { 2_000 } else { 9_000 },
        (_, false) => 70_000,
    }
}

pub fn case(kind: usize, n: usize, seed: u64) -> Result<(), String> {
    let need = |ks: &[usize]| if ks.contains(&kind) { n } else { 3 };
    let st = State {
        p1: walk1(&G1m::pool().sub[seed as usize % POOL_SUB].1, need(&[15, 19, 24, 25, 26])),
        p2: walk2(&G2m::pool().sub[(seed / 7) as usize % POOL_SUB].1, need(&[16, 17, 18, 23, 25])),
        f1: walk1(&G1m::pool().full[seed as usize % POOL_FULL], need(&[3, 19])),
        f2: walk2(&G2m::pool().full[(seed / 3) as usize % POOL_FULL], need(&[4])),
        seed,
    };
    let st = &st;
    let res: Result<(), String> = std::thread::scope(|sc| {
        sc.spawn(move || {
            let keep = 24usize;
            let stride = std::cmp::max(1, n / 40);
            let mut first: std::collections::BTreeMap<usize, Vec<u8>> = Default::default();
            for i in 0..n {
                let r = eval(kind, i, st)?;
                if i < keep || i % stride == 0 || i + keep >= n {
                    first.insert(i, r);
                }
            }
            for (i, want) in &first {
                if eval(kind, *i, st)? != *want {
                    return Err(format!("{}: argument #{} evaluated again after {} distinct arguments had gone through the same thread returns different bits than its first evaluation", KINDS[kind].name, i, n));
                }
            }
            for (i, want) in first.iter().rev().take(2 * keep) {
                if eval(kind, *i, st)? != *want {
                    return Err(format!("{}: argument #{} evaluated a third time (reverse order) after {} distinct arguments returns different bits", KINDS[kind].name, i, n));
                }
            }
            Ok(())
        })
        .join()
        .map_err(|_| "harness: worker thread panicked".to_string())?
    });
    res
}

pub fn run_kinds(ctx: &Ctx, rec: &mut dyn FnMut(Value, Info), kinds: &[usize]) -> Result<(), (String, Value)> {
    let _ = (G1m::pool(), G2m::pool());
    let seed = ctx.seed;
    let tier = ctx.tier;
    let res = crate::engine::par_map(ctx.threads, kinds.len(), |i| case(kinds[i], n_for(tier, kinds[i]), seed));
    for (i, r) in res.into_iter().enumerate() {
        let c = json!({"kind": kinds[i], "n": n_for(tier, kinds[i]), "seed": seed});
        r.map_err(|m| (m, c.clone()))?;
        let mut info = Info::default();
        info.nt();
        info.class(format!("{}:n={}", KINDS[kinds[i]].name, n_for(tier, kinds[i])));
        rec(c, info);
    }
    Ok(())
}

pub fn replay(v: &Value) -> Result<(), String> {
    case(v["kind"].as_u64().unwrap_or(0) as usize % KINDS.len(), v["n"].as_u64().unwrap_or(2300) as usize, v["seed"].as_u64().unwrap_or(0))
}

// ---- two inputs, many threads -----------------------------------------------------------------------------
//
// 16 barrier-released threads evaluate the operation on TWO alternating arguments in a tight loop (each thread
// starts with the other phase); every result is compared with the single-threaded reference. A process-wide
// memo whose key and value are published separately, or a shared scratch buffer, shows up here: the keys
// match across threads because all threads use the same two arguments.

pub fn burst_case(kind: usize, reps: usize, threads: usize, seed: u64) -> Result<(), String> {
    let st = State {
        p1: walk1(&G1m::pool().sub[seed as usize % POOL_SUB].1, 4),
        p2: walk2(&G2m::pool().sub[(seed / 7) as usize % POOL_SUB].1, 4),
        f1: walk1(&G1m::pool().full[seed as usize % POOL_FULL], 4),
        f2: walk2(&G2m::pool().full[(seed / 3) as usize % POOL_FULL], 4),
        seed,
    };
    let refs = [eval(kind, 0, &st)?, eval(kind, 1, &st)?];
    let barrier = std::sync::Barrier::new(threads);
    let (st, refs, barrier) = (&st, &refs, &barrier);
    let results: Vec<Result<(), String>> = std::thread::scope(|sc| {
        let hs: Vec<_> = (0..threads)
            .map(|t| {
                sc.spawn(move || {
                    barrier.wait();
                    for j in 0..reps {
                        let which = (j + t) % 2;
                        let r = eval(kind, which, st)?;
                        if r != refs[which] {
                            return Err(format!("{}: thread {} of {}, iteration {}: the result for argument #{} differs from the single-threaded reference while other threads evaluate the same two arguments", KINDS[kind].name, t, threads, j, which));
                        }
                    }
                    Ok(())
                })
            })
            .collect();
        hs.into_iter().map(|h| h.join().unwrap_or_else(|_| Err("harness: worker thread panicked".to_string()))).collect()
    });
    for r in results {
        r?;
    }
    Ok(())
}

pub fn burst_reps(tier: Tier, kind: usize) -> usize {
    match (tier, KINDS[kind].expensive) {
        (Tier::Quick, true) => if kind == 27 { 12 } else { 150 },
        (Tier::Quick, false) => 3_000,
        (_, true) => if kind == 27 { 100 } else { 1_500 },
        (_, false) => 60_000,
    }
}

pub fn run_bursts(ctx: &Ctx, rec: &mut dyn FnMut(Value, Info), kinds: &[usize]) -> Result<(), (String, Value)> {
    let _ = (G1m::pool(), G2m::pool());
    // one kind at a time: each burst owns all cores
    for k in kinds {
        let reps = burst_reps(ctx.tier, *k);
        let c = json!({"burst_kind": k, "reps": reps, "threads": 16, "seed": ctx.seed});
        burst_case(*k, reps, 16, ctx.seed).map_err(|m| (m, c.clone()))?;
        let mut info = Info::default();
        info.nt();
        info.class(format!("{}:16-threads-x-{}", KINDS[*k].name, reps));
        rec(c, info);
    }
    Ok(())
}

pub fn replay_burst(v: &Value) -> Result<(), String> {
    burst_case(v["burst_kind"].as_u64().unwrap_or(0) as usize % KINDS.len(), v["reps"].as_u64().unwrap_or(2000) as usize, v["threads"].as_u64().unwrap_or(16) as usize, v["seed"].as_u64().unwrap_or(0))
}

pub const BURST_RULE: &str = "16 barrier-released threads evaluate the operation on TWO alternating arguments in a tight loop (3000 / 150 iterations per thread quick, 60000 / 1500 thorough); every result must equal the single-threaded reference (a process-wide memo whose key and value are published separately, a shared scratch buffer)";

pub const RULE: &str = "one worker thread sends N distinct arguments through the operation (N = 2300 / 4400 quick, 9000 / 70000 thorough), then evaluates the first 24, the last 24 and every (N/40)-th argument again, forwards and backwards: same bits as the first time (a bounded memo, ring or pool that misbehaves once full, flushed or wrapped)";

/// `long_sub!(run_fn_name, [kinds...])` defines the run function of a property's long-history sub-check
#[macro_export]
macro_rules! long_sub {
    ($name:ident, $kinds:expr) => {
        fn $name(ctx: &$crate::engine::Ctx, rec: &mut dyn FnMut(serde_json::Value, $crate::engine::Info)) -> Result<(), (String, serde_json::Value)> {
            $crate::props::longhist::run_kinds(ctx, rec, &$kinds)
        }
        fn run_two_input_bursts(ctx: &$crate::engine::Ctx, rec: &mut dyn FnMut(serde_json::Value, $crate::engine::Info)) -> Result<(), (String, serde_json::Value)> {
            $crate::props::longhist::run_bursts(ctx, rec, &$kinds)
        }
    };
}
