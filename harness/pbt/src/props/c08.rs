//! C08 - Fq and Fr are exactly the integers modulo q and r; the repr types are fixed-width integers.

use super::{PropDef, COMMON_ASSUMPTIONS};
use crate::adapt::*;
use crate::engine::{boxed, cr, EnumSub, Info, Sub};
use crate::recipes::*;
use ff_zeroize::{Field, PrimeField, PrimeFieldRepr, SqrtField};
use num_traits::{One, Zero};
use pairing_plus::bls12_381 as crt;
use proptest::prelude::*;
use refmodel::consts::{q, r};
use refmodel::fld::Z;
use serde::{Deserialize, Serialize};
use serde_json::json;

pub trait PF: PrimeField + SqrtField + Ord + std::fmt::Debug {
    const LIMBS: usize;
    const NAME: &'static str;
    fn modulus() -> &'static Z;
}
impl PF for crt::Fq {
    const LIMBS: usize = 6;
    const NAME: &'static str = "Fq";
    fn modulus() -> &'static Z {
        q()
    }
}
impl PF for crt::Fr {
    const LIMBS: usize = 4;
    const NAME: &'static str = "Fr";
    fn modulus() -> &'static Z {
        r()
    }
}

pub fn repr_of<F: PF>(v: &Z) -> F::Repr {
    let l = z_to_limbs(v, F::LIMBS);
    let mut rp = F::Repr::default();
    rp.as_mut().copy_from_slice(&l);
    rp
}

pub fn repr_val<R: AsRef<[u64]>>(rp: &R) -> Z {
    limbs_to_z(rp.as_ref())
}

pub fn elem<F: PF>(v: &Z) -> Result<F, String> {
    F::from_repr(repr_of::<F>(v)).map_err(|e| format!("{}::from_repr rejected the reduced value 0x{:x}: {:?}", F::NAME, v, e))
}

pub fn val<F: PF>(a: &F) -> Z {
    repr_val(&a.into_repr())
}

#[derive(Clone, Debug, Serialize, Deserialize, PartialEq, Eq, Hash)]
pub struct OpsCase {
    pub a: FeR,
    pub b: FeR,
    pub exp: Vec<u64>,
    pub frob: u32,
}

fn exp_strategy() -> BoxedStrategy<Vec<u64>> {
    prop_oneof![
        4 => proptest::collection::vec(any::<u64>(), 0..=12),
        1 => proptest::collection::vec(prop_oneof![Just(0u64), Just(u64::MAX), Just(1u64), Just(1u64 << 63)], 0..=12),
        1 => (any::<u64>(), 0usize..12).prop_map(|(x, z)| { let mut v = vec![x]; v.extend(std::iter::repeat(0).take(z)); v }),
        1 => (any::<u64>(), 0usize..12).prop_map(|(x, z)| { let mut v: Vec<u64> = std::iter::repeat(0).take(z).collect(); v.push(x); v }),
    ]
    .boxed()
}

fn ops_strategy(limbs: usize) -> BoxedStrategy<OpsCase> {
    (fe_strategy(limbs), fe_strategy(limbs), exp_strategy(), any::<u32>()).prop_map(|(a, b, exp, frob)| OpsCase { a, b, exp, frob }).boxed()
}

/// the result must also BE the canonical element for the crate's own equality and zero test
/// (a value that is right modulo p but not reduced internally compares unequal to itself)
fn canon<F: PF>(name: &str, got: &F, want: &Z) -> Result<(), String> {
    let w: F = F::from_repr(repr_of::<F>(want)).map_err(|_| "harness: expected value not reduced".to_string())?;
    if *got != w || got.is_zero() != want.is_zero() {
        return Err(format!("{}::{}: the result has the value 0x{:x} but the crate's own == / is_zero() do not treat it as that element (non-canonical internal representation)", F::NAME, name, want));
    }
    Ok(())
}

fn ck(name: &str, fname: &str, got: &Z, want: &Z, a: &Z, b: &Z) -> Result<(), String> {
    if got != want {
        Err(format!("{}::{}: crate 0x{:x}, integers mod p give 0x{:x} (a=0x{:x}, b=0x{:x})", fname, name, got, want, a, b))
    } else {
        Ok(())
    }
}

macro_rules! concrete_ops {
    ($fname:ident, $F:ty, $R:ty) => {
        /// written against the CONCRETE types with method-call syntax, exactly as a user of the crate
        /// would write it (inherent methods, if any, take precedence over the derived trait methods)
        #[allow(unused_qualifications)]
        pub fn $fname(c: &OpsCase, info: &mut Info) -> Result<(), String> {
            type F = $F;
            type R = $R;
            #[allow(unused)]
            fn val(a: &F) -> Z {
                let r: R = a.into_repr();
                repr_val(&r)
            }
            #[allow(unused)]
            fn elem(v: &Z) -> Result<F, String> {
                F::from_repr(repr_of::<F>(v)).map_err(|e| format!("{}::from_repr rejected the reduced value 0x{:x}: {:?}", <F as PF>::NAME, v, e))
            }

    let p = <F as PF>::modulus();
    let az = c.a.build(p, <F as PF>::LIMBS);
    let bz = c.b.build(p, <F as PF>::LIMBS);
    info.class(format!("a:{}", c.a.class()));
    info.class(format!("b:{}", c.b.class()));
    let triv = |v: &Z| v.is_zero() || v.is_one();
    info.nt_if(!(triv(&az) && triv(&bz)));
    let a: F = elem(&az)?;
    let b: F = elem(&bz)?;
    // into_repr gives back the reduced representative
    ck("from_repr/into_repr", <F as PF>::NAME, &val(&a), &az, &az, &bz)?;
    let n = <F as PF>::NAME;
    let mut t = a;
    cr("add_assign", || t.add_assign(&b))?;
    ck("add_assign", n, &val(&t), &((&az + &bz) % p), &az, &bz)?;
    canon::<F>("add_assign", &t, &((&az + &bz) % p))?;
    let mut t = a;
    cr("sub_assign", || t.sub_assign(&b))?;
    ck("sub_assign", n, &val(&t), &((p + &az - &bz) % p), &az, &bz)?;
    canon::<F>("sub_assign", &t, &((p + &az - &bz) % p))?;
    let mut t = a;
    cr("negate", || t.negate())?;
    ck("negate", n, &val(&t), &((p - &az) % p), &az, &bz)?;
    canon::<F>("negate", &t, &((p - &az) % p))?;
    let mut t = a;
    cr("double", || t.double())?;
    ck("double", n, &val(&t), &((&az + &az) % p), &az, &bz)?;
    canon::<F>("double", &t, &((&az + &az) % p))?;
    let mut t = a;
    cr("mul_assign", || t.mul_assign(&b))?;
    ck("mul_assign", n, &val(&t), &((&az * &bz) % p), &az, &bz)?;
    canon::<F>("mul_assign", &t, &((&az * &bz) % p))?;
    let mut t = a;
    cr("square", || t.square())?;
    ck("square", n, &val(&t), &((&az * &az) % p), &az, &bz)?;
    canon::<F>("square", &t, &((&az * &az) % p))?;
    // inverse: None iff zero
    let inv = cr("inverse", || a.inverse())?;
    match inv {
        None => {
            if !az.is_zero() {
                return Err(format!("{}::inverse(0x{:x}) = None for a non-zero element", n, az));
            }
            info.class("inverse:none");
        }
        Some(i) => {
            if az.is_zero() {
                return Err(format!("{}::inverse(0) returned a value", n));
            }
            let want = az.modpow(&(p - Z::from(2u32)), p);
            ck("inverse", n, &val(&i), &want, &az, &bz)?;
        }
    }
    // pow with a multi-limb exponent
    let ez = limbs_to_z(&c.exp);
    info.class(format!("exp-limbs:{}", c.exp.len()));
    let pw = cr("pow", || a.pow(&c.exp))?;
    ck("pow", n, &val(&pw), &az.modpow(&ez, p), &az, &ez)?;
    canon::<F>("pow", &pw, &az.modpow(&ez, p))?;
    // frobenius on a prime field is the identity
    let mut t = a;
    cr("frobenius_map", || t.frobenius_map(c.frob as usize))?;
    ck("frobenius_map", n, &val(&t), &az, &az, &bz)?;
    canon::<F>("frobenius_map", &t, &az)?;
    // zero test, equality, order
    if cr("is_zero", || a.is_zero())? != az.is_zero() {
        return Err(format!("{}::is_zero(0x{:x}) wrong", n, az));
    }
    if cr("==", || a == b)? != (az == bz) {
        return Err(format!("{}::== wrong for 0x{:x}, 0x{:x}", n, az, bz));
    }
    if cr("cmp", || a.cmp(&b))? != az.cmp(&bz) {
        return Err(format!("{}::cmp wrong for 0x{:x}, 0x{:x}", n, az, bz));
    }
    if cr("partial_cmp", || a.partial_cmp(&b))? != Some(az.cmp(&bz)) {
        return Err(format!("{}::partial_cmp wrong for 0x{:x}, 0x{:x}", n, az, bz));
    }
    // From<F> for Repr and decimal parsing
    let rp: R = a.into();
    ck("Repr::from(elem)", n, &repr_val(&rp), &az, &az, &bz)?;
    let dec = format!("{}", az);
    match cr("from_str", || F::from_str(&dec))? {
        Some(v) => ck("from_str", n, &val(&v), &az, &az, &bz)?,
        None => return Err(format!("{}::from_str({}) = None", n, dec)),
    }
    Ok(())
        }
    };
}

concrete_ops!(check_fq_ops, crt::Fq, crt::FqRepr);
concrete_ops!(check_fr_ops, crt::Fr, crt::FrRepr);


// ---- representation type -------------------------------------------------------------------

#[derive(Clone, Debug, Serialize, Deserialize, PartialEq, Eq, Hash)]
pub struct ReprCase {
    pub a: ReprR,
    pub b: ReprR,
    pub shift: u32,
    pub small: u64,
}

fn shift_strategy() -> BoxedStrategy<u32> {
    prop_oneof![
        4 => 0u32..=400,
        2 => (0u32..8).prop_map(|k| 64 * k),
        1 => (0u32..8, 0u32..3).prop_map(|(k, d)| (64 * k + 63 + d) % 520),
        1 => prop_oneof![Just(u32::MAX), Just(1u32 << 31), Just(383u32), Just(384), Just(385), Just(255), Just(256), Just(257)],
    ]
    .boxed()
}

fn repr_case_strategy(limbs: usize) -> BoxedStrategy<ReprCase> {
    (repr_strategy(limbs), repr_strategy(limbs), shift_strategy(), any::<u64>()).prop_map(|(a, b, shift, small)| ReprCase { a, b, shift, small }).boxed()
}

macro_rules! concrete_repr {
    ($fname:ident, $F:ty, $R:ty) => {
        #[allow(unused_qualifications)]
        pub fn $fname(c: &ReprCase, info: &mut Info) -> Result<(), String> {
            type F = $F;
            type R = $R;
            fn val(a: &F) -> Z {
                let r: R = a.into_repr();
                repr_val(&r)
            }

    let p = <F as PF>::modulus();
    let width = 64 * <F as PF>::LIMBS;
    let m = Z::one() << width;
    let az = c.a.build(p, <F as PF>::LIMBS);
    let bz = c.b.build(p, <F as PF>::LIMBS);
    let n = format!("{}Repr", <F as PF>::NAME);
    let triv = |v: &Z| v.is_zero() || v.is_one();
    info.nt_if(!(triv(&az) && triv(&bz)));
    info.class(if &az >= p { "a>=p" } else { "a<p" });
    let a: R = repr_of::<F>(&az);
    let b: R = repr_of::<F>(&bz);
    // from_repr: Ok iff < p, and then into_repr returns the value
    match cr("from_repr", || F::from_repr(a))? {
        Ok(e) => {
            if &az >= p {
                return Err(format!("{}::from_repr accepted 0x{:x} >= p", <F as PF>::NAME, az));
            }
            ck("from_repr->into_repr", &n, &val(&e), &az, &az, &bz)?;
        }
        Err(_) => {
            if &az < p {
                return Err(format!("{}::from_repr rejected 0x{:x} < p", <F as PF>::NAME, az));
            }
            info.class("from_repr:rejected");
        }
    }
    // add / sub within their preconditions
    if &az + &bz < m {
        let mut t = a;
        cr("add_nocarry", || t.add_nocarry(&b))?;
        ck("add_nocarry", &n, &repr_val(&t), &(&az + &bz), &az, &bz)?;
        info.class("add_nocarry:checked");
    }
    if az >= bz {
        let mut t = a;
        cr("sub_noborrow", || t.sub_noborrow(&b))?;
        ck("sub_noborrow", &n, &repr_val(&t), &(&az - &bz), &az, &bz)?;
        info.class("sub_noborrow:checked");
    }
    // shifts
    let s = c.shift;
    info.class(if s as usize >= width { "shift>=width" } else if s % 64 == 0 { "shift-multiple-of-64" } else { "shift-general" });
    let mut t = a;
    cr("shr", || t.shr(s))?;
    let want = if s as usize >= width { Z::zero() } else { &az >> (s as usize) };
    ck("shr", &n, &repr_val(&t), &want, &az, &Z::from(s))?;
    let mut t = a;
    cr("shl", || t.shl(s))?;
    let want = if s as usize >= width { Z::zero() } else { (&az << (s as usize)) % &m };
    ck("shl", &n, &repr_val(&t), &want, &az, &Z::from(s))?;
    let mut t = a;
    cr("div2", || t.div2())?;
    ck("div2", &n, &repr_val(&t), &(&az >> 1usize), &az, &bz)?;
    let mut t = a;
    cr("mul2", || t.mul2())?;
    ck("mul2", &n, &repr_val(&t), &((&az << 1usize) % &m), &az, &bz)?;
    // bit length, parity, zero test, order
    if cr("num_bits", || a.num_bits())? as usize != az.bits() {
        return Err(format!("{}::num_bits(0x{:x}) = {} (want {})", n, az, a.num_bits(), az.bits()));
    }
    let odd = (&az & Z::one()) == Z::one();
    if cr("is_odd", || a.is_odd())? != odd || cr("is_even", || a.is_even())? == odd {
        return Err(format!("{}::is_odd/is_even wrong for 0x{:x}", n, az));
    }
    if cr("is_zero", || a.is_zero())? != az.is_zero() {
        return Err(format!("{}::is_zero wrong for 0x{:x}", n, az));
    }
    if cr("cmp", || a.cmp(&b))? != az.cmp(&bz) || (a == b) != (az == bz) || cr("partial_cmp", || a.partial_cmp(&b))? != Some(az.cmp(&bz)) {
        return Err(format!("{}::cmp/== wrong for 0x{:x}, 0x{:x}", n, az, bz));
    }
    // From<u64>
    let f = R::from(c.small);
    ck("From<u64>", &n, &repr_val(&f), &Z::from(c.small), &az, &bz)?;
    // big-/little-endian I/O against the integer's bytes
    let nbytes = 8 * <F as PF>::LIMBS;
    let mut be_want = az.to_bytes_be();
    while be_want.len() < nbytes {
        be_want.insert(0, 0);
    }
    let mut le_want = be_want.clone();
    le_want.reverse();
    let mut buf = vec![];
    cr("write_be", || a.write_be(&mut buf))?.map_err(|e| format!("write_be error {}", e))?;
    if buf != be_want {
        return Err(format!("{}::write_be(0x{:x}) wrote {:02x?}", n, az, buf));
    }
    let mut back = R::default();
    cr("read_be", || back.read_be(&buf[..]))?.map_err(|e| format!("read_be error {}", e))?;
    ck("read_be", &n, &repr_val(&back), &az, &az, &bz)?;
    let mut buf = vec![];
    cr("write_le", || a.write_le(&mut buf))?.map_err(|e| format!("write_le error {}", e))?;
    if buf != le_want {
        return Err(format!("{}::write_le(0x{:x}) wrote {:02x?}", n, az, buf));
    }
    let mut back = R::default();
    cr("read_le", || back.read_le(&buf[..]))?.map_err(|e| format!("read_le error {}", e))?;
    ck("read_le", &n, &repr_val(&back), &az, &az, &bz)?;
    // a short read is an error, not a value
    let mut back = R::default();
    if cr("read_be short", || back.read_be(&be_want[..nbytes - 1]))?.is_ok() {
        return Err(format!("{}::read_be accepted a truncated buffer", n));
    }
    Ok(())
        }
    };
}

concrete_repr!(check_fq_repr, crt::Fq, crt::FqRepr);
concrete_repr!(check_fr_repr, crt::Fr, crt::FrRepr);


// ---- constants through behaviour -------------------------------------------------------------

fn constants_cases() -> Vec<(&'static str, Box<dyn Fn() -> Result<(), String> + Sync + Send>)> {
    use pairing_plus::CurveAffine;
    vec![
        ("Fq::char() == q", Box::new(|| if repr_val(&crt::Fq::char()) == *q() { Ok(()) } else { Err("Fq::char()".into()) })),
        ("Fr::char() == r", Box::new(|| if repr_val(&crt::Fr::char()) == *r() { Ok(()) } else { Err("Fr::char()".into()) })),
        ("NUM_BITS", Box::new(|| if crt::Fq::NUM_BITS == 381 && crt::Fr::NUM_BITS == 255 && crt::Fq::CAPACITY == 380 && crt::Fr::CAPACITY == 254 { Ok(()) } else { Err("NUM_BITS/CAPACITY".into()) })),
        ("one()/zero()", Box::new(|| {
            if val(&crt::Fq::one()).is_one() && val(&crt::Fr::one()).is_one() && val(&crt::Fq::zero()).is_zero() && val(&crt::Fr::zero()).is_zero() {
                Ok(())
            } else {
                Err("one()/zero()".into())
            }
        })),
        ("G1 generator coordinates (Montgomery constants in fq.rs)", Box::new(|| {
            let g = crt::G1Affine::one();
            if aff_m::<G1m>(&g) == refmodel::curve::g1_gen() { Ok(()) } else { Err("G1Affine::one() is not the documented generator".into()) }
        })),
        ("G2 generator coordinates (Montgomery constants in fq.rs)", Box::new(|| {
            let g = crt::G2Affine::one();
            if aff_m::<G2m>(&g) == refmodel::curve::g2_gen() { Ok(()) } else { Err("G2Affine::one() is not the documented generator".into()) }
        })),
    ]
}

fn run_constants(_ctx: &crate::engine::Ctx, rec: &mut dyn FnMut(serde_json::Value, Info)) -> Result<(), (String, serde_json::Value)> {
    for (name, f) in constants_cases() {
        let r = cr(name, || f()).and_then(|x| x);
        if let Err(m) = r {
            return Err((format!("constant check '{}' failed: {}", name, m), json!({"constant": name})));
        }
        let mut info = Info::default();
        info.nt();
        info.class("constant");
        rec(json!({"constant": name}), info);
    }
    Ok(())
}

fn replay_constants(v: &serde_json::Value) -> Result<(), String> {
    let want = v["constant"].as_str().unwrap_or("");
    for (name, f) in constants_cases() {
        if name == want {
            return cr(name, || f()).and_then(|x| x);
        }
    }
    Err(format!("unknown constant case {}", want))
}

pub fn def() -> PropDef {
    PropDef {
        id: "C08",
        rule: "pairs of field elements from boundary classes (0, 1, 2, p-1-k, (p-1)/2+k, 2^k, 2^k+-1 at every bit position, the Montgomery radix R, R^2, R-1, small) and uniform limbs; exponents of 0..12 limbs incl. zero / all-ones / leading-zero limbs; representation values incl. >= p, 2^k, all-ones, per-limb patterns; shifts 0..=400, multiples of 64, >= width, u32::MAX. Oracle: BigUint arithmetic. Non-trivial = not both operands in {0,1}; distinct = distinct cases",
        needs_pairing: false,
        subs: vec![
            Box::new(Sub { name: "fq-repr", rule: "FqRepr as 384-bit unsigned integer: from_repr range, add_nocarry/sub_noborrow within preconditions, shr/shl/div2/mul2, num_bits, parity, cmp, From<u64>, be/le I/O", quick: 300_000, thorough: 3_000_000, strategy: || boxed(repr_case_strategy(6)), check: check_fq_repr }),
            Box::new(Sub { name: "fr-repr", rule: "FrRepr as 256-bit unsigned integer, same operations", quick: 300_000, thorough: 3_000_000, strategy: || boxed(repr_case_strategy(4)), check: check_fr_repr }),
            Box::new(EnumSub { name: "constants", rule: "hard-coded constants observed through behaviour: char(), NUM_BITS, one/zero, documented generator coordinates (enumerated)", run: run_constants, replay: replay_constants, exhaustive: true }),
            Box::new(Sub { name: "fq-ops", rule: "Fq add/sub/neg/double/mul/square/inverse/pow/frobenius/is_zero/==/cmp/from_str vs integers mod q", quick: 200_000, thorough: 2_000_000, strategy: || boxed(ops_strategy(6)), check: check_fq_ops }),
            Box::new(Sub { name: "fr-ops", rule: "Fr, same operations vs integers mod r", quick: 200_000, thorough: 2_000_000, strategy: || boxed(ops_strategy(4)), check: check_fr_ops }),
            super::corpus_sub_field(),
        ],
        assumptions: {
            let mut v = COMMON_ASSUMPTIONS.to_vec();
            v.push("non-reduced Montgomery values (only constructible through transmute on field internals) are outside 'all elements of Fq' and are not generated");
            v.push("add_nocarry / sub_noborrow are only checked inside their documented no-carry / no-borrow preconditions");
            v
        },
    }
}
