//! C05 - point encoding round-trips and is the canonical ZCash wire format.

use super::c04::{base_point, build_bytes, crate_decode, dec_case_strategy, fmt_name, hex, BaseR, DecCase};
use super::{PropDef, COMMON_ASSUMPTIONS};
use crate::adapt::*;
use crate::engine::{boxed, cr, Info, Sub};
use crate::recipes::*;
use pairing_plus::{CurveProjective, EncodedPoint};
use proptest::prelude::*;
use refmodel::curve::Pt;
use refmodel::enc::{encode, in_subgroup, Decoded, EncFld};
use serde::{Deserialize, Serialize};

#[derive(Clone, Debug, Serialize, Deserialize, PartialEq, Eq, Hash)]
pub struct EncCase {
    pub group: u8,
    pub base: BaseR,
    pub rep: RepR,
}

fn enc_case_strategy() -> BoxedStrategy<EncCase> {
    let base = prop_oneof![
        6 => point_strategy(true).prop_map(BaseR::Point),
        8 => (0u8..POOL_SUB as u8, any::<u16>()).prop_map(|(s, k)| BaseR::Walk(s, k)),
    ];
    (0u8..2, base, rep_strategy()).prop_map(|(group, base, rep)| EncCase { group, base, rep }).boxed()
}

fn check_enc<G: HasPool>(c: &EncCase, info: &mut Info) -> Result<(), String>
where
    G::F: EncFld,
{
    let pm = base_point::<G>(&c.base).unwrap();
    let sub = in_subgroup::<G::F>(&pm);
    info.nt_if(!pm.is_inf());
    info.class(if pm.is_inf() { "identity" } else if sub { "subgroup-point" } else { "curve-point-outside-subgroup" });
    // the affine value handed to the encoder comes from a generated projective representative
    let proj = rep_build::<G>(&pm, &c.rep);
    let via_proj = cr("into_affine", || proj.into_affine())?;
    let direct = aff_c::<G>(&pm);
    for (label, aff) in [("from projective representative", via_proj), ("affine", direct)] {
        for compressed in [true, false] {
            let want = encode(&pm, compressed);
            let got = G::encode_aff(&aff, compressed)?;
            if got.len() != want.len() {
                return Err(format!("{} {} encoding ({}) has {} bytes, expected {}", G::NAME, if compressed { "compressed" } else { "uncompressed" }, label, got.len(), want.len()));
            }
            if got != want {
                return Err(format!(
                    "{} {} encoding ({}) of {}: crate {} but the ZCash format gives {}",
                    G::NAME,
                    if compressed { "compressed" } else { "uncompressed" },
                    label,
                    pt_brief(&pm),
                    hex(&got),
                    hex(&want)
                ));
            }
            if compressed && !pm.is_inf() {
                if want[0] & 0x20 != 0 {
                    info.class("sort-flag-set");
                } else {
                    info.class("sort-flag-clear");
                }
                if want[0] & 0x1f == 0 {
                    info.class("x-leading-zero-bits-in-byte-0");
                }
            }
            // decode(encode(P)) = P : checked for subgroup points, unchecked for every curve point
            let fmt = (if G::NAME == "G1" { 0 } else { 2 }) + if compressed { 0 } else { 1 };
            let back = crate_decode::<G>(fmt, &got, sub)?;
            let back_pt = match back {
                Ok(Decoded::Inf) => Pt::Inf,
                Ok(Decoded::Coords(x, y)) => Pt::Aff(x, y),
                Err(s) => return Err(format!("{}: decoding the crate's own encoding of {} fails at stage {:?}", fmt_name(fmt), pt_brief(&pm), s)),
            };
            if back_pt != pm {
                return Err(format!("{}: decode(encode(P)) = {} != P = {}", fmt_name(fmt), pt_brief(&back_pt), pt_brief(&pm)));
            }
            // the same round trip without leaving the EncodedPoint value (as `p.into_compressed().into_affine()`):
            // the verdict must be the one the bytes alone determine
            for checked in [true, false] {
                for via_from_affine in [false, true] {
                    let (b2, res) = G::roundtrip_value(&aff, compressed, checked, via_from_affine)?;
                    if b2 != want {
                        return Err(format!("{}: the EncodedPoint value made {} holds {} but the ZCash format gives {}", fmt_name(fmt), if via_from_affine { "by from_affine" } else { "by into_(un)compressed" }, hex(&b2), hex(&want)));
                    }
                    let expect_ok = !checked || sub;
                    match res {
                        Ok(v) => {
                            if !expect_ok {
                                return Err(format!("{}: checked into_affine() on the value returned by the encoder accepts the point {} that is outside the subgroup (the same bytes are rejected when decoded from a byte string)", fmt_name(fmt), pt_brief(&pm)));
                            }
                            let vm = aff_m::<G>(&v);
                            if vm != pm {
                                return Err(format!("{}: decoding the encoder's own value gives {} instead of {}", fmt_name(fmt), pt_brief(&vm), pt_brief(&pm)));
                            }
                        }
                        Err(e) => {
                            if expect_ok {
                                return Err(format!("{}: {} decoding of the encoder's own value of {} fails: {:?}", fmt_name(fmt), if checked { "checked" } else { "unchecked" }, pt_brief(&pm), e));
                            }
                        }
                    }
                }
            }
        }
    }
    // EncodedPoint::from_affine is the same encoder
    Ok(())
}

fn check_enc_any(c: &EncCase, info: &mut Info) -> Result<(), String> {
    if c.group == 0 {
        check_enc::<G1m>(c, info)
    } else {
        check_enc::<G2m>(c, info)
    }
}

/// reverse direction: every accepted byte string re-encodes to itself
fn check_reencode<G: HasPool>(c: &DecCase, info: &mut Info) -> Result<(), String>
where
    G::F: EncFld,
{
    let compressed = c.fmt % 2 == 0;
    let bytes = build_bytes::<G>(c);
    for checked in [true, false] {
        let r = G::decode_bytes(compressed, &bytes, checked).map_err(|m| format!("{}: {}", fmt_name(c.fmt), m))?;
        match r {
            Ok(aff) => {
                info.class(format!("{}:{}:accepted", fmt_name(c.fmt), if checked { "checked" } else { "unchecked" }));
                if checked {
                    info.nt();
                }
                let re = G::encode_aff(&aff, compressed)?;
                if re != bytes {
                    return Err(format!(
                        "{} ({}): accepted byte string {} re-encodes to {} (encoding must be the only accepted preimage)",
                        fmt_name(c.fmt),
                        if checked { "checked" } else { "unchecked" },
                        hex(&bytes),
                        hex(&re)
                    ));
                }
            }
            Err(_) => {
                info.class(format!("{}:{}:rejected", fmt_name(c.fmt), if checked { "checked" } else { "unchecked" }));
            }
        }
    }
    Ok(())
}

fn check_reencode_any(c: &DecCase, info: &mut Info) -> Result<(), String> {
    if c.fmt % 4 < 2 {
        check_reencode::<G1m>(c, info)
    } else {
        check_reencode::<G2m>(c, info)
    }
}

/// sizes reported by the encoded types
fn sizes_ok() -> Result<(), String> {
    use pairing_plus::bls12_381::*;
    let s = (G1Compressed::size(), G1Uncompressed::size(), G2Compressed::size(), G2Uncompressed::size());
    if s != (48, 96, 96, 192) {
        return Err(format!("EncodedPoint::size() = {:?}, expected (48, 96, 96, 192)", s));
    }
    Ok(())
}

fn check_enc_with_sizes(c: &EncCase, info: &mut Info) -> Result<(), String> {
    sizes_ok()?;
    check_enc_any(c, info)
}

crate::long_sub!(run_long_history, [17]);

pub fn def() -> PropDef {
    PropDef {
        id: "C05",
        rule: "points of every class of G1/G2 (identity, subgroup, walks P+[k]G giving tens of thousands of different points incl. x with leading zero bits, full-curve, small order, order l*r, negated, same-y) as affine values and through generated Jacobian representatives; both encodings compared byte-for-byte with the model encoder (lengths included) and decoded back (checked decoder for subgroup points, unchecked for the rest), from the bytes and directly from the EncodedPoint value the encoder returned (both decoders, both constructors; verdicts as the bytes determine); reverse direction: the C04 byte-string generator, every accepted string must re-encode to itself. Non-trivial = non-identity point (forward) / accepted string (reverse); distinct = distinct cases",
        needs_pairing: false,
        subs: vec![
            Box::new(crate::engine::EnumSub { name: "long-history", rule: super::longhist::RULE, run: run_long_history, replay: super::longhist::replay, exhaustive: false }),
            Box::new(crate::engine::EnumSub { name: "two-input-bursts", rule: super::longhist::BURST_RULE, run: run_two_input_bursts, replay: super::longhist::replay_burst, exhaustive: false }),
            Box::new(Sub { name: "encode", rule: "bytes == model ZCash encoding; decode(encode(P)) == P", quick: 7_500, thorough: 80_000, strategy: || boxed(enc_case_strategy()), check: check_enc_with_sizes }),
            Box::new(Sub { name: "reencode-accepted", rule: "for every byte string a decoder accepts: encode(decode(s)) == s", quick: 18_000, thorough: 200_000, strategy: || boxed(dec_case_strategy()), check: check_reencode_any }),
            super::corpus_sub_decode(),
        ],
        assumptions: COMMON_ASSUMPTIONS.to_vec(),
    }
}
