//! C02 - every scalar-multiplication path computes [k]P.

use super::{PropDef, COMMON_ASSUMPTIONS};
use crate::adapt::*;
use crate::engine::{boxed, cr, Ctx, EnumSub, Info, Sub};
use crate::recipes::*;
use num_traits::{One, Zero};
use pairing_plus::bls12_381 as crt;
use pairing_plus::{verif_wnaf, CurveAffine, CurveProjective, Wnaf};
use proptest::prelude::*;
use refmodel::curve::Pt;
use refmodel::fld::{SqrtFld, Z};
use serde::{Deserialize, Serialize};
use serde_json::{json, Value};

fn repr(k: &Z) -> crt::FrRepr {
    let l = scalar_limbs(k);
    crt::FrRepr(l)
}

fn expect<G: Ops>(what: &str, got: &G::Proj, want: &Pt<G::F>, k: &Z) -> Result<(), String> {
    let g = proj_m::<G>(got);
    if &g != want {
        return Err(format!("{} {}: crate gives {} but [k]P = {} (k = 0x{:x})", G::NAME, what, pt_brief(&g), pt_brief(want), k));
    }
    if !cr("==", || G::op_eq(got, &proj_c::<G>(want)))? {
        return Err(format!("{} {}: the result is {} but the crate's == says it differs from that point built from its coordinates (k = 0x{:x})", G::NAME, what, pt_brief(want), k));
    }
    Ok(())
}

// ---- (P, k) through every applicable path --------------------------------------------------

#[derive(Clone, Debug, Serialize, Deserialize, PartialEq, Eq, Hash)]
pub struct MulCase {
    pub group: u8,
    pub p: PointR,
    pub rep: RepR,
    pub k: ScalarR,
    /// selects num_scalars for Wnaf::base (drives the window choice)
    pub nsel: u8,
}

fn mul_case_strategy(group: u8) -> BoxedStrategy<MulCase> {
    (point_strategy(true), rep_strategy(), scalar_strategy(), 0u8..8).prop_map(move |(p, rep, k, nsel)| MulCase { group, p, rep, k, nsel }).boxed()
}

const NSEL: [usize; 8] = [0, 1, 2, 4, 8, 21, 44, 130];

fn check_mul<G: HasPool>(c: &MulCase, info: &mut Info) -> Result<(), String>
where
    G::F: SqrtFld,
{
    let curve = G::curve();
    let pm = c.p.build::<G>();
    let k = c.k.build();
    let subgroup = c.p.in_subgroup();
    info.class(c.k.class());
    info.class(c.p.class());
    info.nt_if(!(k.is_zero() || k.is_one()) && !pm.is_inf());
    let want = curve.mul(&k, &pm);
    // plain paths: every curve point, every 256-bit k
    let mut t = rep_build::<G>(&pm, &c.rep);
    cr("mul_assign", || G::op_mul_assign(&mut t, repr(&k)))?;
    expect::<G>("mul_assign", &t, &want, &k)?;
    let pa = aff_c::<G>(&pm);
    let t = cr("CurveAffine::mul", || G::op_aff_mul(&pa, repr(&k)))?;
    expect::<G>("CurveAffine::mul", &t, &want, &k)?;
    if !subgroup {
        info.class("plain-paths-only (point outside the subgroup)");
        return Ok(());
    }
    // table-driven paths, tables from the crate's own precomputation
    let mut pre3 = scratch_table::<G>(3);
    cr("precomp_3", || G::op_precomp_3(&pa, &mut pre3))?;
    let t = cr("mul_precomp_3", || G::op_mul_precomp_3(&pa, repr(&k), &pre3))?;
    expect::<G>("mul_precomp_3", &t, &want, &k)?;
    let mut pre256 = scratch_table::<G>(256);
    cr("precomp_256", || G::op_precomp_256(&pa, &mut pre256))?;
    let t = cr("mul_precomp_256", || G::op_mul_precomp_256(&pa, repr(&k), &pre256))?;
    expect::<G>("mul_precomp_256", &t, &want, &k)?;
    // wNAF, both staging orders, k < 2^255
    let k255 = c.k.build255();
    let want255 = if k255 == k { want.clone() } else { curve.mul(&k255, &pm) };
    let pp = rep_build::<G>(&pm, &c.rep);
    let n = NSEL[c.nsel as usize % NSEL.len()];
    info.class(format!("wnaf-base-window={}", G::Proj::recommended_wnaf_for_num_scalars(n)));
    let t = cr("Wnaf::base.scalar", || {
        let mut w = Wnaf::new();
        let r: G::Proj = w.base(pp, n).scalar(repr(&k255));
        r
    })?;
    expect::<G>("Wnaf::base(P,n).scalar(k)", &t, &want255, &k255)?;
    let t = cr("Wnaf::scalar.base", || {
        let mut w = Wnaf::new();
        let r: G::Proj = w.scalar(repr(&k255)).base(pp);
        r
    })?;
    expect::<G>("Wnaf::scalar(k).base(P)", &t, &want255, &k255)?;
    // shared() variants
    let t = cr("Wnaf::base.shared.scalar", || {
        let mut w = Wnaf::new();
        let wb = w.base(pp, n);
        let mut sh = wb.shared();
        let r: G::Proj = sh.scalar(repr(&k255));
        r
    })?;
    expect::<G>("Wnaf::base(P,n).shared().scalar(k)", &t, &want255, &k255)?;
    let t = cr("Wnaf::scalar.shared.base", || {
        let mut w = Wnaf::<(), Vec<G::Proj>, Vec<i64>>::new();
        let ws = w.scalar(repr(&k255));
        let mut sh = ws.shared();
        let r: G::Proj = sh.base(pp);
        r
    })?;
    expect::<G>("Wnaf::scalar(k).shared().base(P)", &t, &want255, &k255)?;
    Ok(())
}

fn check_mul_any(c: &MulCase, info: &mut Info) -> Result<(), String> {
    if c.group == 0 {
        check_mul::<G1m>(c, info)
    } else {
        check_mul::<G2m>(c, info)
    }
}

// ---- recoding alone: every window 2..=22 ------------------------------------------------------

#[derive(Clone, Debug, Serialize, Deserialize, PartialEq, Eq, Hash)]
pub struct RecodeCase {
    pub k: ScalarR,
    pub window: u8,
}

fn recode_strategy() -> BoxedStrategy<RecodeCase> {
    (scalar_strategy(), 2u8..=22).prop_map(|(k, window)| RecodeCase { k, window }).boxed()
}

fn check_digits(k: &Z, w: usize, digits: &[i64]) -> Result<(), String> {
    // sum d_i 2^i = k ; every digit zero or odd ; |d_i| / 2 < 2^(w-1)
    let mut pos = Z::zero();
    let mut neg = Z::zero();
    for (i, d) in digits.iter().enumerate() {
        if *d == 0 {
            continue;
        }
        if d % 2 == 0 {
            return Err(format!("wnaf_form(window {}): even non-zero digit {} at position {} (k = 0x{:x})", w, d, i, k));
        }
        let mag = d.unsigned_abs();
        if (mag / 2) as u128 >= (1u128 << (w - 1)) {
            return Err(format!("wnaf_form(window {}): digit {} at position {} indexes outside the 2^(w-1) table (k = 0x{:x})", w, d, i, k));
        }
        if *d > 0 {
            pos = pos + (Z::from(mag) << i);
        } else {
            neg = neg + (Z::from(mag) << i);
        }
    }
    if pos < neg || &(&pos - &neg) != k {
        return Err(format!("wnaf_form(window {}): digits do not sum to k = 0x{:x}", w, k));
    }
    Ok(())
}

fn check_recode(c: &RecodeCase, info: &mut Info) -> Result<(), String> {
    let k = c.k.build255();
    let w = c.window as usize;
    info.class(format!("window={}", w));
    info.class(c.k.class());
    info.nt_if(!(k.is_zero() || k.is_one()));
    let mut digits = vec![7i64; 5]; // stale content must not influence the result
    cr("wnaf_form", || verif_wnaf::wnaf_form(&mut digits, repr(&k), w))?;
    // The digit form itself (zero or odd digits summing to k) is an internal contract between wnaf_form
    // and wnaf_exp; it is recorded as a diagnostic. What the property fixes is the product: evaluate the
    // digits on the crate's own table of a cheap base and compare with the model.
    if check_digits(&k, w, &digits).is_err() {
        info.class("diagnostic:digit-form-differs-from-textbook-wNAF");
    }
    if w <= 8 {
        let pm = G1m::pool().sub[1].1.clone();
        let mut table: Vec<pairing_plus::bls12_381::G1> = vec![];
        cr("wnaf_table", || verif_wnaf::wnaf_table(&mut table, proj_c::<G1m>(&pm), w))?;
        let t = cr("wnaf_exp", || verif_wnaf::wnaf_exp(&table, &digits))?;
        expect::<G1m>(&format!("wnaf_form + wnaf_exp (window {}, digit buffer with stale content)", w), &t, &G1m::curve().mul(&k, &pm), &k)?;
    }
    Ok(())
}

// ---- hook path with explicit windows ---------------------------------------------------------

#[derive(Clone, Debug, Serialize, Deserialize, PartialEq, Eq, Hash)]
pub struct HookCase {
    pub group: u8,
    pub p: PointR,
    pub k: ScalarR,
    pub window: u8,
    pub idx: u16,
}

fn hook_strategy_small() -> BoxedStrategy<HookCase> {
    let w = prop_oneof![6 => 2u8..=8, 3 => 9u8..=11, 1 => 12u8..=13];
    (0u8..2, point_strategy(false), scalar_strategy(), w, any::<u16>()).prop_map(|(group, p, k, window, idx)| HookCase { group, p, k, window, idx }).boxed()
}

fn check_hook<G: HasPool>(c: &HookCase, info: &mut Info) -> Result<(), String>
where
    G::F: SqrtFld,
{
    let curve = G::curve();
    let pm = c.p.build::<G>();
    let k = c.k.build255();
    let w = c.window as usize;
    info.class(format!("window={}", w));
    info.nt_if(!(k.is_zero() || k.is_one()) && !pm.is_inf());
    let pp = proj_c::<G>(&pm);
    let mut table: Vec<G::Proj> = vec![G::Proj::one(); 3]; // stale content must be discarded
    cr("wnaf_table", || verif_wnaf::wnaf_table(&mut table, pp, w))?;
    // the table must at least cover the digits of this window (a longer table is harmless)
    let need = 1usize << (w - 1);
    if table.len() < need {
        return Err(format!("wnaf_table(window {}) has only {} entries, the digits of this window index up to {}", w, table.len(), need - 1));
    }
    // sampled entries: table[i] = [2i+1]P
    for i in [0usize, 1usize % need, c.idx as usize % need, need - 1] {
        let want = curve.mul(&Z::from(2 * i as u64 + 1), &pm);
        if proj_m::<G>(&table[i]) != want {
            return Err(format!("{} wnaf_table(window {})[{}] != [{}]P", G::NAME, w, i, 2 * i + 1));
        }
    }
    let mut digits = vec![];
    cr("wnaf_form", || verif_wnaf::wnaf_form(&mut digits, repr(&k), w))?;
    if check_digits(&k, w, &digits).is_err() {
        info.class("diagnostic:digit-form-differs-from-textbook-wNAF");
    }
    let t = cr("wnaf_exp", || verif_wnaf::wnaf_exp(&table, &digits))?;
    expect::<G>(&format!("wnaf_exp(window {})", w), &t, &curve.mul(&k, &pm), &k)
}

fn check_hook_any(c: &HookCase, info: &mut Info) -> Result<(), String> {
    if c.group == 0 {
        check_hook::<G1m>(c, info)
    } else {
        check_hook::<G2m>(c, info)
    }
}

// ---- histories of one reused context ---------------------------------------------------------

#[derive(Clone, Debug, Serialize, Deserialize, PartialEq, Eq, Hash)]
pub enum Phase {
    /// w.base(P, n) then .scalar(k) for each k
    Base(PointR, u8, Vec<ScalarR>),
    /// w.scalar(k) then .base(P) for each P
    Scalar(ScalarR, Vec<PointR>),
    /// w.base(P, n) again for the base of the most recent phase (other n, hence possibly another window)
    BaseAgain(u8, Vec<ScalarR>),
    /// w.scalar(k) again for the scalar of the most recent scalar phase, then .base(P) for each P
    ScalarAgain(Vec<PointR>),
}

#[derive(Clone, Debug, Serialize, Deserialize, PartialEq, Eq, Hash)]
pub struct History {
    pub group: u8,
    pub phases: Vec<Phase>,
}

fn history_strategy() -> BoxedStrategy<History> {
    let phase = prop_oneof![
        (point_strategy(false), 0u8..8, proptest::collection::vec(scalar_strategy(), 0..4)).prop_map(|(p, n, ks)| Phase::Base(p, n, ks)),
        (scalar_strategy(), proptest::collection::vec(point_strategy(false), 0..4)).prop_map(|(k, ps)| Phase::Scalar(k, ps)),
        (0u8..8, proptest::collection::vec(scalar_strategy(), 1..4)).prop_map(|(n, ks)| Phase::BaseAgain(n, ks)),
        proptest::collection::vec(point_strategy(false), 1..4).prop_map(Phase::ScalarAgain),
    ];
    (0u8..2, proptest::collection::vec(phase, 1..8)).prop_map(|(group, phases)| History { group, phases }).boxed()
}

fn check_history<G: HasPool>(h: &History, info: &mut Info) -> Result<(), String>
where
    G::F: SqrtFld,
{
    let curve = G::curve();
    let mut ctx = Wnaf::<(), Vec<G::Proj>, Vec<i64>>::new();
    let mut results = 0usize;
    let mut kinds = (false, false);
    let mut windows = std::collections::BTreeSet::new();
    let mut last_base: PointR = PointR::Gen;
    let mut last_scalar: ScalarR = ScalarR::One;
    for (pi, ph0) in h.phases.iter().enumerate() {
        let ph = match ph0 {
            Phase::BaseAgain(n, ks) => {
                info.class("history:same-base-again-other-n");
                Phase::Base(last_base.clone(), *n, ks.clone())
            }
            Phase::ScalarAgain(ps) => {
                info.class("history:same-scalar-again");
                Phase::Scalar(last_scalar.clone(), ps.clone())
            }
            other => other.clone(),
        };
        match &ph {
            Phase::BaseAgain(_, _) | Phase::ScalarAgain(_) => unreachable!(),
            Phase::Base(p, nsel, ks) => {
                last_base = p.clone();
                kinds.0 = true;
                let pm = p.build::<G>();
                let pp = proj_c::<G>(&pm);
                let n = NSEL[*nsel as usize % NSEL.len()];
                windows.insert(G::Proj::recommended_wnaf_for_num_scalars(n));
                let outs: Vec<G::Proj> = cr("reused Wnaf::base", || {
                    let mut wb = ctx.base(pp, n);
                    ks.iter().map(|k| wb.scalar(repr(&k.build255()))).collect()
                })?;
                for (k, o) in ks.iter().zip(outs.iter()) {
                    let kz = k.build255();
                    expect::<G>(&format!("phase {}: reused context .base(P,{}).scalar(k)", pi, n), o, &curve.mul(&kz, &pm), &kz)?;
                    let fresh: G::Proj = cr("fresh Wnaf", || Wnaf::new().base(pp, n).scalar(repr(&kz)))?;
                    if proj_m::<G>(&fresh) != proj_m::<G>(o) {
                        return Err(format!("phase {}: reused context differs from a fresh context", pi));
                    }
                    results += 1;
                }
            }
            Phase::Scalar(k, ps) => {
                last_scalar = k.clone();
                kinds.1 = true;
                let kz = k.build255();
                windows.insert(G::Proj::recommended_wnaf_for_scalar(repr(&kz)));
                let pts: Vec<Pt<G::F>> = ps.iter().map(|p| p.build::<G>()).collect();
                let outs: Vec<G::Proj> = cr("reused Wnaf::scalar", || {
                    let mut ws = ctx.scalar(repr(&kz));
                    pts.iter().map(|pm| ws.base(proj_c::<G>(pm))).collect()
                })?;
                for (pm, o) in pts.iter().zip(outs.iter()) {
                    expect::<G>(&format!("phase {}: reused context .scalar(k).base(P)", pi), o, &curve.mul(&kz, pm), &kz)?;
                    let fresh: G::Proj = cr("fresh Wnaf", || Wnaf::new().scalar(repr(&kz)).base(proj_c::<G>(pm)))?;
                    if proj_m::<G>(&fresh) != proj_m::<G>(o) {
                        return Err(format!("phase {}: reused context differs from a fresh context", pi));
                    }
                    results += 1;
                }
            }
        }
    }
    if kinds.0 && kinds.1 {
        info.class("history:both-staging-orders");
    }
    if windows.len() > 1 {
        info.class("history:window-size-changes");
    }
    info.class(format!("history:phases={}", h.phases.len()));
    info.nt_if(h.phases.len() >= 2 && results >= 2);
    Ok(())
}

fn check_history_any(h: &History, info: &mut Info) -> Result<(), String> {
    if h.group == 0 {
        check_history::<G1m>(h, info)
    } else {
        check_history::<G2m>(h, info)
    }
}

// ---- exhaustive sub-domains ------------------------------------------------------------------

fn single_bit_case<G: HasPool>(i: usize, pm: &Pt<G::F>, want: &Pt<G::F>, pre3: &[G::Aff], pre256: &[G::Aff]) -> Result<(), String>
where
    G::F: SqrtFld,
{
    let k = Z::one() << i;
    let pa = aff_c::<G>(pm);
    let mut t = proj_c::<G>(pm);
    cr("mul_assign", || G::op_mul_assign(&mut t, repr(&k)))?;
    expect::<G>(&format!("mul_assign(2^{})", i), &t, want, &k)?;
    let t = cr("mul", || G::op_aff_mul(&pa, repr(&k)))?;
    expect::<G>(&format!("CurveAffine::mul(2^{})", i), &t, want, &k)?;
    let t = cr("mul_precomp_3", || G::op_mul_precomp_3(&pa, repr(&k), pre3))?;
    expect::<G>(&format!("mul_precomp_3(2^{})", i), &t, want, &k)?;
    let t = cr("mul_precomp_256", || G::op_mul_precomp_256(&pa, repr(&k), pre256))?;
    expect::<G>(&format!("mul_precomp_256(2^{})", i), &t, want, &k)?;
    if i < 255 {
        let pp = proj_c::<G>(pm);
        let t: G::Proj = cr("wnaf", || Wnaf::new().scalar(repr(&k)).base(pp))?;
        expect::<G>(&format!("Wnaf::scalar(2^{}).base", i), &t, want, &k)?;
        let t: G::Proj = cr("wnaf", || Wnaf::new().base(pp, 1).scalar(repr(&k)))?;
        expect::<G>(&format!("Wnaf::base.scalar(2^{})", i), &t, want, &k)?;
    }
    Ok(())
}

fn single_bits_group<G: HasPool>(rec: &mut dyn FnMut(Value, Info)) -> Result<(), (String, Value)>
where
    G::F: SqrtFld,
{
    let curve = G::curve();
    let pm = G::pool().sub[3].1.clone();
    let pa = aff_c::<G>(&pm);
    let mut pre3 = scratch_table::<G>(3);
    G::op_precomp_3(&pa, &mut pre3);
    let mut pre256 = scratch_table::<G>(256);
    G::op_precomp_256(&pa, &mut pre256);
    let mut want = pm.clone();
    for i in 0..256usize {
        let case = json!({"group": G::NAME, "bit": i});
        single_bit_case::<G>(i, &pm, &want, &pre3, &pre256).map_err(|m| (m, case.clone()))?;
        let mut info = Info::default();
        info.nt();
        info.class(format!("single-bit:{}", G::NAME));
        rec(case, info);
        want = curve.dbl(&want);
    }
    Ok(())
}

fn run_single_bits(_ctx: &Ctx, rec: &mut dyn FnMut(Value, Info)) -> Result<(), (String, Value)> {
    single_bits_group::<G1m>(rec)?;
    single_bits_group::<G2m>(rec)
}

fn replay_single_bits(v: &Value) -> Result<(), String> {
    fn one<G: HasPool>(i: usize) -> Result<(), String>
    where
        G::F: SqrtFld,
    {
        let pm = G::pool().sub[3].1.clone();
        let pa = aff_c::<G>(&pm);
        let mut pre3 = scratch_table::<G>(3);
        G::op_precomp_3(&pa, &mut pre3);
        let mut pre256 = scratch_table::<G>(256);
        G::op_precomp_256(&pa, &mut pre256);
        let want = G::curve().mul(&(Z::one() << i), &pm);
        single_bit_case::<G>(i, &pm, &want, &pre3, &pre256)
    }
    let i = v["bit"].as_u64().unwrap_or(0) as usize;
    if v["group"] == "G1" {
        one::<G1m>(i)
    } else {
        one::<G2m>(i)
    }
}

fn recommend_case(kind: &str, group: &str, n: u64) -> Result<usize, String> {
    let w = match (kind, group) {
        ("num_scalars", "G1") => cr("recommended_wnaf_for_num_scalars", || crt::G1::recommended_wnaf_for_num_scalars(n as usize))?,
        ("num_scalars", _) => cr("recommended_wnaf_for_num_scalars", || crt::G2::recommended_wnaf_for_num_scalars(n as usize))?,
        (_, g) => {
            // scalar with bit length n (n = 0: zero)
            let k = if n == 0 { Z::zero() } else { Z::one() << (n as usize - 1) };
            let rp = if n <= 256 { repr(&k) } else { crt::FrRepr([u64::MAX; 4]) };
            if g == "G1" {
                cr("recommended_wnaf_for_scalar", || crt::G1::recommended_wnaf_for_scalar(rp))?
            } else {
                cr("recommended_wnaf_for_scalar", || crt::G2::recommended_wnaf_for_scalar(rp))?
            }
        }
    };
    if !(2..=22).contains(&w) {
        return Err(format!("{} {}({}) = {} outside the documented range 2..=22", group, kind, n, w));
    }
    Ok(w)
}

fn run_recommendations(ctx: &Ctx, rec: &mut dyn FnMut(Value, Info)) -> Result<(), (String, Value)> {
    let limit: u64 = if ctx.tier == crate::engine::Tier::Quick { 1 << 18 } else { 1 << 22 };
    let mut ns: Vec<u64> = (0..=limit).collect();
    for e in 18..64u32 {
        for d in [-1i64, 0, 1] {
            ns.push(((1u128 << e) as i128 + d as i128) as u64);
        }
    }
    for d in 0..4u64 {
        ns.push(u64::MAX - d);
    }
    for group in ["G1", "G2"] {
        let mut seen = std::collections::BTreeSet::new();
        for n in &ns {
            let case = json!({"kind": "num_scalars", "group": group, "n": n});
            let w = recommend_case("num_scalars", group, *n).map_err(|m| (m, case.clone()))?;
            let mut info = Info::default();
            // non-trivial & distinct: the first n at which each window value is returned (a boundary)
            if seen.insert(w) {
                info.nt();
                info.class(format!("{}:num_scalars-window={}", group, w));
                rec(case, info);
            } else {
                rec(Value::Null, info);
            }
        }
        for bits in 0..=257u64 {
            let case = json!({"kind": "scalar_bits", "group": group, "n": bits});
            let w = recommend_case("scalar_bits", group, bits).map_err(|m| (m, case.clone()))?;
            let mut info = Info::default();
            info.nt();
            info.class(format!("{}:scalar-window={}", group, w));
            rec(case, info);
        }
    }
    Ok(())
}

fn replay_recommendations(v: &Value) -> Result<(), String> {
    recommend_case(v["kind"].as_str().unwrap_or(""), v["group"].as_str().unwrap_or("G1"), v["n"].as_u64().unwrap_or(0)).map(|_| ())
}

/// public staging path for every window the recommendation function returns (4..=16 for G1, 4..=15 for G2) (13 table sizes per group), and the
/// hook path for the large windows (thorough only: up to 2^21 entries)
fn window_case<G: HasPool>(public: bool, w: usize, kidx: usize) -> Result<(), String>
where
    G::F: SqrtFld,
{
    let curve = G::curve();
    let pm = G::pool().sub[5].1.clone();
    let pp = proj_c::<G>(&pm);
    let ks = [
        (Z::one() << 255) - Z::one(),
        refmodel::consts::r() - Z::one(),
        G::pool().sub[7].0.clone(),
        (Z::one() << 254) + (Z::one() << 64) - Z::one(),
    ];
    let k = &ks[kidx % ks.len()];
    if public {
        // find n with recommended window w (the job list only contains reachable windows)
        let n = match reachable_windows::<G>().into_iter().find(|(ww, _)| *ww == w) {
            Some((_, n)) => n,
            None => return Ok(()),
        };
        let t: G::Proj = cr("Wnaf::base.scalar", || Wnaf::new().base(pp, n).scalar(repr(k)))?;
        expect::<G>(&format!("Wnaf::base(P,{}).scalar(k) [window {}]", n, w), &t, &curve.mul(k, &pm), k)
    } else {
        let mut table: Vec<G::Proj> = vec![];
        cr("wnaf_table", || verif_wnaf::wnaf_table(&mut table, pp, w))?;
        let mut digits = vec![];
        cr("wnaf_form", || verif_wnaf::wnaf_form(&mut digits, repr(k), w))?;
        let t = cr("wnaf_exp", || verif_wnaf::wnaf_exp(&table, &digits))?;
        expect::<G>(&format!("wnaf_exp [window {}]", w), &t, &curve.mul(k, &pm), k)?;
        let last = (1usize << (w - 1)) - 1;
        if table.len() <= last {
            return Err(format!("{} wnaf_table(window {}) has only {} entries", G::NAME, w, table.len()));
        }
        if proj_m::<G>(&table[last]) != curve.mul(&Z::from(2 * last as u64 + 1), &pm) {
            return Err(format!("{} wnaf_table(window {}) last entry wrong", G::NAME, w));
        }
        Ok(())
    }
}

/// (window, smallest n found that selects it) for every window the public recommendation returns
fn reachable_windows<G: Grp>() -> Vec<(usize, usize)> {
    let mut out: Vec<(usize, usize)> = vec![];
    let mut n = 0usize;
    while n < (1 << 24) {
        let w = G::Proj::recommended_wnaf_for_num_scalars(n);
        if !out.iter().any(|(ww, _)| *ww == w) {
            out.push((w, n));
        }
        n = if n < 64 { n + 1 } else { n + n / 64 };
    }
    out
}

fn run_windows(ctx: &Ctx, rec: &mut dyn FnMut(Value, Info)) -> Result<(), (String, Value)> {
    let mut jobs: Vec<(u8, bool, usize, usize)> = vec![];
    for g in 0..2u8 {
        let reach = if g == 0 { reachable_windows::<G1m>() } else { reachable_windows::<G2m>() };
        for (w, _) in reach {
            if w > 16 {
                continue; // tables beyond 2^15 entries are exercised through the hook path
            }
            for kidx in 0..2 {
                jobs.push((g, true, w, kidx));
            }
        }
        let hook_max = if ctx.tier == crate::engine::Tier::Quick { 14 } else { 22 };
        for w in 2..=hook_max {
            jobs.push((g, false, w, w));
        }
    }
    // big tables are memory-hungry: run with limited parallelism
    let res = crate::engine::par_map(std::cmp::min(ctx.threads, 4), jobs.len(), |i| {
        let (g, public, w, kidx) = jobs[i];
        if g == 0 {
            window_case::<G1m>(public, w, kidx)
        } else {
            window_case::<G2m>(public, w, kidx)
        }
    });
    for (i, r) in res.into_iter().enumerate() {
        let (g, public, w, kidx) = jobs[i];
        let case = json!({"group": g, "public": public, "window": w, "kidx": kidx});
        r.map_err(|m| (m, case.clone()))?;
        let mut info = Info::default();
        info.nt();
        info.class(format!("{}:window={}", if public { "public" } else { "hook" }, w));
        rec(case, info);
    }
    Ok(())
}

fn replay_windows(v: &Value) -> Result<(), String> {
    let (g, public, w, kidx) = (v["group"].as_u64().unwrap_or(0), v["public"].as_bool().unwrap_or(true), v["window"].as_u64().unwrap_or(4) as usize, v["kidx"].as_u64().unwrap_or(0) as usize);
    if g == 0 {
        window_case::<G1m>(public, w, kidx)
    } else {
        window_case::<G2m>(public, w, kidx)
    }
}

crate::long_sub!(run_long_history, [22, 23]);

pub fn def() -> PropDef {
    PropDef {
        id: "C02",
        rule: "(P, k) with P from every point class (arbitrary curve points for the plain paths, subgroup points for table-driven and wNAF paths) in generated Jacobian representatives and k from the structured scalar generator (0, 1, r-1, r, r+1, every single bit, bit pairs, masks 2^n-1, patterns straddling 64-bit words and 32-bit chunks, 2^255-1, 2^255, 2^256-1, sparse, uniform), through mul_assign, CurveAffine::mul, mul_precomp_3, mul_precomp_256 (k < 2^256), Wnaf in both staging orders and shared() variants (k < 2^255); explicit windows via the hook path; histories reusing one context; exhaustive: 256 single-bit scalars x all paths x both groups, every recommended window 4..=16 through the public path, recommendation functions. Oracle: model [k]P. Non-trivial = k not in {0,1} and P != O (histories: >= 2 phases and >= 2 results); distinct = distinct cases",
        needs_pairing: false,
        subs: vec![
            Box::new(crate::engine::EnumSub { name: "long-history", rule: super::longhist::RULE, run: run_long_history, replay: super::longhist::replay, exhaustive: false }),
            Box::new(crate::engine::EnumSub { name: "two-input-bursts", rule: super::longhist::BURST_RULE, run: run_two_input_bursts, replay: super::longhist::replay_burst, exhaustive: false }),
            Box::new(Sub { name: "g1-paths", rule: "G1: (P, rep, k) through all applicable paths", quick: 2_250, thorough: 30_000, strategy: || boxed(mul_case_strategy(0)), check: check_mul_any }),
            Box::new(Sub { name: "g2-paths", rule: "G2: (P, rep, k) through all applicable paths", quick: 1_500, thorough: 15_000, strategy: || boxed(mul_case_strategy(1)), check: check_mul_any }),
            Box::new(Sub { name: "recode", rule: "wnaf_form for every window 2..=22 into a digit buffer with stale content; for windows <= 8 the digits are evaluated on the crate's own table and compared with the model [k]P (the digit form itself is recorded as a diagnostic only)", quick: 50_000, thorough: 1_000_000, strategy: || boxed(recode_strategy()), check: check_recode }),
            Box::new(Sub { name: "hook-windows", rule: "wnaf_table / wnaf_form / wnaf_exp with explicit windows 2..=13 on generated (P, k); table entries [2i+1]P sampled", quick: 1_250, thorough: 15_000, strategy: || boxed(hook_strategy_small()), check: check_hook_any }),
            Box::new(Sub { name: "context-history", rule: "one Wnaf context reused over generated phases (base-then-scalars / scalar-then-bases) compared with the model and with a fresh context", quick: 750, thorough: 10_000, strategy: || boxed(history_strategy()), check: check_history_any }),
            Box::new(EnumSub { name: "single-bits", rule: "all 256 single-bit scalars x {mul_assign, CurveAffine::mul, mul_precomp_3, mul_precomp_256, Wnaf both orders (bits < 255)} x {G1, G2} (enumerated)", run: run_single_bits, replay: replay_single_bits, exhaustive: true }),
            Box::new(EnumSub { name: "all-windows", rule: "public staging path for every window the recommendation function returns (4..=16 for G1, 4..=15 for G2) and hook path for windows 2..=14 (quick) / 2..=22 (thorough), both groups, boundary scalars (enumerated)", run: run_windows, replay: replay_windows, exhaustive: true }),
            Box::new(EnumSub { name: "recommendations", rule: "recommended_wnaf_for_num_scalars(n) for all n <= 2^18 (quick) / 2^22 (thorough) plus 2^e+-1 up to usize::MAX; recommended_wnaf_for_scalar for every bit length 0..=256: always in 2..=22 (enumerated; evidence counts each returned window value once)", run: run_recommendations, replay: replay_recommendations, exhaustive: true }),
        ],
        assumptions: {
            let mut v = COMMON_ASSUMPTIONS.to_vec();
            v.push("wNAF scalars are clipped to [0, 2^255) as the property states; tables only from the crate's own precomp_3 / precomp_256 with lengths 3 / 256");
            v
        },
    }
}
