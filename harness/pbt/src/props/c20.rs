//! C20 - all operations are deterministic and independent of concurrent use.
//! Workloads of library operations are run sequentially (twice, in different orders and after
//! different unrelated prefixes) and concurrently on 2..16 threads that share wNAF tables and
//! prepared pairing elements; all results must be bit-identical (raw coordinates, not just equal points).

use super::c09::{ext_strategy, ExtR};
use super::c13::expander_of;
use super::{PropDef, COMMON_ASSUMPTIONS};
use crate::adapt::*;
use crate::engine::{boxed, cr, Info, Sub};
use crate::recipes::*;
use ff_zeroize::{Field, PrimeField, SqrtField};
use pairing_plus::bls12_381 as crt;
use pairing_plus::bls12_381::Bls12;
use pairing_plus::serdes::SerDes;
use pairing_plus::{CurveAffine, CurveProjective, Engine, Wnaf};
use proptest::prelude::*;
use refmodel::fld::Z;
use serde::{Deserialize, Serialize};
use std::sync::Barrier;

#[derive(Clone, Debug, Serialize, Deserialize, PartialEq, Eq, Hash)]
pub enum WOp {
    Fq2Arith(Fq2R, Fq2R),
    Fq12Arith(ExtR, ExtR),
    Sqrt(Fq2R),
    Group(u8, PointR, PointR),
    Mul(u8, PointR, ScalarR, u8),
    /// scalar multiplication through the wNAF table shared by all threads
    SharedWnaf(ScalarR),
    /// own wNAF context reused for several scalars
    OwnWnaf(u8, PointR, Vec<ScalarR>),
    /// ONE wNAF context reused for a sequence of tablings: per step (use the first / the second base,
    /// index into NSEL for the number of scalars, scalar, scalar-first staging); every result is compared
    /// with the same call on a fresh context
    CtxHistory(u8, PointR, PointR, Vec<(bool, u8, ScalarR, bool)>),
    Msm(u8, Vec<(PointR, ScalarR)>),
    /// Miller loop over the shared prepared pair and one more pair, then final exponentiation
    SharedPairing(u8, u8),
    Pairing(u8, u8),
    Hash(u8, bool, u8, BytesR, BytesR),
    Ser(u8, PointR, bool),
    /// pairing of (+-g1, +-g2) - needs no point pool
    PairGen(bool, bool),
    /// a call OUTSIDE the documented domain whose panic (if any) is caught, as a long-lived worker would:
    /// 0 = sum_of_products with bit 255 set in a later scalar, 1 = expand_message_xmd beyond 255 blocks.
    /// Its own outcome is not compared; the operations that follow must be unaffected.
    Rejected(u8, u8),
    /// checked decoding of the compressed / uncompressed encoding of +-generator (subgroup test inside)
    DecodeGen(u8, bool, bool),
}

#[derive(Clone, Debug, Serialize, Deserialize, PartialEq, Eq, Hash)]
pub struct Workload {
    /// group and base of the shared wNAF table, number-of-scalars hint
    pub shared_group: u8,
    pub shared_base: PointR,
    pub shared_n: u8,
    /// indices of the shared prepared pair
    pub shared_pair: (u8, u8),
    pub ops: Vec<WOp>,
    pub threads: u8,
    pub assignment: Vec<u8>,
    pub prefixes: Vec<Vec<WOp>>,
    pub reps: u8,
}

fn simple_op() -> BoxedStrategy<WOp> {
    prop_oneof![
        2 => (fq2_strategy(), fq2_strategy()).prop_map(|(a, b)| WOp::Fq2Arith(a, b)),
        2 => (ext_strategy(12), ext_strategy(12)).prop_map(|(a, b)| WOp::Fq12Arith(a, b)),
        1 => fq2_strategy().prop_map(WOp::Sqrt),
        3 => (0u8..2, point_strategy(true), point_strategy(true)).prop_map(|(g, p, q)| WOp::Group(g, p, q)),
        3 => (0u8..2, point_strategy(false), scalar_strategy(), 0u8..5).prop_map(|(g, p, k, path)| WOp::Mul(g, p, k, path)),
        2 => (0u8..2, point_strategy(false), proptest::collection::vec(prop_oneof![5 => scalar_strategy(), 1 => Just(ScalarR::Zero)], 1..4)).prop_map(|(g, p, ks)| WOp::OwnWnaf(g, p, ks)),
        2 => (0u8..2, point_strategy(false), point_strategy(false), proptest::collection::vec((prop_oneof![3 => Just(true), 1 => Just(false)], 0u8..8, scalar_strategy(), any::<bool>()), 2..6)).prop_map(|(g, p, q, st)| WOp::CtxHistory(g, p, q, st)),
        2 => (0u8..2, proptest::collection::vec((point_strategy(false), scalar_strategy()), 0..6)).prop_map(|(g, v)| WOp::Msm(g, v)),
        1 => (0u8..POOL_SUB as u8, 0u8..POOL_SUB as u8).prop_map(|(i, j)| WOp::Pairing(i, j)),
        2 => (0u8..2, any::<bool>(), 0u8..4, msg_strategy(), dst_strategy()).prop_map(|(g, ro, e, m, d)| WOp::Hash(g, ro, e, m, d)),
        2 => (0u8..2, point_strategy(false), any::<bool>()).prop_map(|(g, p, c)| WOp::Ser(g, p, c)),
        1 => (0u8..2, 0u8..2).prop_map(|(k, g)| WOp::Rejected(k, g)),
    ]
    .boxed()
}

fn op_strategy() -> BoxedStrategy<WOp> {
    prop_oneof![
        5 => simple_op(),
        3 => prop_oneof![4 => scalar_strategy(), 1 => Just(ScalarR::Zero), 1 => Just(ScalarR::One)].prop_map(WOp::SharedWnaf),
        2 => (0u8..POOL_SUB as u8, 0u8..POOL_SUB as u8).prop_map(|(i, j)| WOp::SharedPairing(i, j)),
    ]
    .boxed()
}

fn workload_strategy() -> BoxedStrategy<Workload> {
    (
        (0u8..2, point_strategy(false), 0u8..8, (0u8..POOL_SUB as u8, 0u8..POOL_SUB as u8)),
        proptest::collection::vec(op_strategy(), 2..14),
        2u8..=16,
        proptest::collection::vec(any::<u8>(), 14),
        proptest::collection::vec(proptest::collection::vec(simple_op(), 0..3), 16),
        1u8..=3,
    )
        .prop_map(|((shared_group, shared_base, shared_n, shared_pair), ops, threads, assignment, prefixes, reps)| {
            // every other hashing operation gets a SIBLING request right behind it: the same bytes msg || tag with the
            // boundary between message and tag moved (a memo keyed by the concatenation confuses the two)
            let mut ops2 = vec![];
            for (i, op) in ops.into_iter().enumerate() {
                let sib = match &op {
                    WOp::Hash(g, ro, e, m, d) if i % 2 == 0 => {
                        let (mb, db) = (m.build(), d.build());
                        let k = if mb.len() % 2 == 0 { 1 + (mb.len() % 5) as i8 } else { -(1 + (db.len() % 5) as i8) };
                        let (m2, d2) = super::c13::shift_boundary(&mb, &db, k);
                        if (m2.clone(), d2.clone()) != (mb, db) && m2.len() <= 300 { Some(WOp::Hash(*g, *ro, *e, BytesR::Lit(m2), BytesR::Lit(d2))) } else { None }
                    }
                    _ => None,
                };
                ops2.push(op);
                if let Some(s) = sib {
                    ops2.push(s);
                }
            }
            ops2.truncate(14);
            Workload { shared_group, shared_base, shared_n, shared_pair, ops: ops2, threads, assignment, prefixes, reps }
        })
        .boxed()
}

// ---- raw-bytes views of results ------------------------------------------------------------------

fn put_fq(out: &mut Vec<u8>, a: &crt::Fq) {
    for l in a.into_repr().as_ref() {
        out.extend_from_slice(&l.to_le_bytes());
    }
}
fn put_fq2(out: &mut Vec<u8>, a: &crt::Fq2) {
    put_fq(out, &a.c0);
    put_fq(out, &a.c1);
}
fn put_fq12(out: &mut Vec<u8>, a: &crt::Fq12) {
    for c6 in [&a.c0, &a.c1] {
        for c2 in [&c6.c0, &c6.c1, &c6.c2] {
            put_fq2(out, c2);
        }
    }
}
trait Raw: Grp {
    fn put_f(out: &mut Vec<u8>, a: &Self::CF);
    fn put_proj(out: &mut Vec<u8>, p: &Self::Proj) {
        let (x, y, z) = p.as_tuple();
        Self::put_f(out, x);
        Self::put_f(out, y);
        Self::put_f(out, z);
    }
    fn put_aff(out: &mut Vec<u8>, p: &Self::Aff) {
        let (x, y) = p.as_tuple();
        Self::put_f(out, x);
        Self::put_f(out, y);
        out.push(p.is_zero() as u8);
    }
    fn hash(e: refmodel::h2c::Expander, ro: bool, m: &[u8], d: &[u8]) -> Self::Proj;
    fn ser(p: &Self::Proj, c: bool) -> std::io::Result<Vec<u8>>;
    fn deser(b: &[u8], c: bool) -> std::io::Result<Self::Proj>;
}
impl Raw for G1m {
    fn put_f(out: &mut Vec<u8>, a: &crt::Fq) {
        put_fq(out, a)
    }
    fn hash(e: refmodel::h2c::Expander, ro: bool, m: &[u8], d: &[u8]) -> crt::G1 {
        super::c06::crate_h2c_g1(e, ro, m, d)
    }
    fn ser(p: &crt::G1, c: bool) -> std::io::Result<Vec<u8>> {
        let mut v = vec![];
        p.serialize(&mut v, c)?;
        Ok(v)
    }
    fn deser(b: &[u8], c: bool) -> std::io::Result<crt::G1> {
        crt::G1::deserialize(&mut &b[..], c)
    }
}
impl Raw for G2m {
    fn put_f(out: &mut Vec<u8>, a: &crt::Fq2) {
        put_fq2(out, a)
    }
    fn hash(e: refmodel::h2c::Expander, ro: bool, m: &[u8], d: &[u8]) -> crt::G2 {
        super::c06::crate_h2c_g2(e, ro, m, d)
    }
    fn ser(p: &crt::G2, c: bool) -> std::io::Result<Vec<u8>> {
        let mut v = vec![];
        p.serialize(&mut v, c)?;
        Ok(v)
    }
    fn deser(b: &[u8], c: bool) -> std::io::Result<crt::G2> {
        crt::G2::deserialize(&mut &b[..], c)
    }
}

fn rp(k: &Z) -> crt::FrRepr {
    crt::FrRepr(scalar_limbs(k))
}

/// state shared (borrowed) by all threads
struct Shared<'a> {
    /// the staged context (window table computed once) borrowed by every thread; each thread takes
    /// ONE `.shared()` handle from it and reuses that handle for all its scalars
    wb1: Option<&'a Wnaf<usize, &'a [crt::G1], &'a mut Vec<i64>>>,
    wb2: Option<&'a Wnaf<usize, &'a [crt::G2], &'a mut Vec<i64>>>,
    p_prep: &'a crt::G1Prepared,
    q_prep: &'a crt::G2Prepared,
}

/// per-thread (per sequential run) mutable state: the reused wNAF handles
struct Local<'a> {
    h1: Option<Wnaf<usize, &'a [crt::G1], Vec<i64>>>,
    h2: Option<Wnaf<usize, &'a [crt::G2], Vec<i64>>>,
}

impl<'a> Local<'a> {
    fn new(sh: &Shared<'a>) -> Local<'a> {
        Local { h1: sh.wb1.map(|w| w.shared()), h2: sh.wb2.map(|w| w.shared()) }
    }
}

fn group_ops<G: Raw + HasPool>(p: &PointR, q: &PointR, out: &mut Vec<u8>) -> Result<(), String>
where
    G::F: refmodel::fld::SqrtFld,
{
    let a = proj_c::<G>(&p.build::<G>());
    let b = proj_c::<G>(&q.build::<G>());
    let ba = aff_c::<G>(&q.build::<G>());
    let mut t = a;
    cr("add", || t.add_assign(&b))?;
    G::put_proj(out, &t);
    let mut t = a;
    cr("add_mixed", || t.add_assign_mixed(&ba))?;
    G::put_proj(out, &t);
    let mut t = a;
    cr("double", || t.double())?;
    G::put_proj(out, &t);
    let mut t = a;
    cr("sub", || t.sub_assign(&b))?;
    G::put_proj(out, &t);
    let af = cr("into_affine", || t.into_affine())?;
    G::put_aff(out, &af);
    let mut v = vec![a, b, t];
    cr("batch", || G::Proj::batch_normalization(&mut v))?;
    for x in &v {
        G::put_proj(out, x);
    }
    out.push((a == b) as u8);
    Ok(())
}

fn mul_op<G: Raw + HasPool>(p: &PointR, k: &ScalarR, path: u8, out: &mut Vec<u8>) -> Result<(), String>
where
    G::F: refmodel::fld::SqrtFld,
{
    let pm = p.build::<G>();
    let pa = aff_c::<G>(&pm);
    let pp = proj_c::<G>(&pm);
    let kz = k.build();
    let r = match path % 5 {
        0 => {
            let mut t = pp;
            cr("mul_assign", || t.mul_assign(rp(&kz)))?;
            t
        }
        1 => cr("mul", || pa.mul(rp(&kz)))?,
        2 => cr("precomp3", || {
            let mut pre = scratch_table::<G>(3);
            pa.precomp_3(&mut pre);
            pa.mul_precomp_3(rp(&kz), &pre)
        })?,
        3 => cr("precomp256", || {
            let mut pre = scratch_table::<G>(256);
            pa.precomp_256(&mut pre);
            pa.mul_precomp_256(rp(&kz), &pre)
        })?,
        _ => cr("wnaf", || Wnaf::new().scalar(rp(&k.build255())).base(pp))?,
    };
    G::put_proj(out, &r);
    Ok(())
}

fn own_wnaf<G: Raw + HasPool>(p: &PointR, ks: &[ScalarR], out: &mut Vec<u8>) -> Result<(), String>
where
    G::F: refmodel::fld::SqrtFld,
{
    let pp = proj_c::<G>(&p.build::<G>());
    let res: Vec<G::Proj> = cr("own wnaf", || {
        let mut w = Wnaf::new();
        let mut wb = w.base(pp, ks.len());
        ks.iter().map(|k| wb.scalar(rp(&k.build255()))).collect()
    })?;
    for (k, r) in ks.iter().zip(res.iter()) {
        G::put_proj(out, r);
        // the same multiplication on a fresh context must give the same bits (no dependence on the
        // earlier scalars the reused context has seen)
        let fresh: G::Proj = cr("fresh wnaf", || Wnaf::new().base(pp, ks.len()).scalar(rp(&k.build255())))?;
        let (mut a, mut b) = (vec![], vec![]);
        G::put_proj(&mut a, r);
        G::put_proj(&mut b, &fresh);
        if a != b {
            return Err(format!("a reused wNAF context returns different bits than a fresh one for scalar {:?} (dependence on call history)", k));
        }
    }
    Ok(())
}

fn ctx_history<G: Raw + HasPool>(p: &PointR, q: &PointR, steps: &[(bool, u8, ScalarR, bool)], out: &mut Vec<u8>) -> Result<(), String>
where
    G::F: refmodel::fld::SqrtFld,
{
    let pp = proj_c::<G>(&p.build::<G>());
    let qq = proj_c::<G>(&q.build::<G>());
    let mut w = Wnaf::new();
    for (i, (first, nsel, k, scalar_first)) in steps.iter().enumerate() {
        let base = if *first { pp } else { qq };
        let n = NSEL[*nsel as usize % NSEL.len()];
        let kr = rp(&k.build255());
        let (r, fresh): (G::Proj, G::Proj) = if *scalar_first {
            (cr("reused ctx.scalar(k).base(P)", || w.scalar(kr).base(base))?, cr("fresh ctx.scalar(k).base(P)", || Wnaf::new().scalar(kr).base(base))?)
        } else {
            (cr("reused ctx.base(P, n).scalar(k)", || w.base(base, n).scalar(kr))?, cr("fresh ctx.base(P, n).scalar(k)", || Wnaf::new().base(base, n).scalar(kr))?)
        };
        let (mut a, mut b) = (vec![], vec![]);
        G::put_proj(&mut a, &r);
        G::put_proj(&mut b, &fresh);
        if a != b {
            return Err(format!(
                "step {} of a reused wNAF context ({} base, num_scalars {}, scalar {:?}, {}) returns different bits than the same call on a fresh context (dependence on call history)",
                i,
                if *first { "first" } else { "second" },
                n,
                k,
                if *scalar_first { "scalar staged first" } else { "base staged first" }
            ));
        }
        out.extend_from_slice(&a);
    }
    Ok(())
}

fn msm_op<G: Raw + HasPool>(v: &[(PointR, ScalarR)], out: &mut Vec<u8>) -> Result<(), String>
where
    G::F: refmodel::fld::SqrtFld,
{
    let bases: Vec<G::Aff> = v.iter().map(|(p, _)| aff_c::<G>(&p.build::<G>())).collect();
    let sc: Vec<[u64; 4]> = v.iter().map(|(_, k)| scalar_limbs(&k.build255())).collect();
    let refs: Vec<&[u64; 4]> = sc.iter().collect();
    let r = cr("sum_of_products", || G::Aff::sum_of_products(&bases, &refs))?;
    G::put_proj(out, &r);
    Ok(())
}

fn exec<'a>(op: &WOp, sh: &Shared<'a>, lo: &mut Local<'a>) -> Result<Vec<u8>, String> {
    let mut out = vec![];
    match op {
        WOp::Fq2Arith(a, b) => {
            let (a, b) = (fq2_c(&a.build()), fq2_c(&b.build()));
            let mut t = a;
            cr("mul", || t.mul_assign(&b))?;
            put_fq2(&mut out, &t);
            let mut t = a;
            cr("square", || t.square())?;
            put_fq2(&mut out, &t);
            if let Some(i) = cr("inverse", || a.inverse())? {
                put_fq2(&mut out, &i);
            }
            let mut t = a;
            cr("frobenius", || t.frobenius_map(1))?;
            put_fq2(&mut out, &t);
            put_fq(&mut out, &a.norm());
        }
        WOp::Fq12Arith(a, b) => {
            let (a, b) = (fq12_c_tower(&a.tower(12)), fq12_c_tower(&b.tower(12)));
            let mut t = a;
            cr("mul", || t.mul_assign(&b))?;
            put_fq12(&mut out, &t);
            if let Some(i) = cr("inverse", || a.inverse())? {
                put_fq12(&mut out, &i);
            }
            let mut t = a;
            cr("frobenius", || t.frobenius_map(5))?;
            put_fq12(&mut out, &t);
            if let Some(e) = cr("final_exponentiation", || Bls12::final_exponentiation(&a))? {
                put_fq12(&mut out, &e);
            }
        }
        WOp::Sqrt(a) => {
            let a = fq2_c(&a.build());
            match cr("sqrt", || a.sqrt())? {
                Some(r) => put_fq2(&mut out, &r),
                None => out.push(0xff),
            }
            match cr("sqrt", || a.c0.sqrt())? {
                Some(r) => put_fq(&mut out, &r),
                None => out.push(0xfe),
            }
        }
        WOp::Group(g, p, q) => {
            if *g == 0 {
                group_ops::<G1m>(p, q, &mut out)?
            } else {
                group_ops::<G2m>(p, q, &mut out)?
            }
        }
        WOp::Mul(g, p, k, path) => {
            if *g == 0 {
                mul_op::<G1m>(p, k, *path, &mut out)?
            } else {
                mul_op::<G2m>(p, k, *path, &mut out)?
            }
        }
        WOp::SharedWnaf(k) => {
            let kz = k.build255();
            if let Some(h) = lo.h1.as_mut() {
                let r: crt::G1 = cr("shared wnaf handle", || h.scalar(rp(&kz)))?;
                G1m::put_proj(&mut out, &r);
            }
            if let Some(h) = lo.h2.as_mut() {
                let r: crt::G2 = cr("shared wnaf handle", || h.scalar(rp(&kz)))?;
                G2m::put_proj(&mut out, &r);
            }
        }
        WOp::OwnWnaf(g, p, ks) => {
            if *g == 0 {
                own_wnaf::<G1m>(p, ks, &mut out)?
            } else {
                own_wnaf::<G2m>(p, ks, &mut out)?
            }
        }
        WOp::CtxHistory(g, p, q, st) => {
            if *g == 0 {
                ctx_history::<G1m>(p, q, st, &mut out)?
            } else {
                ctx_history::<G2m>(p, q, st, &mut out)?
            }
        }
        WOp::Msm(g, v) => {
            if *g == 0 {
                msm_op::<G1m>(v, &mut out)?
            } else {
                msm_op::<G2m>(v, &mut out)?
            }
        }
        WOp::SharedPairing(i, j) => {
            let p2 = aff_c::<G1m>(&G1m::pool().sub[*i as usize % POOL_SUB].1).prepare();
            let q2 = aff_c::<G2m>(&G2m::pool().sub[*j as usize % POOL_SUB].1).prepare();
            let f = cr("miller_loop", || Bls12::miller_loop([(sh.p_prep, sh.q_prep), (&p2, &q2), (sh.p_prep, &q2)].iter()))?;
            put_fq12(&mut out, &f);
            if let Some(e) = cr("final_exponentiation", || Bls12::final_exponentiation(&f))? {
                put_fq12(&mut out, &e);
            }
        }
        WOp::Pairing(i, j) => {
            let p = aff_c::<G1m>(&G1m::pool().sub[*i as usize % POOL_SUB].1);
            let q = aff_c::<G2m>(&G2m::pool().sub[*j as usize % POOL_SUB].1);
            let e = cr("pairing", || Bls12::pairing(p, q))?;
            put_fq12(&mut out, &e);
        }
        WOp::Rejected(kind, g) => {
            let panicked = if *kind % 2 == 0 {
                let k1 = [u64::MAX, 7, 9, 0x4000_0000_0000_0001];
                let k2 = [3, 0, 0, 0x8000_0000_0000_0000];
                if *g % 2 == 0 {
                    let b = vec![aff_c::<G1m>(&G1m::gen()); 3];
                    crate::engine::cr_panics(|| G1m::op_sum_of_products(&b, &[&k1, &k1, &k2]))
                } else {
                    let b = vec![aff_c::<G2m>(&G2m::gen()); 3];
                    crate::engine::cr_panics(|| G2m::op_sum_of_products(&b, &[&k1, &k1, &k2]))
                }
            } else {
                crate::engine::cr_panics(|| super::c13::crate_expand(refmodel::h2c::Expander::XmdSha256, b"m", b"d", 9000))
            };
            out.push(0xee);
            let _ = panicked; // not compared: the outcome of an out-of-domain call is unspecified
        }
        WOp::PairGen(np, nq) => {
            let p = if *np { PointR::Neg(Box::new(PointR::Gen)) } else { PointR::Gen };
            let q = if *nq { PointR::Neg(Box::new(PointR::Gen)) } else { PointR::Gen };
            let e = cr("pairing", || Bls12::pairing(aff_c::<G1m>(&p.build::<G1m>()), aff_c::<G2m>(&q.build::<G2m>())))?;
            put_fq12(&mut out, &e);
        }
        WOp::DecodeGen(g, neg, compressed) => {
            let p = if *neg { PointR::Neg(Box::new(PointR::Gen)) } else { PointR::Gen };
            if *g == 0 {
                let bytes = refmodel::enc::encode(&p.build::<G1m>(), *compressed);
                let a = G1m::decode_bytes(*compressed, &bytes, true)?.map_err(|e| format!("decoding +-generator failed: {:?}", e))?;
                G1m::put_aff(&mut out, &a);
            } else {
                let bytes = refmodel::enc::encode(&p.build::<G2m>(), *compressed);
                let a = G2m::decode_bytes(*compressed, &bytes, true)?.map_err(|e| format!("decoding +-generator failed: {:?}", e))?;
                G2m::put_aff(&mut out, &a);
            }
        }
        WOp::Hash(g, ro, e, m, d) => {
            let (m, d) = (m.build(), d.build());
            if *g == 0 {
                let r = cr("hash", || G1m::hash(expander_of(*e), *ro, &m, &d))?;
                G1m::put_proj(&mut out, &r);
            } else {
                let r = cr("hash", || G2m::hash(expander_of(*e), *ro, &m, &d))?;
                G2m::put_proj(&mut out, &r);
            }
        }
        WOp::Ser(g, p, c) => {
            if *g == 0 {
                let v = proj_c::<G1m>(&p.build::<G1m>());
                let b = cr("serialize", || G1m::ser(&v, *c))?.map_err(|e| e.to_string())?;
                let back = cr("deserialize", || G1m::deser(&b, *c))?.map_err(|e| e.to_string())?;
                out.extend_from_slice(&b);
                G1m::put_proj(&mut out, &back);
            } else {
                let v = proj_c::<G2m>(&p.build::<G2m>());
                let b = cr("serialize", || G2m::ser(&v, *c))?.map_err(|e| e.to_string())?;
                let back = cr("deserialize", || G2m::deser(&b, *c))?.map_err(|e| e.to_string())?;
                out.extend_from_slice(&b);
                G2m::put_proj(&mut out, &back);
            }
        }
    }
    Ok(out)
}

const NSEL: [usize; 8] = [0, 1, 2, 4, 8, 21, 44, 130];

fn check_workload(w: &Workload, info: &mut Info) -> Result<(), String> {
    // make sure the lazily built pools of the harness exist before threads start (harness state, not crate state)
    let _ = (G1m::pool(), G2m::pool());
    // shared state: a wNAF window table staged once through the public API, and one prepared pair
    let n = NSEL[w.shared_n as usize % NSEL.len()];
    let mut ctx1 = Wnaf::<(), Vec<crt::G1>, Vec<i64>>::new();
    let mut ctx2 = Wnaf::<(), Vec<crt::G2>, Vec<i64>>::new();
    let base1 = proj_c::<G1m>(&w.shared_base.build::<G1m>());
    let base2 = proj_c::<G2m>(&w.shared_base.build::<G2m>());
    let wb1 = if w.shared_group == 0 { Some(cr("Wnaf::base", || ctx1.base(base1, n))?) } else { None };
    let wb2 = if w.shared_group == 1 { Some(cr("Wnaf::base", || ctx2.base(base2, n))?) } else { None };
    let p_prep = aff_c::<G1m>(&G1m::pool().sub[w.shared_pair.0 as usize % POOL_SUB].1).prepare();
    let q_prep = aff_c::<G2m>(&G2m::pool().sub[w.shared_pair.1 as usize % POOL_SUB].1).prepare();
    let sh = Shared { wb1: wb1.as_ref(), wb2: wb2.as_ref(), p_prep: &p_prep, q_prep: &q_prep };

    // (a) sequential reference run
    let mut seq = vec![];
    let mut lo = Local::new(&sh);
    for op in &w.ops {
        seq.push(exec(op, &sh, &mut lo)?);
    }
    // (b) second sequential run: reverse order, unrelated prefixes interleaved
    let mut lo = Local::new(&sh);
    for (i, op) in w.ops.iter().enumerate().rev() {
        for pre in w.prefixes.get(i % w.prefixes.len().max(1)).into_iter().flatten() {
            let _ = exec(pre, &sh, &mut lo)?;
        }
        let again = exec(op, &sh, &mut lo)?;
        if again != seq[i] {
            return Err(format!("operation #{} ({:?}) gives a different result when evaluated again in another order / after other calls", i, op));
        }
    }
    // (c) concurrent runs
    let t = std::cmp::max(2, w.threads as usize);
    let assign: Vec<usize> = (0..w.ops.len()).map(|i| w.assignment.get(i).copied().unwrap_or(i as u8) as usize % t).collect();
    let mut per_thread: Vec<Vec<usize>> = vec![vec![]; t];
    for (i, a) in assign.iter().enumerate() {
        per_thread[*a].push(i);
    }
    let sharing_threads = per_thread.iter().filter(|ops| ops.iter().any(|i| matches!(w.ops[*i], WOp::SharedWnaf(_) | WOp::SharedPairing(_, _)))).count();
    let busy_threads = per_thread.iter().filter(|ops| !ops.is_empty()).count();
    info.class(format!("threads={}", t));
    info.class(format!("threads-on-shared-state={}", std::cmp::min(sharing_threads, 4)));
    info.nt_if(sharing_threads >= 2);
    if busy_threads >= 2 {
        info.class("overlapping-threads");
    }
    for rep in 0..std::cmp::max(1, w.reps) {
        let barrier = Barrier::new(t);
        let results: Vec<Result<Vec<(usize, Vec<u8>)>, String>> = std::thread::scope(|s| {
            let hs: Vec<_> = (0..t)
                .map(|ti| {
                    let sh = &sh;
                    let barrier = &barrier;
                    let mine = &per_thread[ti];
                    let prefix = w.prefixes.get(ti % w.prefixes.len().max(1));
                    let ops = &w.ops;
                    s.spawn(move || {
                        crate::engine::install_panic_hook();
                        let mut lo = Local::new(sh);
                        barrier.wait();
                        let mut out = vec![];
                        for pre in prefix.into_iter().flatten() {
                            let _ = exec(pre, sh, &mut lo)?;
                        }
                        for i in mine {
                            out.push((*i, exec(&ops[*i], sh, &mut lo)?));
                        }
                        Ok(out)
                    })
                })
                .collect();
            hs.into_iter().map(|h| h.join().unwrap_or_else(|_| Err("worker thread panicked outside a crate call".to_string()))).collect()
        });
        for r in results {
            for (i, bytes) in r? {
                if bytes != seq[i] {
                    return Err(format!("repetition {}: operation #{} ({:?}) returned different bits when run concurrently on {} threads than sequentially", rep, i, w.ops[i], t));
                }
            }
        }
    }
    Ok(())
}

// ---- fresh processes: results must not depend on which call happened first in the process ---------------
// (a lazily initialised process-wide table that captures its first caller's argument is invisible inside
//  one long-lived process)

#[derive(Clone, Debug, Serialize, Deserialize, PartialEq, Eq, Hash)]
pub struct ProcCase {
    pub ops: Vec<WOp>,
    /// second order: rotation of the op list (the first order is the list as given)
    pub rotate: u8,
    pub reverse: bool,
}

/// operations that need no point pool (generator-derived points only), so that a child starts in milliseconds
fn lite_op() -> BoxedStrategy<WOp> {
    let gp = || prop_oneof![3 => Just(PointR::Gen), 3 => Just(PointR::Neg(Box::new(PointR::Gen))), 1 => Just(PointR::Identity)];
    prop_oneof![
        6 => (0u8..2, gp(), scalar_strategy(), 0u8..5).prop_map(|(g, p, k, path)| WOp::Mul(g, p, k, path)),
        3 => (0u8..2, any::<bool>(), any::<bool>()).prop_map(|(g, n, c)| WOp::DecodeGen(g, n, c)),
        2 => (0u8..2, gp(), any::<bool>()).prop_map(|(g, p, c)| WOp::Ser(g, p, c)),
        2 => (0u8..2, gp(), gp()).prop_map(|(g, p, q)| WOp::Group(g, p, q)),
        2 => (any::<bool>(), any::<bool>()).prop_map(|(a, b)| WOp::PairGen(a, b)),
        2 => (0u8..2, any::<bool>(), 0u8..4, msg_strategy(), dst_strategy()).prop_map(|(g, ro, e, m, d)| WOp::Hash(g, ro, e, m, d)),
        1 => (0u8..2, gp(), proptest::collection::vec(scalar_strategy(), 1..3)).prop_map(|(g, p, ks)| WOp::OwnWnaf(g, p, ks)),
        1 => (0u8..2, proptest::collection::vec((gp(), scalar_strategy()), 0..4)).prop_map(|(g, v)| WOp::Msm(g, v)),
        1 => (fq2_strategy(), fq2_strategy()).prop_map(|(a, b)| WOp::Fq2Arith(a, b)),
        1 => fq2_strategy().prop_map(WOp::Sqrt),
        1 => (0u8..2, 0u8..2).prop_map(|(k, g)| WOp::Rejected(k, g)),
    ]
    .boxed()
}

fn proc_strategy() -> BoxedStrategy<ProcCase> {
    (proptest::collection::vec(lite_op(), 2..6), any::<u8>(), any::<bool>()).prop_map(|(ops, rotate, reverse)| ProcCase { ops, rotate, reverse }).boxed()
}

/// executed in a FRESH process (`verif-pbt child-exec`, request on stdin): runs the operations in the
/// requested order and prints their raw result bytes
pub fn child_exec(request: &str) -> Result<String, String> {
    let v: serde_json::Value = serde_json::from_str(request).map_err(|e| e.to_string())?;
    let ops: Vec<WOp> = serde_json::from_value(v["ops"].clone()).map_err(|e| e.to_string())?;
    let order: Vec<usize> = serde_json::from_value(v["order"].clone()).map_err(|e| e.to_string())?;
    let threads = v["threads"].as_u64().unwrap_or(0) as usize;
    if threads > 0 {
        return child_exec_cold(&ops, threads, v["stagger"].as_bool().unwrap_or(false));
    }
    let p_prep = aff_c::<G1m>(&G1m::gen()).prepare();
    let q_prep = aff_c::<G2m>(&G2m::gen()).prepare();
    // note: preparing the generators is itself library work that precedes the operations; it is the same
    // in every child, and the parent comparison (different preceding work) covers the other direction
    let sh = Shared { wb1: None, wb2: None, p_prep: &p_prep, q_prep: &q_prep };
    let mut lo = Local::new(&sh);
    let mut out = serde_json::Map::new();
    for i in order {
        let bytes = exec(&ops[i], &sh, &mut lo)?;
        out.insert(i.to_string(), serde_json::Value::String(bytes.iter().map(|b| format!("{:02x}", b)).collect()));
    }
    Ok(serde_json::Value::Object(out).to_string())
}

/// cold start: the FIRST library work of the process is done by `t` barrier-released threads at once (each runs
/// the whole list, all in the same order or staggered by the thread index); prints {"<thread>": {"<op>": hex}}
fn child_exec_cold(ops: &[WOp], t: usize, stagger: bool) -> Result<String, String> {
    let barrier = std::sync::Barrier::new(t);
    let results: Vec<Result<Vec<(usize, Vec<u8>)>, String>> = std::thread::scope(|s| {
        let hs: Vec<_> = (0..t)
            .map(|ti| {
                let barrier = &barrier;
                s.spawn(move || {
                    // model-side values first (no crate code), then the barrier, then crate work only
                    let (g1, g2) = (G1m::gen(), G2m::gen());
                    barrier.wait();
                    let p_prep = aff_c::<G1m>(&g1).prepare();
                    let q_prep = aff_c::<G2m>(&g2).prepare();
                    let sh = Shared { wb1: None, wb2: None, p_prep: &p_prep, q_prep: &q_prep };
                    let mut lo = Local::new(&sh);
                    let n = ops.len();
                    let mut r = vec![];
                    for j in 0..n {
                        let i = if stagger { (j + ti) % n } else { j };
                        r.push((i, exec(&ops[i], &sh, &mut lo).map_err(|e| format!("thread {} operation #{}: {}", ti, i, e))?));
                    }
                    Ok(r)
                })
            })
            .collect();
        hs.into_iter().map(|h| h.join().unwrap_or_else(|_| Err("worker thread panicked outside a crate call".to_string()))).collect()
    });
    let mut out = serde_json::Map::new();
    for (ti, r) in results.into_iter().enumerate() {
        let mut m = serde_json::Map::new();
        for (i, bytes) in r? {
            m.insert(i.to_string(), serde_json::Value::String(bytes.iter().map(|b| format!("{:02x}", b)).collect()));
        }
        out.insert(ti.to_string(), serde_json::Value::Object(m));
    }
    Ok(serde_json::Value::Object(out).to_string())
}

#[derive(Clone, Debug, Serialize, Deserialize, PartialEq, Eq, Hash)]
pub struct ColdCase {
    pub ops: Vec<WOp>,
    pub threads: u8,
    pub stagger: bool,
}

fn cold_strategy() -> BoxedStrategy<ColdCase> {
    // half of the operations are generator multiplications (the classic owner of a lazily built fixed-base table),
    // through every path; most cases use many threads
    let gp = || prop_oneof![3 => Just(PointR::Gen), 1 => Just(PointR::Neg(Box::new(PointR::Gen)))];
    let op = prop_oneof![
        1 => lite_op(),
        1 => (0u8..2, gp(), scalar_strategy(), 0u8..5).prop_map(|(g, p, k, path)| WOp::Mul(g, p, k, path)),
    ];
    (proptest::collection::vec(op, 1..4), prop_oneof![1 => 2u8..8, 3 => 8u8..17], prop_oneof![3 => Just(false), 1 => Just(true)])
        .prop_map(|(ops, threads, stagger)| ColdCase { ops, threads, stagger })
        .boxed()
}

fn check_cold(c: &ColdCase, info: &mut Info) -> Result<(), String> {
    use std::io::Write;
    // sequential in-process reference (this process is warm: whatever is lazily built exists already)
    let p_prep = aff_c::<G1m>(&G1m::gen()).prepare();
    let q_prep = aff_c::<G2m>(&G2m::gen()).prepare();
    let sh = Shared { wb1: None, wb2: None, p_prep: &p_prep, q_prep: &q_prep };
    let mut lo = Local::new(&sh);
    let mut reference = vec![];
    for op in &c.ops {
        let b = exec(op, &sh, &mut lo)?;
        reference.push(b.iter().map(|x| format!("{:02x}", x)).collect::<String>());
    }
    let exe = std::env::current_exe().map_err(|e| format!("harness: current_exe: {}", e))?;
    let mut child = std::process::Command::new(exe)
        .arg("child-exec")
        .stdin(std::process::Stdio::piped())
        .stdout(std::process::Stdio::piped())
        .stderr(std::process::Stdio::null())
        .spawn()
        .map_err(|e| format!("harness: cannot spawn child: {}", e))?;
    let req = serde_json::json!({"ops": c.ops, "order": [], "threads": c.threads, "stagger": c.stagger}).to_string();
    child.stdin.take().unwrap().write_all(req.as_bytes()).map_err(|e| format!("harness: child stdin: {}", e))?;
    let outp = child.wait_with_output().map_err(|e| format!("harness: child wait: {}", e))?;
    let text = String::from_utf8_lossy(&outp.stdout).to_string();
    if !outp.status.success() {
        return Err(format!("in a fresh process whose first library work is done by {} threads at once: {}", c.threads, text.trim()));
    }
    let v: serde_json::Value = serde_json::from_str(text.trim()).map_err(|e| format!("harness: child output: {} ({})", e, text))?;
    let per_thread = v.as_object().ok_or("harness: child output not an object")?;
    if per_thread.len() != c.threads as usize {
        return Err(format!("harness: child reported {} threads, expected {}", per_thread.len(), c.threads));
    }
    for (ti, m) in per_thread {
        for (k, val) in m.as_object().ok_or("harness: child thread output not an object")? {
            let i = k.parse::<usize>().map_err(|e| format!("harness: child output key: {}", e))?;
            if val.as_str().unwrap_or("") != reference[i] {
                return Err(format!(
                    "operation #{} ({:?}) returns different bits on thread {} of a fresh process whose first library work is done by {} threads at once than sequentially in the long-lived checking process",
                    i, c.ops[i], ti, c.threads
                ));
            }
        }
    }
    if c.ops.iter().any(|o| matches!(o, WOp::Mul(_, PointR::Gen, _, _))) {
        info.class("generator-multiplication-at-cold-start");
    }
    if let Some(WOp::Mul(_, PointR::Gen, _, path)) = c.ops.first() {
        info.class(format!("first-op-generator-multiplication-path{}", path % 5));
    }
    info.class(format!("threads={}", if c.threads >= 8 { ">=8" } else { "<8" }));
    info.class(format!("ops={} stagger={}", c.ops.len(), c.stagger));
    info.nt();
    Ok(())
}

fn run_child(ops: &[WOp], order: &[usize]) -> Result<Vec<(usize, String)>, String> {
    use std::io::Write;
    let exe = std::env::current_exe().map_err(|e| format!("harness: current_exe: {}", e))?;
    let mut child = std::process::Command::new(exe)
        .arg("child-exec")
        .stdin(std::process::Stdio::piped())
        .stdout(std::process::Stdio::piped())
        .stderr(std::process::Stdio::null())
        .spawn()
        .map_err(|e| format!("harness: cannot spawn child: {}", e))?;
    let req = serde_json::json!({"ops": ops, "order": order}).to_string();
    child.stdin.take().unwrap().write_all(req.as_bytes()).map_err(|e| format!("harness: child stdin: {}", e))?;
    let outp = child.wait_with_output().map_err(|e| format!("harness: child wait: {}", e))?;
    let text = String::from_utf8_lossy(&outp.stdout).to_string();
    if !outp.status.success() {
        // the child reports a crate panic / failed operation as a message
        return Err(format!("in a fresh process with order {:?}: {}", order, text.trim()));
    }
    let v: serde_json::Value = serde_json::from_str(text.trim()).map_err(|e| format!("harness: child output: {} ({})", e, text))?;
    let mut res = vec![];
    for (k, val) in v.as_object().ok_or("harness: child output not an object")? {
        res.push((k.parse::<usize>().unwrap_or(0), val.as_str().unwrap_or("").to_string()));
    }
    Ok(res)
}

fn check_proc(c: &ProcCase, info: &mut Info) -> Result<(), String> {
    let n = c.ops.len();
    let first: Vec<usize> = (0..n).collect();
    let mut second: Vec<usize> = (0..n).map(|i| (i + 1 + c.rotate as usize % (n - 1).max(1)) % n).collect();
    if c.reverse {
        second.reverse();
    }
    if second == first {
        second.reverse();
    }
    // in-process reference (after whatever this long-lived process has done before)
    let p_prep = aff_c::<G1m>(&G1m::gen()).prepare();
    let q_prep = aff_c::<G2m>(&G2m::gen()).prepare();
    let sh = Shared { wb1: None, wb2: None, p_prep: &p_prep, q_prep: &q_prep };
    let mut lo = Local::new(&sh);
    let mut reference = vec![];
    for op in &c.ops {
        let b = exec(op, &sh, &mut lo)?;
        reference.push(b.iter().map(|x| format!("{:02x}", x)).collect::<String>());
    }
    for order in [&first, &second] {
        for (i, hexs) in run_child(&c.ops, order)? {
            if hexs != reference[i] {
                return Err(format!(
                    "operation #{} ({:?}) returns different bits in a fresh process that executes the operations in the order {:?} than in the long-lived checking process (dependence on which call came first)",
                    i, c.ops[i], order
                ));
            }
        }
    }
    if c.ops.iter().any(|o| matches!(o, WOp::Mul(_, PointR::Neg(_), _, _) | WOp::DecodeGen(_, true, _))) {
        info.class("negated-generator-involved");
    }
    info.class(format!("ops={}", n));
    info.nt();
    Ok(())
}

// ---- bursts: many threads hammering a small set of operations in tight loops -------------------------
// (the shape that exposes check-then-use races on process-wide caches: narrow windows need density)

#[derive(Clone, Debug, Serialize, Deserialize, PartialEq, Eq, Hash)]
pub enum BOp {
    /// G2Affine::prepare() of a pool point: fingerprint of the prepared element
    PrepareG2(u8),
    /// a dense run of prepare() calls over at most three shared G2 points (indices 0..3), each result
    /// compared with that point's sequential fingerprint
    PrepareRun(Vec<u8>),
    PrepareG1(u8),
    Any(WOp),
}

#[derive(Clone, Debug, Serialize, Deserialize, PartialEq, Eq, Hash)]
pub struct Burst {
    pub ops: Vec<BOp>,
    pub threads: u8,
    pub reps: u8,
    pub offsets: Vec<u8>,
}

fn burst_strategy() -> BoxedStrategy<Burst> {
    let cheap = prop_oneof![
        3 => (0u8..4).prop_map(BOp::PrepareG2),
        5 => proptest::collection::vec(0u8..3, 8..40).prop_map(BOp::PrepareRun),
        1 => (0u8..4).prop_map(BOp::PrepareG1),
        2 => (0u8..3, 0u8..3).prop_map(|(i, j)| BOp::Any(WOp::Pairing(i, j))),
        2 => (0u8..2, point_strategy(false), scalar_strategy(), 0u8..5).prop_map(|(g, p, k, path)| BOp::Any(WOp::Mul(g, p, k, path))),
        1 => (0u8..2, any::<bool>(), 0u8..4, msg_strategy(), dst_strategy()).prop_map(|(g, ro, e, m, d)| BOp::Any(WOp::Hash(g, ro, e, m, d))),
        1 => (fq2_strategy(), fq2_strategy()).prop_map(|(a, b)| BOp::Any(WOp::Fq2Arith(a, b))),
        1 => fq2_strategy().prop_map(|a| BOp::Any(WOp::Sqrt(a))),
        1 => (0u8..2, point_strategy(true), point_strategy(true)).prop_map(|(g, p, q)| BOp::Any(WOp::Group(g, p, q))),
    ];
    (proptest::collection::vec(cheap, 2..5), 4u8..=16, 24u8..=96, proptest::collection::vec(any::<u8>(), 16)).prop_map(|(ops, threads, reps, offsets)| Burst { ops, threads, reps, offsets }).boxed()
}

fn exec_b<'a>(op: &BOp, sh: &Shared<'a>, lo: &mut Local<'a>) -> Result<Vec<u8>, String> {
    match op {
        BOp::PrepareG2(j) => {
            let q = aff_c::<G2m>(&G2m::pool().sub[*j as usize % POOL_SUB].1);
            let p = cr("G2Affine::prepare", || q.prepare())?;
            Ok(format!("{:?}", p).into_bytes())
        }
        BOp::PrepareRun(seq) => {
            // reference fingerprints of the (at most three) points, computed by this same call pattern
            // on first use per thread would hide a race; they are computed from fresh single calls here
            let mut out = vec![];
            for j in seq {
                let q = aff_c::<G2m>(&G2m::pool().sub[*j as usize % 3].1);
                let p = cr("G2Affine::prepare", || q.prepare())?;
                // fold the fingerprint into a short digest to keep the loop dense
                let f = format!("{:?}", p);
                let mut h = std::collections::hash_map::DefaultHasher::new();
                std::hash::Hash::hash(&f, &mut h);
                out.extend_from_slice(&std::hash::Hasher::finish(&h).to_le_bytes());
            }
            Ok(out)
        }
        BOp::PrepareG1(i) => {
            let q = aff_c::<G1m>(&G1m::pool().sub[*i as usize % POOL_SUB].1);
            let p = cr("G1Affine::prepare", || q.prepare())?;
            Ok(format!("{:?}", p).into_bytes())
        }
        BOp::Any(w) => exec(w, sh, lo),
    }
}

fn check_burst(b: &Burst, info: &mut Info) -> Result<(), String> {
    let _ = (G1m::pool(), G2m::pool());
    let p_prep = aff_c::<G1m>(&G1m::pool().sub[0].1).prepare();
    let q_prep = aff_c::<G2m>(&G2m::pool().sub[0].1).prepare();
    let sh = Shared { wb1: None, wb2: None, p_prep: &p_prep, q_prep: &q_prep };
    let mut lo = Local::new(&sh);
    let mut reference = vec![];
    for op in &b.ops {
        reference.push(exec_b(op, &sh, &mut lo)?);
    }
    let t = std::cmp::max(2, b.threads as usize);
    let n = b.ops.len();
    let prepares = b.ops.iter().filter(|o| matches!(o, BOp::PrepareG2(_) | BOp::PrepareG1(_) | BOp::PrepareRun(_))).count();
    info.class(format!("threads={}", t));
    info.class(format!("prepare-ops={}", prepares));
    info.nt_if(n >= 2);
    let barrier = Barrier::new(t);
    let results: Vec<Result<(), String>> = std::thread::scope(|s| {
        let hs: Vec<_> = (0..t)
            .map(|ti| {
                let (sh, barrier, reference, ops) = (&sh, &barrier, &reference, &b.ops);
                let off = b.offsets.get(ti % b.offsets.len().max(1)).copied().unwrap_or(0) as usize;
                let reps = b.reps as usize;
                s.spawn(move || {
                    crate::engine::install_panic_hook();
                    let mut lo = Local::new(sh);
                    barrier.wait();
                    for rep in 0..reps {
                        for k in 0..n {
                            let i = (k + off) % n;
                            let got = exec_b(&ops[i], sh, &mut lo)?;
                            if got != reference[i] {
                                return Err(format!("thread {} repetition {}: operation #{} ({:?}) returned different bits than the sequential reference while {} threads were running", ti, rep, i, ops[i], t));
                            }
                        }
                    }
                    Ok(())
                })
            })
            .collect();
        hs.into_iter().map(|h| h.join().unwrap_or_else(|_| Err("worker thread panicked outside a crate call".to_string()))).collect()
    });
    for r in results {
        r?;
    }
    Ok(())
}

// ---- long histories on one thread ------------------------------------------------------------------
//
// N DISTINCT arguments go through one operation on one thread (a long-lived worker); the first K and a sample of
// the others are then evaluated again: the bits must be those of the first evaluation. A bounded cache, memo
// table or pool that misbehaves once it is full / flushed / wrapped needs exactly this; N exceeds the
// power-of-two capacities up to 2048 in the quick tier and up to 65536 (cheap operations) in the thorough tier.

const LONG_KINDS: [&str; 8] = ["pairing:distinct-G2", "pairing:distinct-G1", "decode:G1-compressed", "decode:G2-compressed", "in_subgroup:G2", "hash_to_curve:G1", "wnaf-mul:distinct-bases", "prepare+miller:distinct-G2"];

fn long_eval(kind: usize, i: usize, p1: &[crt::G1Affine], p2: &[crt::G2Affine]) -> Result<Vec<u8>, String> {
    let mut out = vec![];
    let a1 = p1[i % p1.len()];
    let a2 = p2[i % p2.len()];
    match kind {
        0 => put_fq12(&mut out, &cr("pairing", || Bls12::pairing(p1[0], a2))?),
        1 => put_fq12(&mut out, &cr("pairing", || Bls12::pairing(a1, p2[0]))?),
        2 => {
            let b = cr("into_compressed", || a1.into_compressed())?;
            let r = G1m::decode_bytes(true, b.as_ref(), true)?.map_err(|e| format!("decoding a subgroup point failed: {:?}", e))?;
            G1m::put_aff(&mut out, &r);
        }
        3 => {
            let b = cr("into_compressed", || a2.into_compressed())?;
            let r = G2m::decode_bytes(true, b.as_ref(), true)?.map_err(|e| format!("decoding a subgroup point failed: {:?}", e))?;
            G2m::put_aff(&mut out, &r);
        }
        4 => out.push(cr("in_subgroup", || G2m::op_in_subgroup(&a2))? as u8),
        5 => {
            let m = (i as u64).to_le_bytes();
            G1m::put_proj(&mut out, &cr("hash", || G1m::hash(refmodel::h2c::Expander::XmdSha256, true, &m, b"LONG-HISTORY"))?);
        }
        6 => {
            let k = rp(&Z::from(0x1234_5678_9abc_def1u64 + i as u64));
            G1m::put_proj(&mut out, &cr("wnaf", || Wnaf::new().scalar(k).base(a1.into_projective()))?);
        }
        _ => {
            let f = cr("miller_loop", || Bls12::miller_loop([(&p1[0].prepare(), &a2.prepare())].iter()))?;
            put_fq12(&mut out, &f);
        }
    }
    Ok(out)
}

fn long_case(kind: usize, n: usize, seed: u64) -> Result<(), String> {
    // distinct arguments: X_i = X_0 + i * generator, built incrementally by the crate and normalized in one batch
    let need1 = if matches!(kind, 1 | 2 | 6) { n } else { 1 };
    let need2 = if matches!(kind, 0 | 3 | 4 | 7) { n } else { 1 };
    let s1 = proj_c::<G1m>(&G1m::pool().sub[seed as usize % POOL_SUB].1);
    let s2 = proj_c::<G2m>(&G2m::pool().sub[(seed / 7) as usize % POOL_SUB].1);
    let g1 = aff_c::<G1m>(&G1m::gen());
    let g2 = aff_c::<G2m>(&G2m::gen());
    let mut v1 = Vec::with_capacity(need1);
    let mut t = s1;
    for _ in 0..need1 {
        v1.push(t);
        t.add_assign_mixed(&g1);
    }
    crt::G1::batch_normalization(&mut v1);
    let p1: Vec<crt::G1Affine> = v1.iter().map(|p| p.into_affine()).collect();
    let mut v2 = Vec::with_capacity(need2);
    let mut t = s2;
    for _ in 0..need2 {
        v2.push(t);
        t.add_assign_mixed(&g2);
    }
    crt::G2::batch_normalization(&mut v2);
    let p2: Vec<crt::G2Affine> = v2.iter().map(|p| p.into_affine()).collect();
    // one worker thread does everything
    let res: Result<(), String> = std::thread::scope(|sc| {
        sc.spawn(|| {
            let keep = 24usize;
            let stride = std::cmp::max(1, n / 40);
            let mut first: std::collections::BTreeMap<usize, Vec<u8>> = Default::default();
            for i in 0..n {
                let r = long_eval(kind, i, &p1, &p2)?;
                if i < keep || i % stride == 0 || i + keep >= n {
                    first.insert(i, r);
                }
            }
            for (i, want) in &first {
                let again = long_eval(kind, *i, &p1, &p2)?;
                if again != *want {
                    return Err(format!("{}: argument #{} evaluated again after {} distinct arguments had gone through the same thread returns different bits than its first evaluation", LONG_KINDS[kind], i, n));
                }
            }
            // and once more in reverse order (what a flush / wrap-around left behind)
            for (i, want) in first.iter().rev().take(keep) {
                let again = long_eval(kind, *i, &p1, &p2)?;
                if again != *want {
                    return Err(format!("{}: argument #{} evaluated a third time (reverse order) after {} distinct arguments returns different bits", LONG_KINDS[kind], i, n));
                }
            }
            Ok(())
        })
        .join()
        .map_err(|_| "harness: worker thread panicked".to_string())?
    });
    res
}

fn long_n(tier: crate::engine::Tier, kind: usize) -> usize {
    let expensive = matches!(kind, 0 | 1 | 7);
    match (tier, expensive) {
        (crate::engine::Tier::Quick, true) => 2_300,
        (crate::engine::Tier::Quick, false) => 4_400,
        (_, true) => 9_000,
        (_, false) => 70_000,
    }
}

fn run_long(ctx: &crate::engine::Ctx, rec: &mut dyn FnMut(serde_json::Value, Info)) -> Result<(), (String, serde_json::Value)> {
    let _ = (G1m::pool(), G2m::pool());
    let kinds: Vec<usize> = (0..LONG_KINDS.len()).collect();
    let seed = ctx.seed;
    let tier = ctx.tier;
    let res = crate::engine::par_map(ctx.threads, kinds.len(), |i| long_case(kinds[i], long_n(tier, kinds[i]), seed));
    for (i, r) in res.into_iter().enumerate() {
        let case = serde_json::json!({"kind": kinds[i], "n": long_n(tier, kinds[i]), "seed": seed});
        r.map_err(|m| (m, case.clone()))?;
        let mut info = Info::default();
        info.nt();
        info.class(format!("{}:n={}", LONG_KINDS[kinds[i]], long_n(tier, kinds[i])));
        rec(case, info);
    }
    Ok(())
}

fn replay_long(v: &serde_json::Value) -> Result<(), String> {
    long_case(v["kind"].as_u64().unwrap_or(0) as usize % LONG_KINDS.len(), v["n"].as_u64().unwrap_or(2300) as usize, v["seed"].as_u64().unwrap_or(0))
}

fn run_all_two_input_bursts(ctx: &crate::engine::Ctx, rec: &mut dyn FnMut(serde_json::Value, Info)) -> Result<(), (String, serde_json::Value)> {
    let kinds: Vec<usize> = (0..super::longhist::KINDS.len()).collect();
    super::longhist::run_bursts(ctx, rec, &kinds)
}

pub fn def() -> PropDef {
    PropDef {
        id: "C20",
        rule: "workloads of 2..13 operations drawn from the other properties' operation sets (Fq2 / Fq12 arithmetic, square roots, group operations incl. batch normalization, every scalar-multiplication path, wNAF contexts, sum_of_products, Miller loop + final exponentiation, hashing to both groups, (de)serialization, and occasional out-of-domain calls whose panic is caught), a generated assignment to 2..16 threads released by a barrier, per-thread prefixes of unrelated calls, 1..3 repetitions; all threads borrow one wNAF window table and one prepared (G1, G2) pair. Oracle: bit-identical results (raw X, Y, Z coordinates / field coefficients) between a sequential run, a second sequential run in reverse order with other prefixes, and every concurrent run; no panic; completion (watchdog). Long histories: thousands of distinct arguments through one operation on one thread, then re-evaluation. Bursts: 4..16 threads hammer 2..4 operations over a handful of shared points in tight loops. Non-trivial = at least two threads use the borrowed shared state (workloads) / at least two operations in the burst; distinct = distinct cases",
        needs_pairing: false,
        subs: vec![
            Box::new(Sub { name: "workloads", rule: "sequential == re-ordered sequential == concurrent, bit for bit", quick: 640, thorough: 6000, strategy: || boxed(workload_strategy()), check: check_workload }),
            Box::new(Sub { name: "fresh-process-orders", rule: "2..5 pool-free operations on generator-derived points (+-G multiplications through every path, decoding of +-G, serialization, group operations, pairing of +-generators, hashing, field operations) executed in two FRESH child processes in two different orders and in the long-lived checking process: every operation must return the same bits (exposes lazily initialised process-wide state that captures its first caller)", quick: 40, thorough: 1200, strategy: || boxed(proc_strategy()), check: check_proc }),
            Box::new(Sub { name: "fresh-process-cold-start", rule: "1..3 pool-free operations executed as the very FIRST library work of a fresh child process by 2..16 barrier-released threads at once (same order on every thread, or staggered): every thread's results must equal, bit for bit, the sequential results of the long-lived (warm) checking process (exposes races in the one-time initialisation of lazily built process-wide state, which no warm process can see)", quick: 240, thorough: 4000, strategy: || boxed(cold_strategy()), check: check_cold }),
            Box::new(crate::engine::EnumSub { name: "long-histories", rule: "one worker thread sends N distinct arguments (X_0 + i G) through one operation (pairing with distinct G2 / G1 arguments, checked decoding, subgroup test, hashing, wNAF multiplication, prepare + Miller loop), N = 2300 / 4400 (quick) and 9000 / 70000 (thorough), then evaluates the first 24, the last 24 and every (N/40)-th argument again, forwards and backwards: same bits as the first time (a bounded cache that misbehaves once full, flushed or wrapped)", run: run_long, replay: replay_long, exhaustive: false }),
            Box::new(crate::engine::EnumSub { name: "two-input-bursts", rule: super::longhist::BURST_RULE, run: run_all_two_input_bursts, replay: super::longhist::replay_burst, exhaustive: false }),
            Box::new(Sub { name: "bursts", rule: "4..16 barrier-released threads each repeat a list of 2..4 operations (G1/G2 prepare of a few shared points, pairings, multiplications, hashing, field and group operations) 24..96 times from different starting offsets; every single result must be bit-identical to the sequential reference (exposes check-then-use races on process-wide state, which need call density)", quick: 48, thorough: 1500, strategy: || boxed(burst_strategy()), check: check_burst }),
        ],
        assumptions: {
            let mut v = COMMON_ASSUMPTIONS.to_vec();
            v.push("the operating system schedules the threads: interleavings are sampled, not enumerated; the crate has no synchronisation points a harness could own (loom/shuttle have nothing to hook)");
            v.push("data races that do not change results on the explored executions are only visible to the ThreadSanitizer pass of the thorough tier");
            v
        },
    }
}
