//! C16 - the isogeny maps are the RFC 11- and 3-isogenies and respect the group law.

use super::{PropDef, COMMON_ASSUMPTIONS};
use crate::adapt::*;
use crate::engine::{boxed, cr, Ctx, EnumSub, Info, Sub};
use crate::recipes::*;
use pairing_plus::bls12_381 as crt;
use pairing_plus::bls12_381::verif_hooks::{iso11_tables, iso3_tables, IsogenyMap};
use proptest::prelude::*;
use refmodel::curve::{e1_iso, e2_iso, point_of_order, Curve, Pt, Words};
use refmodel::fld::{Fld, Fq, Fq2, SqrtFld, Z};
use refmodel::h2c::{self, IsoTables};
use serde::{Deserialize, Serialize};
use serde_json::{json, Value};
use std::sync::OnceLock;

pub struct IsoPool<F> {
    pub full: Vec<Pt<F>>,
    pub small_order: Vec<Vec<Pt<F>>>,
    /// G1 only: points of order 121 on E1' (cyclic 11-Sylow): [11]S is a rational kernel point
    pub order121: Vec<Pt<F>>,
    /// points of E' with structure a guard might test for: the points E' has in common with the TARGET curve
    /// (A'x + B' = b), x with A'x + B' = 0, x in {0, +-1, +-2, 3, ...} (where such points exist)
    pub structured: Vec<(String, Pt<F>)>,
}

const NFULL: usize = 24;

fn build_iso_pool<G: Grp>(curve: &Curve<G::F>, seed: u64, with121: bool) -> IsoPool<G::F>
where
    G::F: SqrtFld,
{
    let mut w = Words(seed);
    let full = (0..NFULL).map(|_| curve.point_from_words(&mut || w.next())).collect();
    let n = G::order();
    let mut small_order = vec![];
    for (l, e) in G::small_primes() {
        let mut v = vec![];
        for i in 0..3 {
            v.push(point_of_order(curve, &n, &Z::from(l), e, seed ^ (l << 9) ^ i));
        }
        small_order.push(v);
    }
    let mut order121 = vec![];
    if with121 {
        let cof = &n / Z::from(121u32);
        while order121.len() < 3 {
            let r = curve.point_from_words(&mut || w.next());
            let s = curve.mul(&cof, &r);
            if !curve.mul(&Z::from(11u32), &s).is_inf() {
                order121.push(s);
            }
        }
    }
    let mut structured = vec![];
    let tb = G::curve().b.clone();
    let ainv = curve.a.inv().unwrap();
    let mut xs: Vec<(String, G::F)> = vec![
        ("point-on-both-curves (A'x+B'=b)".to_string(), tb.sub(&curve.b).mul(&ainv)),
        ("x=-B'/A'".to_string(), curve.b.neg().mul(&ainv)),
        ("x=0".to_string(), <G::F as Fld>::zero()),
    ];
    for k in 1..=6u64 {
        xs.push((format!("x={}", k), <G::F as Fld>::from_u64(k)));
        xs.push((format!("x=-{}", k), <G::F as Fld>::from_u64(k).neg()));
    }
    for (name, x) in xs {
        if let Some(y) = curve.rhs(&x).sqrt() {
            structured.push((name.clone(), Pt::Aff(x.clone(), y.clone())));
            structured.push((name, Pt::Aff(x, y.neg())));
        }
    }
    IsoPool { full, small_order, order121, structured }
}

/// G1: abscissae at which a Horner PARTIAL SUM of one of the four map polynomials vanishes (roots of the polynomial
/// formed by its top j+1 coefficients; j = degree gives the roots of the whole polynomial, i.e. image x = 0 / y = 0 for
/// the numerators). Computed once by `verif-pbt gen-iso-roots` (model root finding over Fq) and kept in
/// corpus/iso-truncation-roots.json; every entry is re-verified here by evaluating the truncation.
pub fn g1_truncation_points() -> Vec<(String, Pt<Fq>)> {
    let path = crate::props::corpus_dir("").join("iso-truncation-roots.json");
    let mut out = vec![];
    let t = h2c::iso11_tables();
    let tabs = [("xnum", &t.xnum), ("xden", &t.xden), ("ynum", &t.ynum), ("yden", &t.yden)];
    if let Ok(text) = std::fs::read_to_string(&path) {
        if let Ok(serde_json::Value::Array(a)) = serde_json::from_str::<serde_json::Value>(&text) {
            let c = e1_iso();
            for e in a {
                let (tab, j, xh) = (e["table"].as_str().unwrap_or(""), e["top_coefficients"].as_u64().unwrap_or(0) as usize, e["x"].as_str().unwrap_or("0"));
                let x = Fq::from_hex(xh);
                if let Some((_, cs)) = tabs.iter().find(|(n, _)| *n == tab) {
                    if j >= 2 && j <= cs.len() {
                        let tr = &cs[cs.len() - j..];
                        let mut acc = Fq::zero();
                        for k in tr.iter().rev() {
                            acc = acc.mul(&x).add(k);
                        }
                        if acc.is_zero() {
                            if let Some(y) = c.rhs(&x).sqrt() {
                                let label = format!("root-of-the-top-{}-coefficients-of-{}", j, tab);
                                out.push((label.clone(), Pt::Aff(x.clone(), y.clone())));
                                out.push((label, Pt::Aff(x.clone(), y.neg())));
                            }
                        }
                    }
                }
            }
        }
    }
    out
}

/// model computation behind corpus/iso-truncation-roots.json
pub fn gen_iso_roots() -> serde_json::Value {
    let t = h2c::iso11_tables();
    let mut out = vec![];
    for (name, cs) in [("xnum", &t.xnum), ("xden", &t.xden), ("ynum", &t.ynum), ("yden", &t.yden)] {
        for j in 2..=cs.len() {
            let tr: Vec<Fq> = cs[cs.len() - j..].to_vec();
            for x in refmodel::fld::poly_roots_fq(&tr) {
                out.push(json!({"table": name, "top_coefficients": j, "x": format!("{:x}", x.0)}));
            }
        }
    }
    Value::Array(out)
}

static IPOOL1: OnceLock<IsoPool<Fq>> = OnceLock::new();
static IPOOL2: OnceLock<IsoPool<Fq2>> = OnceLock::new();

pub trait IsoGrp: Grp {
    fn iso_curve() -> Curve<Self::F>;
    fn iso_pool() -> &'static IsoPool<Self::F>;
    fn tables() -> IsoTables<Self::F>;
    fn crate_iso(p: &mut Self::Proj);
    fn sswu_image(u: &Fq2) -> Pt<Self::F>;
}

impl IsoGrp for G1m {
    fn iso_curve() -> Curve<Fq> {
        e1_iso()
    }
    fn iso_pool() -> &'static IsoPool<Fq> {
        IPOOL1.get_or_init(|| {
            let mut p = build_iso_pool::<G1m>(&e1_iso(), 0x150_1, true);
            p.structured.extend(g1_truncation_points());
            p
        })
    }
    fn tables() -> IsoTables<Fq> {
        h2c::iso11_tables()
    }
    fn crate_iso(p: &mut crt::G1) {
        p.isogeny_map()
    }
    fn sswu_image(u: &Fq2) -> Pt<Fq> {
        h2c::sswu_g1(&u.c0)
    }
}

impl IsoGrp for G2m {
    fn iso_curve() -> Curve<Fq2> {
        e2_iso()
    }
    fn iso_pool() -> &'static IsoPool<Fq2> {
        IPOOL2.get_or_init(|| build_iso_pool::<G2m>(&e2_iso(), 0x150_2, false))
    }
    fn tables() -> IsoTables<Fq2> {
        h2c::iso3_tables()
    }
    fn crate_iso(p: &mut crt::G2) {
        p.isogeny_map()
    }
    fn sswu_image(u: &Fq2) -> Pt<Fq2> {
        h2c::sswu_g2(u)
    }
}

#[derive(Clone, Debug, Serialize, Deserialize, PartialEq, Eq, Hash)]
pub enum IsoPtR {
    Identity,
    Full(u8),
    SmallOrder(u8, u8),
    /// G1: order-121 point S (G2: falls back to a full-curve point)
    Order121(u8),
    /// G1: rational kernel point [11 k]S, k = 1..=10 (G2: falls back to the identity)
    Kernel(u8, u8),
    /// the SSWU image of a field element: the inputs the isogeny sees in practice
    Sswu(Fq2R),
    /// a point of E' with structured x (incl. the points E' shares with the target curve)
    Structured(u8),
    Neg(Box<IsoPtR>),
    /// model sum on E'
    Sum(Box<IsoPtR>, Box<IsoPtR>),
}

impl IsoPtR {
    pub fn build<G: IsoGrp>(&self) -> Pt<G::F>
    where
        G::F: SqrtFld,
    {
        let pool = G::iso_pool();
        let c = G::iso_curve();
        match self {
            IsoPtR::Identity => Pt::Inf,
            IsoPtR::Full(i) => pool.full[*i as usize % NFULL].clone(),
            IsoPtR::SmallOrder(p, i) => {
                let v = &pool.small_order[*p as usize % pool.small_order.len()];
                v[*i as usize % v.len()].clone()
            }
            IsoPtR::Order121(i) => {
                if pool.order121.is_empty() {
                    pool.full[*i as usize % NFULL].clone()
                } else {
                    pool.order121[*i as usize % pool.order121.len()].clone()
                }
            }
            IsoPtR::Kernel(i, k) => {
                if pool.order121.is_empty() {
                    Pt::Inf
                } else {
                    let s = &pool.order121[*i as usize % pool.order121.len()];
                    c.mul(&Z::from(11 * (1 + (*k as u32 % 10))), s)
                }
            }
            IsoPtR::Sswu(u) => G::sswu_image(&u.build()),
            IsoPtR::Structured(i) => {
                if pool.structured.is_empty() {
                    pool.full[*i as usize % NFULL].clone()
                } else {
                    pool.structured[*i as usize % pool.structured.len()].1.clone()
                }
            }
            IsoPtR::Neg(p) => c.neg(&p.build::<G>()),
            IsoPtR::Sum(a, b) => c.add(&a.build::<G>(), &b.build::<G>()),
        }
    }
    pub fn class(&self) -> &'static str {
        match self {
            IsoPtR::Identity => "identity",
            IsoPtR::Full(_) => "full-curve",
            IsoPtR::SmallOrder(_, _) => "small-order",
            IsoPtR::Order121(_) => "order-121 (G1)",
            IsoPtR::Kernel(_, _) => "rational-kernel-point (G1)",
            IsoPtR::Sswu(_) => "sswu-image",
            IsoPtR::Structured(_) => "structured-x (incl. points shared with the target curve)",
            IsoPtR::Neg(_) => "negated",
            IsoPtR::Sum(_, _) => "model-sum",
        }
    }
}

fn iso_leaf() -> BoxedStrategy<IsoPtR> {
    prop_oneof![
        1 => Just(IsoPtR::Identity),
        5 => (0u8..NFULL as u8).prop_map(IsoPtR::Full),
        3 => (0u8..5, 0u8..3).prop_map(|(p, i)| IsoPtR::SmallOrder(p, i)),
        2 => (0u8..3).prop_map(IsoPtR::Order121),
        2 => (0u8..3, 0u8..10).prop_map(|(i, k)| IsoPtR::Kernel(i, k)),
        5 => fq2_strategy().prop_map(IsoPtR::Sswu),
        3 => any::<u8>().prop_map(IsoPtR::Structured),
    ]
    .boxed()
}

fn iso_pt_strategy() -> BoxedStrategy<IsoPtR> {
    let leaf = iso_leaf();
    prop_oneof![
        6 => leaf.clone(),
        1 => leaf.clone().prop_map(|p| IsoPtR::Neg(Box::new(p))),
        2 => (leaf.clone(), leaf).prop_map(|(a, b)| IsoPtR::Sum(Box::new(a), Box::new(b))),
    ]
    .boxed()
}

#[derive(Clone, Debug, Serialize, Deserialize, PartialEq, Eq, Hash)]
pub enum PairKind {
    Independent(IsoPtR),
    Same,
    Negated,
    /// Q = P + T with T a rational kernel point (G1)
    PlusKernel(u8, u8),
}

#[derive(Clone, Debug, Serialize, Deserialize, PartialEq, Eq, Hash)]
pub struct IsoCase {
    pub group: u8,
    pub p: IsoPtR,
    pub rep: RepR,
    pub q: PairKind,
    pub rep_q: RepR,
}

fn iso_case_strategy(group: u8) -> BoxedStrategy<IsoCase> {
    let q = prop_oneof![
        6 => iso_pt_strategy().prop_map(PairKind::Independent),
        1 => Just(PairKind::Same),
        1 => Just(PairKind::Negated),
        2 => (0u8..3, 0u8..10).prop_map(|(i, k)| PairKind::PlusKernel(i, k)),
    ];
    (iso_pt_strategy(), rep_strategy(), q, rep_strategy()).prop_map(move |(p, rep, q, rep_q)| IsoCase { group, p, rep, q, rep_q }).boxed()
}

fn crate_iso_of<G: IsoGrp>(p: &Pt<G::F>, rep: &RepR) -> Result<Pt<G::F>, String>
where
    G::F: SqrtFld,
{
    let mut v = rep_build::<G>(p, rep);
    cr("isogeny_map", || G::crate_iso(&mut v))?;
    Ok(proj_m::<G>(&v))
}

fn check_iso<G: IsoGrp>(c: &IsoCase, info: &mut Info) -> Result<(), String>
where
    G::F: SqrtFld,
{
    let src = G::iso_curve();
    let dst = G::curve();
    let tables = G::tables();
    let pm = c.p.build::<G>();
    if !src.on_curve(&pm) {
        return Err("generated point not on the isogenous curve (harness bug)".into());
    }
    info.class(c.p.class());
    let want = h2c::iso_map(&tables, &pm);
    if !dst.on_curve(&want) {
        return Err("model isogeny image off the target curve (harness bug)".into());
    }
    let is_normal_rep = matches!(c.rep, RepR::Normal);
    info.nt_if(!pm.is_inf() && !is_normal_rep);
    if want.is_inf() && !pm.is_inf() {
        info.class("kernel-point-maps-to-identity");
    }
    let got = crate_iso_of::<G>(&pm, &c.rep)?;
    if got != want {
        return Err(format!("{} isogeny_map of {} (representative {:?}): crate {} but the RFC rational map gives {}", G::NAME, pt_brief(&pm), c.rep, pt_brief(&got), pt_brief(&want)));
    }
    // representative independence: the Z = 1 representative gives the same image
    let got1 = crate_iso_of::<G>(&pm, &RepR::Normal)?;
    if got1 != want {
        return Err(format!("{} isogeny_map of {} (Z = 1): crate {} but the RFC rational map gives {}", G::NAME, pt_brief(&pm), pt_brief(&got1), pt_brief(&want)));
    }
    // homomorphism: iso(P + Q) = iso(P) + iso(Q), sum on E' by the model law (a != 0)
    let qm = match &c.q {
        PairKind::Independent(q) => {
            info.class("pair:independent");
            q.build::<G>()
        }
        PairKind::Same => {
            info.class("pair:Q=P");
            pm.clone()
        }
        PairKind::Negated => {
            info.class("pair:Q=-P");
            src.neg(&pm)
        }
        PairKind::PlusKernel(i, k) => {
            info.class("pair:Q=P+T (kernel)");
            let t = IsoPtR::Kernel(*i, *k).build::<G>();
            src.add(&pm, &t)
        }
    };
    let sum = src.add(&pm, &qm);
    let img_sum = crate_iso_of::<G>(&sum, &c.rep_q)?;
    let img_q = crate_iso_of::<G>(&qm, &c.rep_q)?;
    let rhs = dst.add(&got, &img_q);
    if img_sum != rhs {
        return Err(format!("{} isogeny is not a homomorphism on P = {}, Q = {}: iso(P+Q) = {} but iso(P)+iso(Q) = {}", G::NAME, pt_brief(&pm), pt_brief(&qm), pt_brief(&img_sum), pt_brief(&rhs)));
    }
    Ok(())
}

fn check_iso_any(c: &IsoCase, info: &mut Info) -> Result<(), String> {
    if c.group == 0 {
        check_iso::<G1m>(c, info)
    } else {
        check_iso::<G2m>(c, info)
    }
}

/// the same point in several representatives, its negation, the same again: back to back
#[derive(Clone, Debug, Serialize, Deserialize, PartialEq, Eq, Hash)]
pub struct IsoSeq {
    pub base: IsoCase,
    pub steps: Vec<(RepR, bool)>,
}

fn iso_seq_strategy() -> BoxedStrategy<IsoSeq> {
    (prop_oneof![iso_case_strategy(0), iso_case_strategy(1)], proptest::collection::vec((rep_strategy(), any::<bool>()), 1..4)).prop_map(|(base, steps)| IsoSeq { base, steps }).boxed()
}

fn check_iso_seq(c: &IsoSeq, info: &mut Info) -> Result<(), String> {
    let mut tmp = Info::default();
    check_iso_any(&c.base, &mut tmp)?;
    for (i, (rep, neg)) in c.steps.iter().enumerate() {
        let mut case = c.base.clone();
        case.rep = rep.clone();
        if *neg {
            case.p = IsoPtR::Neg(Box::new(case.p));
        }
        let mut tmp = Info::default();
        check_iso_any(&case, &mut tmp).map_err(|m| format!("call #{} after evaluating a related point first: {}", i + 1, m))?;
    }
    info.nt();
    Ok(())
}

// ---- coefficient tables: diagnostic only ---------------------------------------------------------

fn run_tables(_ctx: &Ctx, rec: &mut dyn FnMut(Value, Info)) -> Result<(), (String, Value)> {
    let t1 = iso11_tables();
    let m1 = h2c::iso11_tables();
    let eq1 = [&m1.xnum, &m1.xden, &m1.ynum, &m1.yden].iter().zip(t1.iter()).all(|(m, c)| m.len() == c.len() && m.iter().zip(c.iter()).all(|(a, b)| *a == fq_m(b)));
    let t2 = iso3_tables();
    let m2 = h2c::iso3_tables();
    let eq2 = [&m2.xnum, &m2.xden, &m2.ynum, &m2.yden].iter().zip(t2.iter()).all(|(m, c)| m.len() == c.len() && m.iter().zip(c.iter()).all(|(a, b)| *a == fq2_m(b)));
    for (name, ok) in [("iso11 tables equal the frozen copy", eq1), ("iso3 tables equal the frozen copy", eq2)] {
        let mut info = Info::default();
        info.nt();
        info.class(format!("diagnostic:{}={}", name, ok));
        rec(json!({"diagnostic": name, "equal": ok}), info);
    }
    Ok(())
}

fn replay_tables(_v: &Value) -> Result<(), String> {
    Ok(())
}

#[allow(dead_code)]
fn _u(_: Fq) -> bool {
    Fq::zero().is_zero()
}

crate::long_sub!(run_long_history, [7, 8]);

pub fn def() -> PropDef {
    PropDef {
        id: "C16",
        rule: "points of the isogenous curves E1'(Fq), E2'(Fq2): identity (canonical and junk representatives), uniform full-curve points, points of each small prime order, (G1) order-121 points S and the rational kernel points [11k]S, SSWU images of generated field elements, negations and model sums of these, in generated Jacobian representatives (Z = 1, -1, uniform lambda); pairs (P, Q) incl. Q = P, Q = -P, Q = P + T with T in the kernel. Oracle: model rational map with the frozen RFC coefficient tables evaluated in affine coordinates, image on the target curve, identity and kernel points map to the identity, representative independence, homomorphism with the sum taken by the model law on E' (a != 0). Non-trivial = non-identity point in a representative with Z != 1; distinct = distinct cases",
        needs_pairing: false,
        subs: vec![
            Box::new(crate::engine::EnumSub { name: "long-history", rule: super::longhist::RULE, run: run_long_history, replay: super::longhist::replay, exhaustive: false }),
            Box::new(crate::engine::EnumSub { name: "two-input-bursts", rule: super::longhist::BURST_RULE, run: run_two_input_bursts, replay: super::longhist::replay_burst, exhaustive: false }),
            Box::new(Sub { name: "g1-iso11", rule: "11-isogeny E1' -> E vs model rational map; homomorphism", quick: 12_000, thorough: 50_000, strategy: || boxed(iso_case_strategy(0)), check: check_iso_any }),
            Box::new(Sub { name: "g2-iso3", rule: "3-isogeny E2' -> E' vs model rational map; homomorphism", quick: 12_000, thorough: 50_000, strategy: || boxed(iso_case_strategy(1)), check: check_iso_any }),
            Box::new(Sub { name: "related-sequences", rule: "the same point in other representatives / negated / again, evaluated back to back, each compared with the model", quick: 1_500, thorough: 30_000, strategy: || boxed(iso_seq_strategy()), check: check_iso_seq }),
            Box::new(EnumSub { name: "tables-diagnostic", rule: "hook coefficient tables vs the frozen copy: recorded only (a behavioural difference is what counts)", run: run_tables, replay: replay_tables, exhaustive: true }),
        ],
        assumptions: {
            let mut v = COMMON_ASSUMPTIONS.to_vec();
            v.push("the RFC appendix-E coefficient tables of the model are a frozen copy of the pinned tree's tables (none other exists offline); trusted because the model evaluated with them maps E' onto E, is additive, and reproduces the four RFC 9380 appendix-J vectors end to end (which also fixes the sign of the y-map)");
            v
        },
    }
}
