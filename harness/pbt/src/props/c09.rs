//! C09 - Fq2, Fq6, Fq12 are the stated tower; Frobenius and sparse products are exact.
//! Oracle: Fq2 = pairs with u^2 = -1 and the flat quotient ring Fq[w]/(w^12 - 2w^6 + 2).

use super::{PropDef, COMMON_ASSUMPTIONS};
use crate::adapt::*;
use crate::engine::{boxed, cr, Info, Sub};
use crate::recipes::*;
use ff_zeroize::Field;
use pairing_plus::bls12_381 as crt;
use proptest::prelude::*;
use refmodel::fld::{Fld, Fq, Fq12, Fq2, Z};
use serde::{Deserialize, Serialize};

#[derive(Clone, Debug, Serialize, Deserialize, PartialEq, Eq, Hash)]
pub enum FrobK {
    Small(u8),
    /// 12 m + j
    Mult12(u32, u8),
    Pow31,
    /// usize::MAX - j
    NearMax(u8),
}

impl FrobK {
    pub fn value(&self) -> usize {
        match self {
            FrobK::Small(k) => *k as usize % 41,
            FrobK::Mult12(m, j) => 12 * (*m as usize) + (*j as usize % 12),
            FrobK::Pow31 => 1usize << 31,
            FrobK::NearMax(j) => usize::MAX - (*j as usize % 24),
        }
    }
}

fn frob_strategy() -> BoxedStrategy<FrobK> {
    prop_oneof![
        6 => (0u8..41).prop_map(FrobK::Small),
        2 => (any::<u32>(), 0u8..12).prop_map(|(m, j)| FrobK::Mult12(m, j)),
        1 => Just(FrobK::Pow31),
        2 => (0u8..24).prop_map(FrobK::NearMax),
    ]
    .boxed()
}

/// an element of an extension of degree `n` over Fq (n = 6 for Fq6 / 12 for Fq12 in Fq-coefficients),
/// coefficient index = i*6 + j*2 + k for the Fq-coefficient u^k v^j w^i
#[derive(Clone, Debug, Serialize, Deserialize, PartialEq, Eq, Hash)]
pub enum ExtR {
    Zero,
    One,
    /// coefficients, then masked: coefficient idx kept iff bit idx of mask is set
    Coeffs(Vec<FeR>, u16),
    /// a power of the generator w (Fq12) / v (Fq6)
    GenPow(u16),
    /// frob^d(e) / e for the inner element e (1 when e = 0): an element whose NORM to the subfield of degree d is
    /// one (d = 6 in Fq12: the unitary elements c0^2 - v c1^2 = 1, among them all pairing values)
    NormOne(Box<ExtR>, u8),
    /// the inner element with its components made RELATED: kind 0: c1 := c0 (the two Fq6 halves equal; for an Fq6
    /// element: all three Fq2 coefficients equal), 1: c1 := -c0, 2: c1 := v * c0, 3: halves swapped,
    /// 4: all six Fq2 coefficients equal, 5: c1 := conj-like (c0 with every Fq2 coefficient conjugated)
    Related(Box<ExtR>, u8),
}

fn mask_strategy(ncoef: usize) -> BoxedStrategy<u16> {
    let all: u16 = if ncoef == 12 { 0x0fff } else { 0x003f };
    if ncoef == 12 {
        prop_oneof![
            8 => Just(all),
            4 => any::<u16>().prop_map(move |m| m & all),
            1 => Just(0x0001u16),               // Fq
            1 => Just(0x0003u16),               // Fq2
            2 => Just(0x003fu16),               // Fq6
            1 => Just(0x0303u16),               // Fq4-type: Fq2 + Fq2 * (v w)
            1 => Just(0x0fc0u16),               // pure w-odd part
        ]
        .boxed()
    } else {
        prop_oneof![
            8 => Just(all),
            4 => any::<u16>().prop_map(move |m| m & all),
            1 => Just(0x0001u16),
            2 => Just(0x0003u16),
            1 => Just(0x000cu16),
            1 => Just(0x0030u16),
        ]
        .boxed()
    }
}

pub fn ext_strategy(ncoef: usize) -> BoxedStrategy<ExtR> {
    let plain = move || {
        prop_oneof![
            2 => (0u16..40).prop_map(ExtR::GenPow),
            8 => (proptest::collection::vec(fq_strategy(), ncoef), mask_strategy(ncoef)).prop_map(|(c, m)| ExtR::Coeffs(c, m)),
            8 => (proptest::collection::vec(fq_uniformish(), ncoef), mask_strategy(ncoef)).prop_map(|(c, m)| ExtR::Coeffs(c, m)),
        ]
    };
    let degs: Vec<u8> = if ncoef == 12 { vec![6, 6, 6, 1, 2, 3, 4] } else { vec![1, 2, 3] };
    prop_oneof![
        1 => Just(ExtR::Zero),
        1 => Just(ExtR::One),
        16 => plain(),
        3 => (plain(), proptest::sample::select(degs)).prop_map(|(e, d)| ExtR::NormOne(Box::new(e), d)),
        3 => (plain(), 0u8..6).prop_map(|(e, k)| ExtR::Related(Box::new(e), k)),
    ]
    .boxed()
}

impl ExtR {
    /// as a tower element of Fq12 (for ncoef = 6 the w-odd half is zero)
    pub fn tower(&self, ncoef: usize) -> Tower12 {
        let z2 = || Fq2::zero();
        let mut t: Tower12 = [[z2(), z2(), z2()], [z2(), z2(), z2()]];
        match self {
            ExtR::Zero => {}
            ExtR::One => t[0][0] = Fq2::one(),
            ExtR::GenPow(k) => {
                let g = if ncoef == 12 { Fq12::w() } else { Fq12::w().sqr() };
                return g.pow(&Z::from(*k as u32)).to_tower();
            }
            ExtR::Related(inner, kind) => {
                let mut u = inner.tower(ncoef);
                if ncoef == 12 {
                    match kind % 6 {
                        0 => u[1] = u[0].clone(),
                        1 => u[1] = [u[0][0].neg(), u[0][1].neg(), u[0][2].neg()],
                        2 => {
                            // v * (a0 + a1 v + a2 v^2) = xi a2 + a0 v + a1 v^2, xi = 1 + u
                            let xi = Fq2::new(Fq::one(), Fq::one());
                            u[1] = [u[0][2].mul(&xi), u[0][0].clone(), u[0][1].clone()];
                        }
                        3 => u.swap(0, 1),
                        4 => {
                            let a = u[0][0].clone();
                            u = [[a.clone(), a.clone(), a.clone()], [a.clone(), a.clone(), a]];
                        }
                        _ => u[1] = [u[0][0].conj(), u[0][1].conj(), u[0][2].conj()],
                    }
                } else {
                    match kind % 6 {
                        0 | 4 => {
                            let a = u[0][0].clone();
                            u[0] = [a.clone(), a.clone(), a];
                        }
                        1 => u[0][1] = u[0][0].neg(),
                        2 => u[0][2] = u[0][1].clone(),
                        3 => u[0].swap(0, 2),
                        _ => u[0][1] = u[0][0].conj(),
                    }
                }
                return u;
            }
            ExtR::NormOne(inner, d) => {
                let e = Fq12::from_tower(&inner.tower(ncoef));
                if e.is_zero() {
                    t[0][0] = Fq2::one();
                } else {
                    return e.frobenius(*d as usize).mul(&e.inv().unwrap()).to_tower();
                }
            }
            ExtR::Coeffs(c, mask) => {
                for idx in 0..ncoef {
                    if mask & (1 << idx) == 0 {
                        continue;
                    }
                    let v = c.get(idx).map(|f| f.fq()).unwrap_or_else(Fq::zero);
                    let (i, j, k) = (idx / 6, (idx % 6) / 2, idx % 2);
                    if k == 0 {
                        t[i][j].c0 = v;
                    } else {
                        t[i][j].c1 = v;
                    }
                }
            }
        }
        t
    }
    pub fn shape(&self, ncoef: usize) -> String {
        match self {
            ExtR::Zero => "zero".into(),
            ExtR::One => "one".into(),
            ExtR::GenPow(_) => "generator-power".into(),
            ExtR::NormOne(_, d) => format!("norm-one-over-degree-{}-subfield", d),
            ExtR::Related(_, k) => format!("related-components:{}", ["equal", "negated", "times-v", "swapped", "all-equal", "conjugated"][*k as usize % 6]),
            ExtR::Coeffs(_, m) => {
                let all: u16 = if ncoef == 12 { 0x0fff } else { 0x003f };
                if *m == all {
                    "dense".into()
                } else if *m & !0x3 == 0 {
                    "in-Fq2".into()
                } else if *m & !0x3f == 0 && ncoef == 12 {
                    "in-Fq6".into()
                } else {
                    "sparse".into()
                }
            }
        }
    }
}

fn in_fq(t: &Tower12) -> bool {
    Fq12::from_tower(t).0[1..].iter().all(|c| c == &Z::from(0u32))
}

// ---- Fq2 ------------------------------------------------------------------------------------

#[derive(Clone, Debug, Serialize, Deserialize, PartialEq, Eq, Hash)]
pub struct Fq2Case {
    pub a: Fq2R,
    pub b: Fq2R,
    pub k: FrobK,
}

fn fq2_case_strategy() -> BoxedStrategy<Fq2Case> {
    (fq2_strategy(), fq2_strategy(), frob_strategy()).prop_map(|(a, b, k)| Fq2Case { a, b, k }).boxed()
}

fn ck2(name: &str, got: &crt::Fq2, want: &Fq2, a: &Fq2, b: &Fq2) -> Result<(), String> {
    let g = fq2_m(got);
    if &g != want {
        return Err(format!("Fq2::{}: crate {:?}, quotient ring gives {:?} (a={:?}, b={:?})", name, g, want, a, b));
    }
    // the result must also be THE canonical element for the crate's own equality / zero test
    if *got != fq2_c(want) || got.is_zero() != want.is_zero() {
        return Err(format!("Fq2::{}: the result has the value {:?} but the crate's own == / is_zero() do not treat it as that element (non-canonical internal representation; a={:?}, b={:?})", name, want, a, b));
    }
    Ok(())
}

pub fn check_fq2(c: &Fq2Case, info: &mut Info) -> Result<(), String> {
    let am = c.a.build();
    let bm = c.b.build();
    info.nt_if(!(am.c1.is_zero() && bm.c1.is_zero()));
    info.class(if am.c1.is_zero() { "a-in-Fq" } else if am.c0.is_zero() { "a-imaginary" } else { "a-general" });
    let a = fq2_c(&am);
    let b = fq2_c(&bm);
    let mut t = a;
    cr("add", || t.add_assign(&b))?;
    ck2("add_assign", &t, &am.add(&bm), &am, &bm)?;
    let mut t = a;
    cr("sub", || t.sub_assign(&b))?;
    ck2("sub_assign", &t, &am.sub(&bm), &am, &bm)?;
    let mut t = a;
    cr("neg", || t.negate())?;
    ck2("negate", &t, &am.neg(), &am, &bm)?;
    let mut t = a;
    cr("double", || t.double())?;
    ck2("double", &t, &am.dbl(), &am, &bm)?;
    let mut t = a;
    cr("mul", || t.mul_assign(&b))?;
    ck2("mul_assign", &t, &am.mul(&bm), &am, &bm)?;
    let mut t = a;
    cr("square", || t.square())?;
    ck2("square", &t, &am.mul(&am), &am, &bm)?;
    match cr("inverse", || a.inverse())? {
        None => {
            if !am.is_zero() {
                return Err(format!("Fq2::inverse({:?}) = None", am));
            }
        }
        Some(i) => {
            let want = am.inv().ok_or_else(|| "Fq2::inverse(0) returned a value".to_string())?;
            ck2("inverse", &i, &want, &am, &bm)?;
        }
    }
    let mut t = a;
    cr("mul_by_nonresidue", || t.mul_by_nonresidue())?;
    ck2("mul_by_nonresidue", &t, &am.mul(&Fq2::new(Fq::one(), Fq::one())), &am, &bm)?;
    let nrm = cr("norm", || a.norm())?;
    // norm = a * a^q, an element of Fq
    let aq = fq2_flat(&am).frobenius(1);
    let prod = fq2_flat(&am).mul(&aq);
    if Fq12::from_fq(&fq_m(&nrm)) != prod {
        return Err(format!("Fq2::norm({:?}) = {:?} but a*a^q = {:?}", am, fq_m(&nrm), prod));
    }
    let k = c.k.value();
    info.class(format!("frob-k-mod-2={}", k % 2));
    let mut t = a;
    cr("frobenius_map", || t.frobenius_map(k))?;
    let want = fq2_flat(&am).frobenius(k % 12);
    if fq2_flat(&fq2_m(&t)) != want {
        return Err(format!("Fq2::frobenius_map({}) of {:?}: crate {:?}, x^(q^k) = {:?}", k, am, fq2_m(&t), want));
    }
    if cr("is_zero", || a.is_zero())? != am.is_zero() || (a == b) != (am == bm) {
        return Err(format!("Fq2::is_zero/== wrong for {:?}, {:?}", am, bm));
    }
    Ok(())
}

// ---- Fq6 ------------------------------------------------------------------------------------

#[derive(Clone, Debug, Serialize, Deserialize, PartialEq, Eq, Hash)]
pub struct Fq6Case {
    pub a: ExtR,
    pub b: ExtR,
    pub s0: Fq2R,
    pub s1: Fq2R,
    pub k: FrobK,
}

fn fq6_case_strategy() -> BoxedStrategy<Fq6Case> {
    (ext_strategy(6), ext_strategy(6), fq2_strategy(), fq2_strategy(), frob_strategy()).prop_map(|(a, b, s0, s1, k)| Fq6Case { a, b, s0, s1, k }).boxed()
}

fn ck6(name: &str, got: &crt::Fq6, want: &Fq12, ctx: &str) -> Result<(), String> {
    let g = fq6_flat(&fq6_m(got));
    if &g != want {
        return Err(format!("Fq6::{}: crate {:?}, quotient ring gives {:?} ({})", name, g, want, ctx));
    }
    if let Some(t6) = flat_to_fq6(want) {
        if *got != fq6_c(&t6) || got.is_zero() != want.is_zero() {
            return Err(format!("Fq6::{}: the result has the right value but the crate's own == / is_zero() do not treat it as that element (non-canonical internal representation; {})", name, ctx));
        }
    }
    Ok(())
}

pub fn check_fq6(c: &Fq6Case, info: &mut Info) -> Result<(), String> {
    let at = c.a.tower(6);
    let bt = c.b.tower(6);
    let am = Fq12::from_tower(&at);
    let bm = Fq12::from_tower(&bt);
    info.class(format!("a:{}", c.a.shape(6)));
    info.nt_if(!in_fq(&at) || !in_fq(&bt));
    let a = fq6_c(&at[0]);
    let b = fq6_c(&bt[0]);
    let ctx = format!("a={:?}, b={:?}", c.a, c.b);
    let mut t = a;
    cr("add", || t.add_assign(&b))?;
    ck6("add_assign", &t, &am.add(&bm), &ctx)?;
    let mut t = a;
    cr("sub", || t.sub_assign(&b))?;
    ck6("sub_assign", &t, &am.sub(&bm), &ctx)?;
    let mut t = a;
    cr("neg", || t.negate())?;
    ck6("negate", &t, &am.neg(), &ctx)?;
    let mut t = a;
    cr("double", || t.double())?;
    ck6("double", &t, &am.dbl(), &ctx)?;
    let mut t = a;
    cr("mul", || t.mul_assign(&b))?;
    ck6("mul_assign", &t, &am.mul(&bm), &ctx)?;
    let mut t = a;
    cr("square", || t.square())?;
    ck6("square", &t, &am.mul(&am), &ctx)?;
    match cr("inverse", || a.inverse())? {
        None => {
            if !am.is_zero() {
                return Err(format!("Fq6::inverse = None for a non-zero element ({})", ctx));
            }
            info.class("inverse:none");
        }
        Some(i) => {
            let want = am.inv().ok_or_else(|| "Fq6::inverse(0) returned a value".to_string())?;
            ck6("inverse", &i, &want, &ctx)?;
        }
    }
    // multiplication by the non-residue v = w^2
    let v = Fq12::w().sqr();
    let mut t = a;
    cr("mul_by_nonresidue", || t.mul_by_nonresidue())?;
    ck6("mul_by_nonresidue", &t, &am.mul(&v), &ctx)?;
    // sparse products
    let s0 = c.s0.build();
    let s1 = c.s1.build();
    let sp1 = fq2_flat(&s1).mul(&v);
    let mut t = a;
    cr("mul_by_1", || t.mul_by_1(&fq2_c(&s1)))?;
    ck6("mul_by_1", &t, &am.mul(&sp1), &format!("{}, c1={:?}", ctx, s1))?;
    let sp01 = fq2_flat(&s0).add(&sp1);
    let mut t = a;
    cr("mul_by_01", || t.mul_by_01(&fq2_c(&s0), &fq2_c(&s1)))?;
    ck6("mul_by_01", &t, &am.mul(&sp01), &format!("{}, c0={:?}, c1={:?}", ctx, s0, s1))?;
    if s0.is_zero() || s1.is_zero() {
        info.class("sparse-operand-with-zero");
    }
    let k = c.k.value();
    info.class(format!("frob-k-mod-6={}", k % 6));
    let mut t = a;
    cr("frobenius_map", || t.frobenius_map(k))?;
    ck6(&format!("frobenius_map({})", k), &t, &am.frobenius(k % 12), &ctx)?;
    if cr("is_zero", || a.is_zero())? != am.is_zero() || (a == b) != (am == bm) {
        return Err(format!("Fq6::is_zero/== wrong ({})", ctx));
    }
    Ok(())
}

// ---- Fq12 -----------------------------------------------------------------------------------

#[derive(Clone, Debug, Serialize, Deserialize, PartialEq, Eq, Hash)]
pub struct Fq12Case {
    pub a: ExtR,
    pub b: ExtR,
    pub s0: Fq2R,
    pub s1: Fq2R,
    pub s4: Fq2R,
    pub k: FrobK,
}

fn fq12_case_strategy() -> BoxedStrategy<Fq12Case> {
    (ext_strategy(12), ext_strategy(12), fq2_strategy(), fq2_strategy(), fq2_strategy(), frob_strategy())
        .prop_map(|(a, b, s0, s1, s4, k)| Fq12Case { a, b, s0, s1, s4, k })
        .boxed()
}

fn ck12(name: &str, got: &crt::Fq12, want: &Fq12, ctx: &str) -> Result<(), String> {
    let g = fq12_m(got);
    if &g != want {
        return Err(format!("Fq12::{}: crate {:?}, quotient ring gives {:?} ({})", name, g, want, ctx));
    }
    if *got != fq12_c(want) || got.is_zero() != want.is_zero() {
        return Err(format!("Fq12::{}: the result has the right value but the crate's own == / is_zero() do not treat it as that element (non-canonical internal representation; {})", name, ctx));
    }
    Ok(())
}

pub fn check_fq12(c: &Fq12Case, info: &mut Info) -> Result<(), String> {
    let at = c.a.tower(12);
    let bt = c.b.tower(12);
    let am = Fq12::from_tower(&at);
    let bm = Fq12::from_tower(&bt);
    info.class(format!("a:{}", c.a.shape(12)));
    info.nt_if(!in_fq(&at) || !in_fq(&bt));
    let a = fq12_c_tower(&at);
    let b = fq12_c_tower(&bt);
    let ctx = format!("a={:?}, b={:?}", c.a, c.b);
    let mut t = a;
    cr("add", || t.add_assign(&b))?;
    ck12("add_assign", &t, &am.add(&bm), &ctx)?;
    let mut t = a;
    cr("sub", || t.sub_assign(&b))?;
    ck12("sub_assign", &t, &am.sub(&bm), &ctx)?;
    let mut t = a;
    cr("neg", || t.negate())?;
    ck12("negate", &t, &am.neg(), &ctx)?;
    let mut t = a;
    cr("double", || t.double())?;
    ck12("double", &t, &am.dbl(), &ctx)?;
    let mut t = a;
    cr("mul", || t.mul_assign(&b))?;
    ck12("mul_assign", &t, &am.mul(&bm), &ctx)?;
    let mut t = a;
    cr("square", || t.square())?;
    ck12("square", &t, &am.mul(&am), &ctx)?;
    match cr("inverse", || a.inverse())? {
        None => {
            if !am.is_zero() {
                return Err(format!("Fq12::inverse = None for a non-zero element ({})", ctx));
            }
            info.class("inverse:none");
        }
        Some(i) => {
            let want = am.inv().ok_or_else(|| "Fq12::inverse(0) returned a value".to_string())?;
            ck12("inverse", &i, &want, &ctx)?;
        }
    }
    // conjugation = x^(q^6), computed through the generic Frobenius of the model
    let mut t = a;
    cr("conjugate", || t.conjugate())?;
    ck12("conjugate", &t, &am.frobenius(6), &ctx)?;
    // sparse product: operand c0 + c1 v + c4 v w
    let (s0, s1, s4) = (c.s0.build(), c.s1.build(), c.s4.build());
    let w = Fq12::w();
    let v = w.sqr();
    let sp = fq2_flat(&s0).add(&fq2_flat(&s1).mul(&v)).add(&fq2_flat(&s4).mul(&v).mul(&w));
    let mut t = a;
    cr("mul_by_014", || t.mul_by_014(&fq2_c(&s0), &fq2_c(&s1), &fq2_c(&s4)))?;
    ck12("mul_by_014", &t, &am.mul(&sp), &format!("{}, c0={:?}, c1={:?}, c4={:?}", ctx, s0, s1, s4))?;
    if s0.is_zero() || s1.is_zero() || s4.is_zero() {
        info.class("sparse-operand-with-zero");
    }
    let k = c.k.value();
    info.class(format!("frob-k-mod-12={}", k % 12));
    let mut t = a;
    cr("frobenius_map", || t.frobenius_map(k))?;
    ck12(&format!("frobenius_map({})", k), &t, &am.frobenius(k % 12), &ctx)?;
    if cr("is_zero", || a.is_zero())? != am.is_zero() || (a == b) != (am == bm) {
        return Err(format!("Fq12::is_zero/== wrong ({})", ctx));
    }
    Ok(())
}

crate::long_sub!(run_long_history, [20, 21]);

pub fn def() -> PropDef {
    PropDef {
        id: "C09",
        rule: "elements of Fq2 / Fq6 / Fq12 built from per-coefficient boundary + uniform Fq recipes under structural masks (dense, any mask, in Fq, in Fq2, in Fq6, Fq4-type, pure w-odd part, zero, one, powers of the generators u, v, w); sparse operands with zero / subfield / uniform entries; Frobenius powers 0..=40, 12m+j, 2^31, usize::MAX-j. Oracle: pairs with u^2=-1 and the flat ring Fq[w]/(w^12-2w^6+2), Frobenius by generic powering of w. Non-trivial = an operand outside Fq; distinct = distinct cases",
        needs_pairing: false,
        subs: vec![
            Box::new(crate::engine::EnumSub { name: "long-history", rule: super::longhist::RULE, run: run_long_history, replay: super::longhist::replay, exhaustive: false }),
            Box::new(crate::engine::EnumSub { name: "two-input-bursts", rule: super::longhist::BURST_RULE, run: run_two_input_bursts, replay: super::longhist::replay_burst, exhaustive: false }),
            Box::new(Sub { name: "fq2", rule: "Fq2 add/sub/neg/double/mul/square/inverse/mul_by_nonresidue/norm/frobenius/is_zero/==", quick: 120_000, thorough: 1_000_000, strategy: || boxed(fq2_case_strategy()), check: check_fq2 }),
            Box::new(Sub { name: "fq6", rule: "Fq6 ring ops, inverse, mul_by_nonresidue (x v), mul_by_1, mul_by_01, frobenius", quick: 48_000, thorough: 500_000, strategy: || boxed(fq6_case_strategy()), check: check_fq6 }),
            Box::new(Sub { name: "fq12", rule: "Fq12 ring ops, inverse, conjugate (= x^(q^6)), mul_by_014, frobenius", quick: 48_000, thorough: 500_000, strategy: || boxed(fq12_case_strategy()), check: check_fq12 }),
            super::corpus_sub_field(),
        ],
        assumptions: COMMON_ASSUMPTIONS.to_vec(),
    }
}
