//! Registry of properties -> sub-checks.

use crate::engine::DynSub;

pub mod c01;
pub mod c02;
pub mod c03;
pub mod c04;
pub mod c05;
pub mod c06;
pub mod c07;
pub mod c08;
pub mod c09;
pub mod c10;
pub mod c11;
pub mod c12;
pub mod c13;
pub mod c14;
pub mod c15;
pub mod c16;
pub mod c17;
pub mod c18;
pub mod c19;
pub mod c20;
pub mod longhist;

pub struct PropDef {
    pub id: &'static str,
    /// generator + non-triviality rule in one paragraph (goes into the evidence)
    pub rule: &'static str,
    pub needs_pairing: bool,
    pub subs: Vec<Box<dyn DynSub>>,
    pub assumptions: Vec<&'static str>,
}

pub const COMMON_ASSUMPTIONS: [&str; 3] = [
    "trusted: rustc, num-bigint, sha2/sha3, proptest; the reference model (self-tested at start-up against the affine definition, the RFC 9380 appendix-J vectors and the published e(g1,g2))",
    "generated-input search: absence of violations outside the explored cases is not established",
    "release profile (debug assertions and overflow checks off) unless the evidence says otherwise",
];

macro_rules! registry {
    ($($id:literal => $m:ident),* $(,)?) => {
        pub fn ids() -> Vec<&'static str> {
            vec![$($id),*]
        }
        pub fn get(id: &str) -> Option<PropDef> {
            match id {
                $($id => Some($m::def()),)*
                _ => None,
            }
        }
    };
}

registry! {
    "C01" => c01,
    "C02" => c02,
    "C03" => c03,
    "C04" => c04,
    "C05" => c05,
    "C06" => c06,
    "C07" => c07,
    "C08" => c08,
    "C09" => c09,
    "C10" => c10,
    "C11" => c11,
    "C12" => c12,
    "C13" => c13,
    "C14" => c14,
    "C15" => c15,
    "C16" => c16,
    "C17" => c17,
    "C18" => c18,
    "C19" => c19,
    "C20" => c20,
}

// ---------------------------------------------------------------------------------------------
// corpus replay: the committed seed inputs of each libFuzzer target, run through the same
// byte-level entry (oracle inside) by the plain binary - the quick tier of the fuzz engine
// ---------------------------------------------------------------------------------------------

pub fn corpus_dir(target: &str) -> std::path::PathBuf {
    std::path::PathBuf::from(std::env::var("VERIF_ROOT").unwrap_or_else(|_| "/verif".to_string())).join("corpus").join(target)
}

fn hex_of(b: &[u8]) -> String {
    b.iter().map(|x| format!("{:02x}", x)).collect()
}

fn unhex(s: &str) -> Vec<u8> {
    (0..s.len() / 2).filter_map(|i| u8::from_str_radix(&s[2 * i..2 * i + 2], 16).ok()).collect()
}

fn corpus_run(target: &'static str, rec: &mut dyn FnMut(serde_json::Value, crate::engine::Info)) -> Result<(), (String, serde_json::Value)> {
    let mut files: Vec<std::path::PathBuf> = match std::fs::read_dir(corpus_dir(target)) {
        Ok(rd) => rd.filter_map(|e| e.ok()).map(|e| e.path()).filter(|p| p.is_file()).collect(),
        Err(_) => vec![],
    };
    files.sort();
    for f in files {
        let data = std::fs::read(&f).unwrap_or_default();
        let case = serde_json::json!({"target": target, "file": f.file_name().map(|s| s.to_string_lossy().to_string()), "hex": hex_of(&data)});
        crate::fuzz_entry::run(target, &data).map_err(|m| (m, case.clone()))?;
        let mut info = crate::engine::Info::default();
        info.nt();
        info.class(format!("corpus:{}", target));
        rec(case, info);
    }
    Ok(())
}

fn corpus_replay(v: &serde_json::Value) -> Result<(), String> {
    let target = v["target"].as_str().unwrap_or("");
    crate::fuzz_entry::run(target, &unhex(v["hex"].as_str().unwrap_or("")))
}

macro_rules! corpus_subs {
    ($($fname:ident, $sname:ident => $target:literal, $subname:literal);* $(;)?) => {
        $(
            fn $fname(_ctx: &crate::engine::Ctx, rec: &mut dyn FnMut(serde_json::Value, crate::engine::Info)) -> Result<(), (String, serde_json::Value)> {
                corpus_run($target, rec)
            }
            pub fn $sname() -> Box<dyn DynSub> {
                Box::new(crate::engine::EnumSub {
                    name: $subname,
                    rule: "committed seed corpus of the libFuzzer target (and any saved fuzz finding) replayed through the byte-level entry with the model oracle inside",
                    run: $fname,
                    replay: corpus_replay,
                    exhaustive: false,
                })
            }
        )*
    };
}

corpus_subs! {
    corpus_run_decode, corpus_sub_decode => "decode", "corpus-decode";
    corpus_run_serdes, corpus_sub_serdes => "serdes", "corpus-serdes";
    corpus_run_expand, corpus_sub_expand => "expand", "corpus-expand";
    corpus_run_field, corpus_sub_field => "field", "corpus-field";
}
