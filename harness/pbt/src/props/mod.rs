//! Registry of properties -> sub-checks.

use crate::engine::DynSub;

pub mod c01;

pub struct PropDef {
    pub id: &'static str,
    /// generator + non-triviality rule in one paragraph (goes into the evidence)
    pub rule: &'static str,
    pub needs_pairing: bool,
    pub subs: Vec<Box<dyn DynSub>>,
    pub assumptions: Vec<&'static str>,
}

pub const COMMON_ASSUMPTIONS: [&str; 3] = [
    "trusted: rustc, num-bigint, sha2/sha3, proptest; the reference model (self-tested at start-up against the affine definition, the RFC 9380 appendix-J vectors and the published e(g1,g2))",
    "generated-input search: absence of violations outside the explored cases is not established",
    "release profile (debug assertions and overflow checks off) unless the evidence says otherwise",
];

pub fn ids() -> Vec<&'static str> {
    vec!["C01"]
}

pub fn get(id: &str) -> Option<PropDef> {
    match id {
        "C01" => Some(c01::def()),
        _ => None,
    }
}
