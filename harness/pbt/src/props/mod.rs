//! Registry of properties -> sub-checks.

use crate::engine::DynSub;

pub mod c01;
pub mod c02;
pub mod c03;
pub mod c04;
pub mod c05;
pub mod c06;
pub mod c07;
pub mod c08;
pub mod c09;
pub mod c10;
pub mod c11;
pub mod c12;
pub mod c13;
pub mod c14;
pub mod c15;
pub mod c16;
pub mod c17;
pub mod c18;
pub mod c19;
pub mod c20;

pub struct PropDef {
    pub id: &'static str,
    /// generator + non-triviality rule in one paragraph (goes into the evidence)
    pub rule: &'static str,
    pub needs_pairing: bool,
    pub subs: Vec<Box<dyn DynSub>>,
    pub assumptions: Vec<&'static str>,
}

pub const COMMON_ASSUMPTIONS: [&str; 3] = [
    "trusted: rustc, num-bigint, sha2/sha3, proptest; the reference model (self-tested at start-up against the affine definition, the RFC 9380 appendix-J vectors and the published e(g1,g2))",
    "generated-input search: absence of violations outside the explored cases is not established",
    "release profile (debug assertions and overflow checks off) unless the evidence says otherwise",
];

macro_rules! registry {
    ($($id:literal => $m:ident),* $(,)?) => {
        pub fn ids() -> Vec<&'static str> {
            vec![$($id),*]
        }
        pub fn get(id: &str) -> Option<PropDef> {
            match id {
                $($id => Some($m::def()),)*
                _ => None,
            }
        }
    };
}

registry! {
    "C01" => c01,
    "C02" => c02,
    "C03" => c03,
    "C04" => c04,
    "C05" => c05,
    "C06" => c06,
    "C07" => c07,
    "C08" => c08,
    "C09" => c09,
    "C10" => c10,
    "C11" => c11,
    "C12" => c12,
    "C13" => c13,
    "C14" => c14,
    "C15" => c15,
    "C16" => c16,
    "C17" => c17,
    "C18" => c18,
    "C19" => c19,
    "C20" => c20,
}
