//! C01 - G1/G2 arithmetic is the elliptic-curve group law in every case.
//! Model-based stateful testing: programs over a register file, crate and model in lock-step.

use super::{PropDef, COMMON_ASSUMPTIONS};
use crate::adapt::*;
use crate::engine::{boxed, cr, Info, Sub};
use crate::recipes::*;
use pairing_plus::CurveProjective;
use proptest::prelude::*;
use refmodel::curve::Pt;
use refmodel::fld::{Fld, SqrtFld};
use serde::{Deserialize, Serialize};

pub const NPROJ: u8 = 6;
pub const NAFF: u8 = 3;

#[derive(Clone, Debug, Serialize, Deserialize, PartialEq, Eq, Hash)]
pub enum Op {
    Add(u8, u8),
    AddMixed(u8, u8),
    Sub(u8, u8),
    SubMixed(u8, u8),
    Double(u8),
    Neg(u8),
    NegAff(u8),
    ToAffine(u8, u8),
    ToProj(u8, u8),
    RoundTrip(u8),
    Rescale(u8, FeR),
    /// give register i the same Z as register j (harness-side change of representative): operands that
    /// share a Z other than 1, as produced naturally by e.g. (A+B) and (A-B)
    AlignZ(u8, u8),
    /// change the representative of register i so that the intermediates of a Jacobian addition of registers i and j
    /// are RELATED: r = c * H for r = 2(S2 - S1), H = U2 - U1, i.e. Zi * Zj = c (xj - xi) / (2 (yj - yi)), with c from a
    /// small structured set (+-1, +-2, +-1/2, and over Fq2 +-u, +-2u, +-u/2, 1 +- u): r^2 = H^2, r^2 = -H^2, I = -r^2 ...
    RelateZ(u8, u8, u8),
    /// the same for a MIXED addition of projective register i and affine register j (Zj = 1): Zi = c (xj - xi) / (2 (yj - yi))
    RelateZMixed(u8, u8, u8),
    BatchNorm(Vec<u8>),
    Eq(u8, u8),
    EqAff(u8, u8),
    IsZero(u8),
    IsNormalized(u8),
    Copy(u8, u8),
}

#[derive(Clone, Debug, Serialize, Deserialize, PartialEq, Eq, Hash)]
pub struct Prog {
    /// 0 = G1, 1 = G2
    pub group: u8,
    pub init_proj: Vec<(PointR, RepR)>,
    pub init_aff: Vec<PointR>,
    pub ops: Vec<Op>,
}

fn op_strategy() -> BoxedStrategy<Op> {
    let p = || 0u8..NPROJ;
    let a = || 0u8..NAFF;
    prop_oneof![
        8 => (p(), p()).prop_map(|(i, j)| Op::Add(i, j)),
        6 => (p(), a()).prop_map(|(i, j)| Op::AddMixed(i, j)),
        4 => (p(), p()).prop_map(|(i, j)| Op::Sub(i, j)),
        3 => (p(), a()).prop_map(|(i, j)| Op::SubMixed(i, j)),
        4 => p().prop_map(Op::Double),
        2 => p().prop_map(Op::Neg),
        1 => a().prop_map(Op::NegAff),
        3 => (p(), a()).prop_map(|(i, j)| Op::ToAffine(i, j)),
        2 => (p(), a()).prop_map(|(i, j)| Op::ToProj(i, j)),
        1 => p().prop_map(Op::RoundTrip),
        3 => (p(), fq_uniformish()).prop_map(|(i, l)| Op::Rescale(i, l)),
        3 => (p(), p()).prop_map(|(i, j)| Op::AlignZ(i, j)),
        3 => (p(), p(), 0u8..14).prop_map(|(i, j, c)| Op::RelateZ(i, j, c)),
        2 => (p(), a(), 0u8..14).prop_map(|(i, j, c)| Op::RelateZMixed(i, j, c)),
        2 => proptest::collection::vec(p(), 0..8).prop_map(Op::BatchNorm),
        3 => (p(), p()).prop_map(|(i, j)| Op::Eq(i, j)),
        1 => (a(), a()).prop_map(|(i, j)| Op::EqAff(i, j)),
        1 => p().prop_map(Op::IsZero),
        1 => p().prop_map(Op::IsNormalized),
        2 => (p(), p()).prop_map(|(i, j)| Op::Copy(i, j)),
    ]
    .boxed()
}

fn prog_strategy_for(group: u8) -> BoxedStrategy<Prog> {
    (
        proptest::collection::vec((point_strategy(true), rep_strategy()), NPROJ as usize),
        proptest::collection::vec(point_strategy(true), NAFF as usize),
        proptest::collection::vec(op_strategy(), 0..32),
    )
        .prop_map(move |(init_proj, init_aff, ops)| Prog { group, init_proj, init_aff, ops })
        .boxed()
}

fn strat_g1() -> BoxedStrategy<Prog> {
    prog_strategy_for(0)
}
fn strat_g2() -> BoxedStrategy<Prog> {
    prog_strategy_for(1)
}

fn embed_fq<F: Fld>(v: &refmodel::fld::Fq) -> F {
    let mut acc = F::zero();
    let base = F::from_u64(1u64 << 32);
    for d in v.0.to_u32_digits().iter().rev() {
        acc = acc.mul(&base).add(&F::from_u64(*d as u64));
    }
    acc
}

/// compare one projective register with the model
fn cmp_proj<G: Ops>(what: &str, step: usize, c: &G::Proj, m: &Pt<G::F>) -> Result<(), String> {
    let got = proj_m::<G>(c);
    if got != *m {
        return Err(format!("step {} ({}): crate register holds {} but the group law gives {}", step, what, pt_brief(&got), pt_brief(m)));
    }
    // the crate's own equality must identify the result with the same point built from coordinates
    // (a coordinate that is right modulo q but not reduced internally would compare unequal)
    let canonical = proj_c::<G>(m);
    if !cr("==", || G::op_eq(c, &canonical))? {
        return Err(format!("step {} ({}): the register holds {} but the crate's == says it differs from that point built from its coordinates", step, what, pt_brief(m)));
    }
    // is_zero must agree with Z = 0
    let iz = cr("is_zero", || G::op_is_zero(c))?;
    if iz != m.is_inf() {
        return Err(format!("step {} ({}): is_zero() = {} but the point is {}", step, what, iz, pt_brief(m)));
    }
    Ok(())
}

fn cmp_aff<G: Ops>(what: &str, step: usize, c: &G::Aff, m: &Pt<G::F>) -> Result<(), String> {
    let got = aff_m::<G>(c);
    if got != *m {
        return Err(format!("step {} ({}): crate affine register holds {} but expected {}", step, what, pt_brief(&got), pt_brief(m)));
    }
    // affine equality is structural: a finite point must equal the same coordinates built afresh
    if !m.is_inf() && !cr("affine ==", || G::op_aff_eq(c, &aff_c::<G>(m)))? {
        return Err(format!("step {} ({}): affine value {} does not compare equal to the same coordinates built afresh (non-canonical coordinate representation)", step, what, pt_brief(m)));
    }
    Ok(())
}

pub fn run_prog<G: HasPool>(prog: &Prog, info: &mut Info) -> Result<(), String>
where
    G::F: SqrtFld,
{
    let curve = G::curve();
    let mut mp: Vec<Pt<G::F>> = prog.init_proj.iter().map(|(p, _)| p.build::<G>()).collect();
    let mut ma: Vec<Pt<G::F>> = prog.init_aff.iter().map(|p| p.build::<G>()).collect();
    let mut cp: Vec<G::Proj> = prog.init_proj.iter().zip(mp.iter()).map(|((_, rep), m)| rep_build::<G>(m, rep)).collect();
    let mut ca: Vec<G::Aff> = ma.iter().map(|m| aff_c::<G>(m)).collect();
    for (p, _) in &prog.init_proj {
        info.class(p.class());
    }
    for m in mp.iter().chain(ma.iter()) {
        if !curve.on_curve(m) {
            return Err("harness: generated point off curve".into());
        }
    }
    let np = mp.len();
    let na = ma.len();
    let mut exceptional = 0usize;
    for (step, op) in prog.ops.iter().enumerate() {
        match op {
            Op::Add(i, j) | Op::Sub(i, j) => {
                let (i, j) = (*i as usize % np, *j as usize % np);
                let is_sub = matches!(op, Op::Sub(_, _));
                let rhs_m = if is_sub { curve.neg(&mp[j]) } else { mp[j].clone() };
                let name = if is_sub { "sub" } else { "add" };
                // classify by the model
                if mp[i].is_inf() || rhs_m.is_inf() {
                    info.class(format!("{}:identity-operand", name));
                    exceptional += 1;
                } else if mp[i] == rhs_m {
                    exceptional += 1;
                    let same_rep = {
                        let (_, _, z1) = cp[i].as_tuple();
                        let (_, _, z2) = cp[j].as_tuple();
                        G::f_m(z1) == G::f_m(z2)
                    };
                    info.class(format!("{}:P=Q{}", name, if same_rep { "" } else { "-different-representative" }));
                } else if mp[i] == curve.neg(&rhs_m) {
                    exceptional += 1;
                    info.class(format!("{}:P=-Q", name));
                } else if let (Pt::Aff(x1, y1), Pt::Aff(x2, y2)) = (&mp[i], &rhs_m) {
                    let same_z = {
                        let (_, _, z1) = cp[i].as_tuple();
                        let (_, _, z2) = cp[j].as_tuple();
                        G::f_m(z1) == G::f_m(z2) && !proj_z_is_one::<G>(&cp[i])
                    };
                    if y1 == y2 && x1 != x2 {
                        exceptional += 1;
                        info.class(format!("{}:same-y-different-x", name));
                    } else if same_z {
                        exceptional += 1;
                        info.class(format!("{}:distinct-points-sharing-Z!=1", name));
                    } else {
                        info.class(format!("{}:general", name));
                    }
                }
                let other = cp[j];
                let mut t = cp[i];
                cr(name, || {
                    if is_sub {
                        G::op_sub(&mut t, &other)
                    } else {
                        G::op_add(&mut t, &other)
                    }
                })?;
                cp[i] = t;
                mp[i] = curve.add(&mp[i], &rhs_m);
                cmp_proj::<G>(name, step, &cp[i], &mp[i])?;
            }
            Op::AddMixed(i, j) | Op::SubMixed(i, j) => {
                let (i, j) = (*i as usize % np, *j as usize % na);
                let is_sub = matches!(op, Op::SubMixed(_, _));
                let rhs_m = if is_sub { curve.neg(&ma[j]) } else { ma[j].clone() };
                let name = if is_sub { "sub_mixed" } else { "add_mixed" };
                if mp[i].is_inf() || rhs_m.is_inf() {
                    info.class(format!("{}:identity-operand", name));
                    exceptional += 1;
                } else if mp[i] == rhs_m {
                    exceptional += 1;
                    info.class(format!("{}:P=Q{}", name, if proj_z_is_one::<G>(&cp[i]) { "" } else { "-different-representative" }));
                } else if mp[i] == curve.neg(&rhs_m) {
                    exceptional += 1;
                    info.class(format!("{}:P=-Q", name));
                } else if let (Pt::Aff(x1, y1), Pt::Aff(x2, y2)) = (&mp[i], &rhs_m) {
                    if y1 == y2 && x1 != x2 {
                        exceptional += 1;
                        info.class(format!("{}:same-y-different-x", name));
                    } else {
                        info.class(format!("{}:general", name));
                    }
                }
                let other = ca[j];
                let mut t = cp[i];
                cr(name, || {
                    if is_sub {
                        G::op_sub_mixed(&mut t, &other)
                    } else {
                        G::op_add_mixed(&mut t, &other)
                    }
                })?;
                cp[i] = t;
                mp[i] = curve.add(&mp[i], &rhs_m);
                cmp_proj::<G>(name, step, &cp[i], &mp[i])?;
            }
            Op::Double(i) => {
                let i = *i as usize % np;
                let d = curve.dbl(&mp[i]);
                if mp[i].is_inf() {
                    exceptional += 1;
                    info.class("double:identity");
                } else if d == curve.neg(&mp[i]) {
                    exceptional += 1;
                    info.class("double:order-3 (2P=-P)");
                } else {
                    info.class("double:general");
                }
                let mut t = cp[i];
                cr("double", || G::op_double(&mut t))?;
                cp[i] = t;
                mp[i] = d;
                cmp_proj::<G>("double", step, &cp[i], &mp[i])?;
            }
            Op::Neg(i) => {
                let i = *i as usize % np;
                let mut t = cp[i];
                cr("negate", || G::op_neg(&mut t))?;
                cp[i] = t;
                mp[i] = curve.neg(&mp[i]);
                cmp_proj::<G>("negate", step, &cp[i], &mp[i])?;
            }
            Op::NegAff(j) => {
                let j = *j as usize % na;
                let mut t = ca[j];
                cr("affine negate", || G::op_neg_aff(&mut t))?;
                ca[j] = t;
                ma[j] = curve.neg(&ma[j]);
                cmp_aff::<G>("affine negate", step, &ca[j], &ma[j])?;
            }
            Op::ToAffine(i, j) => {
                let (i, j) = (*i as usize % np, *j as usize % na);
                let src = cp[i];
                ca[j] = cr("into_affine", || G::op_to_affine(&src))?;
                ma[j] = mp[i].clone();
                if mp[i].is_inf() {
                    info.class("into_affine:identity");
                    exceptional += 1;
                } else if proj_z_is_one::<G>(&src) {
                    info.class("into_affine:Z=1");
                } else {
                    info.class("into_affine:Z!=1");
                }
                cmp_aff::<G>("into_affine", step, &ca[j], &ma[j])?;
            }
            Op::ToProj(i, j) => {
                let (i, j) = (*i as usize % np, *j as usize % na);
                let src = ca[j];
                cp[i] = cr("into_projective", || G::op_to_proj(&src))?;
                mp[i] = ma[j].clone();
                cmp_proj::<G>("into_projective", step, &cp[i], &mp[i])?;
            }
            Op::RoundTrip(i) => {
                let i = *i as usize % np;
                let src = cp[i];
                cp[i] = cr("into_affine.into_projective", || G::op_to_proj(&G::op_to_affine(&src)))?;
                cmp_proj::<G>("affine round trip", step, &cp[i], &mp[i])?;
            }
            Op::Rescale(i, l) => {
                let i = *i as usize % np;
                let lam: G::F = {
                    let v = embed_fq::<G::F>(&l.fq());
                    if v.is_zero() {
                        <G::F as Fld>::one()
                    } else {
                        v
                    }
                };
                let (x, y, zc) = cp[i].as_tuple();
                let l2 = lam.sqr();
                let l3 = l2.mul(&lam);
                let nx = G::f_m(x).mul(&l2);
                let ny = G::f_m(y).mul(&l3);
                let nz = G::f_m(zc).mul(&lam);
                cp[i] = G::proj_raw(G::f_c(&nx), G::f_c(&ny), G::f_c(&nz));
                cmp_proj::<G>("rescale (harness)", step, &cp[i], &mp[i])?;
            }
            Op::AlignZ(i, j) => {
                let (i, j) = (*i as usize % np, *j as usize % np);
                if !mp[i].is_inf() && !mp[j].is_inf() {
                    let (x, y, zi) = cp[i].as_tuple();
                    let (_, _, zj) = cp[j].as_tuple();
                    // lambda = Zj / Zi
                    let lam = G::f_m(zj).mul(&G::f_m(zi).inv().ok_or("harness: Z = 0 on a finite point")?);
                    let l2 = lam.sqr();
                    let l3 = l2.mul(&lam);
                    let (nx, ny, nz) = (G::f_m(x).mul(&l2), G::f_m(y).mul(&l3), G::f_m(zi).mul(&lam));
                    cp[i] = G::proj_raw(G::f_c(&nx), G::f_c(&ny), G::f_c(&nz));
                    cmp_proj::<G>("align Z (harness)", step, &cp[i], &mp[i])?;
                }
            }
            Op::RelateZ(i, j, csel) => {
                let (i, j) = (*i as usize % np, *j as usize % np);
                if let (Pt::Aff(xi, yi), Pt::Aff(xj, yj)) = (&mp[i], &mp[j]) {
                    let (dx, dy) = (xj.sub(xi), yj.sub(yi));
                    if i != j && !dx.is_zero() && !dy.is_zero() {
                        let one = <G::F as Fld>::one();
                        let two = <G::F as Fld>::from_u64(2);
                        let half = two.inv().unwrap();
                        let uu = <G::F as SqrtFld>::from_fq_pair(&refmodel::fld::Fq::zero(), &refmodel::fld::Fq::one());
                        // over Fq the "u" choices degenerate to 0: fall back to small integers there
                        let uu = if uu.is_zero() { <G::F as Fld>::from_u64(3) } else { uu };
                        let c = match csel % 14 {
                            0 => one.clone(),
                            1 => one.neg(),
                            2 => two.clone(),
                            3 => two.neg(),
                            4 => half.clone(),
                            5 => half.neg(),
                            6 => uu.clone(),
                            7 => uu.neg(),
                            8 => uu.mul(&two),
                            9 => uu.mul(&two).neg(),
                            10 => uu.mul(&half),
                            11 => uu.mul(&half).neg(),
                            12 => one.add(&uu),
                            _ => one.sub(&uu),
                        };
                        let (_, _, zj) = cp[j].as_tuple();
                        let zj = G::f_m(zj);
                        if !zj.is_zero() {
                            // Zi = c dx / (2 dy Zj)
                            let zi = c.mul(&dx).mul(&two.mul(&dy).mul(&zj).inv().ok_or("harness: inversion")?);
                            if !zi.is_zero() {
                                cp[i] = proj_c_scaled::<G>(&mp[i], &zi);
                                cmp_proj::<G>("relate Z (harness)", step, &cp[i], &mp[i])?;
                                info.class("representatives-with-related-addition-intermediates");
                            }
                        }
                    }
                }
            }
            Op::RelateZMixed(i, j, csel) => {
                let (i, j) = (*i as usize % np, *j as usize % ma.len());
                if let (Pt::Aff(xi, yi), Pt::Aff(xj, yj)) = (&mp[i], &ma[j]) {
                    let (dx, dy) = (xj.sub(xi), yj.sub(yi));
                    if !dx.is_zero() && !dy.is_zero() {
                        let one = <G::F as Fld>::one();
                        let two = <G::F as Fld>::from_u64(2);
                        let half = two.inv().unwrap();
                        let uu = <G::F as SqrtFld>::from_fq_pair(&refmodel::fld::Fq::zero(), &refmodel::fld::Fq::one());
                        // over Fq the "u" choices degenerate to 0: fall back to small integers there
                        let uu = if uu.is_zero() { <G::F as Fld>::from_u64(3) } else { uu };
                        let c = match csel % 14 {
                            0 => one.clone(),
                            1 => one.neg(),
                            2 => two.clone(),
                            3 => two.neg(),
                            4 => half.clone(),
                            5 => half.neg(),
                            6 => uu.clone(),
                            7 => uu.neg(),
                            8 => uu.mul(&two),
                            9 => uu.mul(&two).neg(),
                            10 => uu.mul(&half),
                            11 => uu.mul(&half).neg(),
                            12 => one.add(&uu),
                            _ => one.sub(&uu),
                        };
                        let zj = one.clone();
                        if !zj.is_zero() {
                            // Zi = c dx / (2 dy Zj)
                            let zi = c.mul(&dx).mul(&two.mul(&dy).mul(&zj).inv().ok_or("harness: inversion")?);
                            if !zi.is_zero() {
                                cp[i] = proj_c_scaled::<G>(&mp[i], &zi);
                                cmp_proj::<G>("relate Z (harness)", step, &cp[i], &mp[i])?;
                                info.class("representatives-with-related-addition-intermediates");
                            }
                        }
                    }
                }
            }
            Op::BatchNorm(idx) => {
                let idx: Vec<usize> = idx.iter().map(|i| *i as usize % np).collect();
                let mut v: Vec<G::Proj> = idx.iter().map(|i| cp[*i]).collect();
                let n_id = idx.iter().filter(|i| mp[**i].is_inf()).count();
                let n_norm = idx.iter().filter(|i| !mp[**i].is_inf() && proj_z_is_one::<G>(&cp[**i])).count();
                let n_un = idx.len() - n_id - n_norm;
                if idx.is_empty() {
                    info.class("batch:empty");
                } else {
                    if n_id > 0 {
                        info.class("batch:with-identity");
                        exceptional += 1;
                    }
                    if n_norm > 0 && n_un > 0 {
                        info.class("batch:mixed-normalized-unnormalized");
                        exceptional += 1;
                    }
                    if n_un == 0 {
                        info.class("batch:nothing-to-do");
                    }
                    if n_un >= 2 {
                        info.class("batch:>=2-unnormalized");
                    }
                }
                cr("batch_normalization", || G::op_batch(&mut v))?;
                for (k, i) in idx.iter().enumerate() {
                    cmp_proj::<G>("batch_normalization", step, &v[k], &mp[*i])?;
                    if !mp[*i].is_inf() && !proj_z_is_one::<G>(&v[k]) {
                        return Err(format!("step {}: batch_normalization left entry {} with Z != 1", step, k));
                    }
                    let norm = cr("is_normalized", || G::op_is_normalized(&v[k]))?;
                    if !norm {
                        return Err(format!("step {}: entry {} not is_normalized() after batch_normalization", step, k));
                    }
                    cp[*i] = v[k];
                }
            }
            Op::Eq(i, j) => {
                let (i, j) = (*i as usize % np, *j as usize % np);
                let (a, b) = (cp[i], cp[j]);
                let eq = cr("==", || G::op_eq(&a, &b))?;
                let ne = cr("!=", || G::op_ne(&a, &b))?;
                let want = mp[i] == mp[j];
                if want && !mp[i].is_inf() {
                    let (_, _, z1) = a.as_tuple();
                    let (_, _, z2) = b.as_tuple();
                    if G::f_m(z1) != G::f_m(z2) {
                        info.class("eq:equal-points-different-representatives");
                        exceptional += 1;
                    } else {
                        info.class("eq:equal-same-representative");
                    }
                } else if want {
                    info.class("eq:both-identity");
                } else if mp[i] == curve.neg(&mp[j]) {
                    info.class("eq:inverse-points (same x)");
                    exceptional += 1;
                } else {
                    info.class("eq:different");
                }
                if eq != want || ne == want {
                    return Err(format!(
                        "step {}: projective == says {} (!= says {}) but the points are {} and {}",
                        step,
                        eq,
                        ne,
                        pt_brief(&mp[i]),
                        pt_brief(&mp[j])
                    ));
                }
            }
            Op::EqAff(i, j) => {
                let (i, j) = (*i as usize % na, *j as usize % na);
                let (a, b) = (ca[i], ca[j]);
                let eq = cr("affine ==", || G::op_aff_eq(&a, &b))?;
                if eq != (ma[i] == ma[j]) {
                    return Err(format!("step {}: affine == says {} for {} and {}", step, eq, pt_brief(&ma[i]), pt_brief(&ma[j])));
                }
            }
            Op::IsZero(i) => {
                let i = *i as usize % np;
                let t = cp[i];
                let zc = cr("is_zero", || G::op_is_zero(&t))?;
                if zc != mp[i].is_inf() {
                    return Err(format!("step {}: is_zero() = {} for {}", step, zc, pt_brief(&mp[i])));
                }
                let ta = G::op_to_affine(&t);
                if G::op_aff_is_zero(&ta) != mp[i].is_inf() {
                    return Err(format!("step {}: affine is_zero() wrong for {}", step, pt_brief(&mp[i])));
                }
            }
            Op::IsNormalized(i) => {
                let i = *i as usize % np;
                let t = cp[i];
                // only the sound direction is required: a point reported as normalized must allow the
                // cheap affine conversion, i.e. have Z in {0, 1}
                let n = cr("is_normalized", || G::op_is_normalized(&t))?;
                let cheap = mp[i].is_inf() || proj_z_is_one::<G>(&t);
                if n && !cheap {
                    return Err(format!("step {}: is_normalized() is true for a representative with Z not in {{0,1}}", step));
                }
            }
            Op::Copy(i, j) => {
                let (i, j) = (*i as usize % np, *j as usize % np);
                cp[i] = cp[j];
                mp[i] = mp[j].clone();
            }
        }
    }
    // final sweep: every register still agrees with the abstract group
    for i in 0..np {
        cmp_proj::<G>("final state", prog.ops.len(), &cp[i], &mp[i])?;
        if !curve.on_curve(&mp[i]) {
            return Err("model left the curve (harness bug)".into());
        }
    }
    for j in 0..na {
        cmp_aff::<G>("final state", prog.ops.len(), &ca[j], &ma[j])?;
    }
    info.nt_if(exceptional > 0);
    Ok(())
}

fn check(prog: &Prog, info: &mut Info) -> Result<(), String> {
    if prog.group == 0 {
        run_prog::<G1m>(prog, info)
    } else {
        run_prog::<G2m>(prog, info)
    }
}

crate::long_sub!(run_long_history, [26]);

pub fn def() -> PropDef {
    PropDef {
        id: "C01",
        rule: "programs of 0..32 group operations over 6 projective + 3 affine registers per group, initial points from every class (identity incl. junk representatives, small multiples of the generator, subgroup, full-curve, each small prime order dividing the cofactor, order l*r, negated, same-y (beta x, y)) in generated Jacobian representatives; crate and affine chord-and-tangent model stepped in lock-step and compared after every step. Non-trivial = the program executes at least one exceptional-branch operation as judged by the model (identity operand, P=Q, P=Q in different representatives, P=-Q, same-y/different-x, order-3 doubling, batch with identity / mixed normalized entries, equality of equal points in different representatives); distinct = distinct programs",
        needs_pairing: false,
        subs: vec![
            Box::new(crate::engine::EnumSub { name: "long-history", rule: super::longhist::RULE, run: run_long_history, replay: super::longhist::replay, exhaustive: false }),
            Box::new(crate::engine::EnumSub { name: "two-input-bursts", rule: super::longhist::BURST_RULE, run: run_two_input_bursts, replay: super::longhist::replay_burst, exhaustive: false }),
            Box::new(Sub { name: "g1-programs", rule: "G1 register-machine programs vs model", quick: 12_000, thorough: 150_000, strategy: || boxed(strat_g1()), check }),
            Box::new(Sub { name: "g2-programs", rule: "G2 register-machine programs vs model", quick: 12_000, thorough: 150_000, strategy: || boxed(strat_g2()), check }),
        ],
        assumptions: COMMON_ASSUMPTIONS.to_vec(),
    }
}
