//! C17 - cofactor clearing is multiplication by the RFC h_eff on the whole curve.

use super::{PropDef, COMMON_ASSUMPTIONS};
use crate::adapt::*;
use crate::engine::{boxed, cr, Info, Sub};
use crate::recipes::*;
use pairing_plus::bls12_381 as crt;
use pairing_plus::bls12_381::verif_hooks::{chain_h2_eff, chain_z, ClearH};
use pairing_plus::CurveProjective;
use proptest::prelude::*;
use refmodel::consts::C;
use refmodel::enc::{in_subgroup, EncFld};
use refmodel::fld::SqrtFld;
use serde::{Deserialize, Serialize};

#[derive(Clone, Debug, Serialize, Deserialize, PartialEq, Eq, Hash)]
pub struct ClearCase {
    pub group: u8,
    pub p: PointR,
    pub rep: RepR,
    pub q: PointR,
    pub check_chains: bool,
}

fn clear_case_strategy(group: u8) -> BoxedStrategy<ClearCase> {
    (point_strategy(true), rep_strategy(), point_strategy(true), proptest::bool::weighted(0.3)).prop_map(move |(p, rep, q, check_chains)| ClearCase { group, p, rep, q, check_chains }).boxed()
}

pub trait ClearGrp: HasPool {
    fn clear(p: &mut Self::Proj);
}
impl ClearGrp for G1m {
    fn clear(p: &mut crt::G1) {
        p.clear_h()
    }
}
impl ClearGrp for G2m {
    fn clear(p: &mut crt::G2) {
        p.clear_h()
    }
}

fn check_clear<G: ClearGrp>(c: &ClearCase, info: &mut Info) -> Result<(), String>
where
    G::F: SqrtFld + EncFld,
{
    let curve = G::curve();
    let heff = heff_of::<G>();
    let pm = c.p.build::<G>();
    let qm = c.q.build::<G>();
    info.class(c.p.class());
    info.nt_if(!c.p.in_subgroup());
    let want = curve.mul(&heff, &pm);
    let mut v = rep_build::<G>(&pm, &c.rep);
    cr("clear_h", || G::clear(&mut v))?;
    let got = proj_m::<G>(&v);
    if got != want {
        return Err(format!("{} clear_h({}) [representative {:?}]: crate {} but [h_eff]P = {}", G::NAME, pt_brief(&pm), c.rep, pt_brief(&got), pt_brief(&want)));
    }
    if !in_subgroup::<G::F>(&got) {
        return Err(format!("{} clear_h({}) is not in the order-r subgroup", G::NAME, pt_brief(&pm)));
    }
    if want.is_inf() && !pm.is_inf() {
        info.class("non-identity-point-cleared-to-identity");
    }
    // additivity
    let sum = curve.add(&pm, &qm);
    let mut vs = proj_c::<G>(&sum);
    cr("clear_h", || G::clear(&mut vs))?;
    let mut vq = proj_c::<G>(&qm);
    cr("clear_h", || G::clear(&mut vq))?;
    if proj_m::<G>(&vs) != curve.add(&got, &proj_m::<G>(&vq)) {
        return Err(format!("{} clear_h is not additive on P = {}, Q = {}", G::NAME, pt_brief(&pm), pt_brief(&qm)));
    }
    if c.check_chains {
        info.class("chains-checked");
        let inp = rep_build::<G>(&pm, &c.rep);
        let mut out = G::Proj::zero();
        cr("chain_z", || chain_z(&mut out, &inp))?;
        let wz = curve.mul(&C().x_abs, &pm);
        if proj_m::<G>(&out) != wz {
            return Err(format!("{} chain_z({}) = {} but [|x|]P = {}", G::NAME, pt_brief(&pm), pt_brief(&proj_m::<G>(&out)), pt_brief(&wz)));
        }
        let mut out = G::Proj::zero();
        cr("chain_h2_eff", || chain_h2_eff(&mut out, &inp))?;
        let wh = curve.mul(&C().heff2, &pm);
        if proj_m::<G>(&out) != wh {
            return Err(format!("{} chain_h2_eff({}) = {} but [3(x^2-1)h2]P = {}", G::NAME, pt_brief(&pm), pt_brief(&proj_m::<G>(&out)), pt_brief(&wh)));
        }
    }
    Ok(())
}

fn check_clear_any(c: &ClearCase, info: &mut Info) -> Result<(), String> {
    if c.group == 0 {
        check_clear::<G1m>(c, info)
    } else {
        check_clear::<G2m>(c, info)
    }
}

/// the same point in several representatives / negated, back to back
#[derive(Clone, Debug, Serialize, Deserialize, PartialEq, Eq, Hash)]
pub struct ClearSeq {
    pub base: ClearCase,
    pub steps: Vec<(RepR, bool)>,
}

fn clear_seq_strategy() -> BoxedStrategy<ClearSeq> {
    (prop_oneof![3 => clear_case_strategy(0), 1 => clear_case_strategy(1)], proptest::collection::vec((rep_strategy(), any::<bool>()), 1..3)).prop_map(|(base, steps)| ClearSeq { base, steps }).boxed()
}

fn check_clear_seq(c: &ClearSeq, info: &mut Info) -> Result<(), String> {
    let mut tmp = Info::default();
    let mut base = c.base.clone();
    base.check_chains = false;
    check_clear_any(&base, &mut tmp)?;
    for (i, (rep, neg)) in c.steps.iter().enumerate() {
        let mut case = base.clone();
        case.rep = rep.clone();
        if *neg {
            case.p = PointR::Neg(Box::new(case.p));
        }
        let mut tmp = Info::default();
        check_clear_any(&case, &mut tmp).map_err(|m| format!("call #{} after clearing a related point first: {}", i + 1, m))?;
    }
    info.nt();
    Ok(())
}

crate::long_sub!(run_long_history, [3, 4]);

pub fn def() -> PropDef {
    PropDef {
        id: "C17",
        rule: "points of the full curve groups E(Fq), E'(Fq2): identity, subgroup points, uniform full-curve points, points of each small prime order dividing the cofactor, of order l*r, negated, same-y, in generated Jacobian representatives; a second point for additivity. Oracle: model [h_eff]P with h_eff = 1 - x resp. 3(x^2-1)h2 computed from x, model subgroup test, additivity with the model law, chain_z(P) = [|x|]P and chain_h2_eff(P) = [3(x^2-1)h2]P through the hook wrappers on a third of the cases. Non-trivial = P outside the order-r subgroup; distinct = distinct cases",
        needs_pairing: false,
        subs: vec![
            Box::new(crate::engine::EnumSub { name: "long-history", rule: super::longhist::RULE, run: run_long_history, replay: super::longhist::replay, exhaustive: false }),
            Box::new(crate::engine::EnumSub { name: "two-input-bursts", rule: super::longhist::BURST_RULE, run: run_two_input_bursts, replay: super::longhist::replay_burst, exhaustive: false }),
            Box::new(Sub { name: "g1-clear-h", rule: "G1 clear_h vs model [0xd201000000010001]P", quick: 3_000, thorough: 40_000, strategy: || boxed(clear_case_strategy(0)), check: check_clear_any }),
            Box::new(Sub { name: "related-sequences", rule: "the same point in other representatives / negated, cleared back to back, each compared with the model", quick: 300, thorough: 15_000, strategy: || boxed(clear_seq_strategy()), check: check_clear_seq }),
            Box::new(Sub { name: "g2-clear-h", rule: "G2 clear_h vs model [3(x^2-1)h2]P", quick: 500, thorough: 8_000, strategy: || boxed(clear_case_strategy(1)), check: check_clear_any }),
        ],
        assumptions: {
            let mut v = COMMON_ASSUMPTIONS.to_vec();
            v.push("generated points observe the multiplier modulo the group exponent of the full curve group, which is the observable content of 'returns [h_eff]P for every P'");
            v
        },
    }
}
