from ec import *
# flat Fq12 = Fq[w]/(w^12 - 2 w^6 + 2)
def f12_mul(a,b):
    t=[0]*23
    for i,x_ in enumerate(a):
        if x_==0: continue
        for j,y_ in enumerate(b):
            t[i+j]+=x_*y_
    # reduce: w^12 = 2 w^6 - 2
    for k in range(22,11,-1):
        c=t[k]
        if c:
            t[k-6]+=2*c; t[k-12]-=2*c
    return [v%q for v in t[:12]]
def f12_add(a,b): return [(x_+y_)%q for x_,y_ in zip(a,b)]
def f12_sub(a,b): return [(x_-y_)%q for x_,y_ in zip(a,b)]
def f12_neg(a): return [(-x_)%q for x_ in a]
ONE=[1]+[0]*11; ZERO=[0]*12
def f12_pow(a,e):
    r=ONE
    for bit in bin(e)[2:]:
        r=f12_mul(r,r)
        if bit=='1': r=f12_mul(r,a)
    return r
# polynomial inverse via extended Euclid over Fq
def pdeg(p):
    d=len(p)-1
    while d>=0 and p[d]%q==0: d-=1
    return d
def pdivmod(a,b):
    a=a[:]; db=pdeg(b); inv=pow(b[db],-1,q); qt=[0]*(max(len(a)-db,1))
    while pdeg(a)>=db:
        da=pdeg(a); c=a[da]*inv%q; qt[da-db]=c
        for i in range(db+1): a[da-db+i]=(a[da-db+i]-c*b[i])%q
    return qt,a
def pmul(a,b):
    t=[0]*(len(a)+len(b)-1)
    for i,x_ in enumerate(a):
        for j,y_ in enumerate(b): t[i+j]=(t[i+j]+x_*y_)%q
    return t
def padd(a,b):
    n=max(len(a),len(b)); return [((a[i] if i<len(a) else 0)+(b[i] if i<len(b) else 0))%q for i in range(n)]
def psub(a,b):
    n=max(len(a),len(b)); return [((a[i] if i<len(a) else 0)-(b[i] if i<len(b) else 0))%q for i in range(n)]
MOD=[2,0,0,0,0,0,(-2)%q,0,0,0,0,0,1]
def f12_inv(a):
    r0,r1=MOD[:],a[:]; s0,s1=[0],[1]
    while pdeg(r1)>0:
        qt,rem=pdivmod(r0,r1)
        r0,r1=r1,rem
        s0,s1=s1,psub(s0,pmul(qt,s1))
    c=pow(r1[0],-1,q)
    res=[v*c%q for v in s1]
    _,res=pdivmod(res+[0]*(13-len(res)) if len(res)<13 else res,MOD)
    res=(res+[0]*12)[:12]
    assert f12_mul(res,a)==ONE
    return res
class F12:
    add=staticmethod(f12_add); sub=staticmethod(f12_sub); mul=staticmethod(f12_mul); neg=staticmethod(f12_neg); inv=staticmethod(f12_inv)
    zero=ZERO; one=ONE
    @staticmethod
    def is_zero(a): return all(v%q==0 for v in a)
    @staticmethod
    def from_int(n): return [n%q]+[0]*11
def fq2_to_12(a,k=0):
    # (a0 + a1 u) * w^k, u=w^6-1, k<6
    t=[0]*12; t[k]=(a[0]-a[1])%q; t[k+6]=a[1]%q; return t
def tower_to_flat(c):
    # c[i][j] = fq2 coefficient of v^j w^i
    t=ZERO
    for i in range(2):
        for j in range(3):
            t=f12_add(t,fq2_to_12(c[i][j],2*j+i))
    return t
E12=Curve(F12,ZERO,F12.from_int(4))
winv=f12_inv([0,1]+[0]*10)
w2i=f12_mul(winv,winv); w3i=f12_mul(w2i,winv)
def untwist(Q):
    return (f12_mul(fq2_to_12(Q[0]),w2i), f12_mul(fq2_to_12(Q[1]),w3i))
def line(E,T,Q,P):
    # value at P of line through T and Q (T==Q tangent); returns (value, T+Q)
    F=E.F
    if T[0]==Q[0] and T[1]!=Q[1]:
        return F.sub(P[0],T[0]), None
    if T==Q: lam=F.mul(F.mul(F.from_int(3),F.mul(T[0],T[0])),F.inv(F.mul(F.from_int(2),T[1])))
    else: lam=F.mul(F.sub(Q[1],T[1]),F.inv(F.sub(Q[0],T[0])))
    val=F.sub(F.sub(P[1],T[1]),F.mul(lam,F.sub(P[0],T[0])))
    return val,E.add(T,Q)
def miller(P1,Q2):
    # f_{|x|,Q}(P), P in E(Fq) embedded, Q untwisted
    P=(F12.from_int(P1[0]),F12.from_int(P1[1])); Q=untwist(Q2)
    assert E12.on(Q) and E12.on(P)
    n=-x
    f=ONE; T=Q
    for bit in bin(n)[3:]:
        l,T2=line(E12,T,T,P); f=f12_mul(f12_mul(f,f),l); T=T2
        if bit=='1':
            l,T2=line(E12,T,Q,P); f=f12_mul(f,l); T=T2
    return f
def conj(f):
    # f^(q^6): w -> -w
    return [(-v)%q if i%2 else v for i,v in enumerate(f)]
def pairing(P,Q,three=True):
    f=conj(miller(P,Q))
    e=(q**12-1)//r
    if three: e*=3
    return f12_pow(f,e)
G1x=3685416753713387016781088315183077757961620795782546409894578378688607592378376318836054947676345821548104185464507
G1y=1339506544944476473020471379941921221584933875938349620426543736416511423956333506472724655353366534992391756441569
G2x=(352701069587466618187139116011060144890029952792775240219908644239793785735715026873347600343865175952761926303160,3059144344244213709971259814753781636986470325476647558659373206291635324768958432433509563104347017837885763365758)
G2y=(1985150602287291935568054521177171638300868978215655730859378665066344726373823718423869104263333984641494340347905,927553665492332455747201965776037880757740193453592970025027978793976877002675564980949289727957565575433344219582)
if __name__=="__main__":
    import time
    assert E1.on((G1x,G1y)) and E2.on((G2x,G2y))
    t=time.time()
    e=pairing((G1x,G1y),(G2x,G2y))
    print("time",time.time()-t)
    crate=[[(0x1250ebd871fc0a92a7b2d83168d0d727272d441befa15c503dd8e90ce98db3e7b6d194f60839c508a84305aaca1789b6,0x089a1c5b46e5110b86750ec6a532348868a84045483c92b7af5af689452eafabf1a8943e50439f1d59882a98eaa0170f),
            (0x1368bb445c7c2d209703f239689ce34c0378a68e72a6b3b216da0e22a5031b54ddff57309396b38c881c4c849ec23e87,0x193502b86edb8857c273fa075a50512937e0794e1e65a7617c90d8bd66065b1fffe51d7a579973b1315021ec3c19934f),
            (0x01b2f522473d171391125ba84dc4007cfbf2f8da752f7c74185203fcca589ac719c34dffbbaad8431dad1c1fb597aaa5,0x018107154f25a764bd3c79937a45b84546da634b8f6be14a8061e55cceba478b23f7dacaa35c8ca78beae9624045b4b6)],
           [(0x19f26337d205fb469cd6bd15c3d5a04dc88784fbb3d0b2dbdea54d43b2b73f2cbb12d58386a8703e0f948226e47ee89d,0x06fba23eb7c5af0d9f80940ca771b6ffd5857baaf222eb95a7d2809d61bfe02e1bfd1b68ff02f0b8102ae1c2d5d5ab1a),
            (0x11b8b424cd48bf38fcef68083b0b0ec5c81a93b330ee1a677d0d15ff7b984e8978ef48881e32fac91b93b47333e2ba57,0x03350f55a7aefcd3c31b4fcb6ce5771cc6a0e9786ab5973320c806ad360829107ba810c5a09ffdd9be2291a0c25a99a2),
            (0x04c581234d086a9902249b64728ffd21a189e87935a954051c7cdba7b3872629a4fafc05066245cb9108f0242d0fe3ef,0x0f41e58663bf08cf068672cbd01a7ec73baca4d72ca93544deff686bfd6df543d48eaa24afe47e1efde449383b676631)]]
    cf=tower_to_flat(crate)
    print("textbook == crate:", e==cf)
    if e!=cf:
        # try powers
        for lam in range(1,7):
            print(lam, f12_pow(e,lam)==cf)
