import random
from consts import *
# Fq2 as tuples (a,b) = a + b*u, u^2=-1
class F1:
    @staticmethod
    def add(a,b): return (a+b)%q
    @staticmethod
    def sub(a,b): return (a-b)%q
    @staticmethod
    def mul(a,b): return a*b%q
    @staticmethod
    def neg(a): return (-a)%q
    @staticmethod
    def inv(a): return pow(a,-1,q)
    zero=0; one=1
    @staticmethod
    def is_zero(a): return a%q==0
    @staticmethod
    def rand(rng): return rng.randrange(q)
    @staticmethod
    def sqrt(a):
        s=pow(a,(q+1)//4,q)
        return s if s*s%q==a%q else None
    @staticmethod
    def from_int(n): return n%q
class F2:
    @staticmethod
    def add(a,b): return ((a[0]+b[0])%q,(a[1]+b[1])%q)
    @staticmethod
    def sub(a,b): return ((a[0]-b[0])%q,(a[1]-b[1])%q)
    @staticmethod
    def mul(a,b): return ((a[0]*b[0]-a[1]*b[1])%q,(a[0]*b[1]+a[1]*b[0])%q)
    @staticmethod
    def neg(a): return ((-a[0])%q,(-a[1])%q)
    @staticmethod
    def inv(a):
        n=pow(a[0]*a[0]+a[1]*a[1],-1,q); return (a[0]*n%q,(-a[1]*n)%q)
    zero=(0,0); one=(1,0)
    @staticmethod
    def is_zero(a): return a[0]%q==0 and a[1]%q==0
    @staticmethod
    def rand(rng): return (rng.randrange(q),rng.randrange(q))
    @staticmethod
    def pow(a,e):
        r=(1,0)
        while e:
            if e&1: r=F2.mul(r,a)
            a=F2.mul(a,a); e>>=1
        return r
    @staticmethod
    def sqrt(a):
        if F2.is_zero(a): return (0,0)
        # via norm: a = x+yu; 
        n=(a[0]*a[0]+a[1]*a[1])%q
        s=F1.sqrt(n)
        if s is None: return None
        inv2=pow(2,-1,q)
        for sg in (s,(-s)%q):
            t=(a[0]+sg)*inv2%q
            c=F1.sqrt(t)
            if c is None: continue
            if c==0: continue
            d=a[1]*pow(2*c,-1,q)%q
            if F2.mul((c,d),(c,d))==(a[0]%q,a[1]%q): return (c,d)
        # a real negative etc
        # try pure imaginary root
        t=F1.sqrt((-a[0])%q)
        if a[1]%q==0 and t is not None: return (0,t)
        return None
    @staticmethod
    def from_int(n): return (n%q,0)

class Curve:
    def __init__(s,F,a,b): s.F=F; s.a=a; s.b=b
    def on(s,P):
        if P is None: return True
        F=s.F; x,y=P
        return F.mul(y,y)==F.add(F.add(F.mul(F.mul(x,x),x),F.mul(s.a,x)),s.b)
    def neg(s,P):
        return None if P is None else (P[0],s.F.neg(P[1]))
    def add(s,P,Q):
        F=s.F
        if P is None: return Q
        if Q is None: return P
        if P[0]==Q[0]:
            if P[1]==Q[1] and not F.is_zero(P[1]):
                lam=F.mul(F.add(F.mul(F.from_int(3),F.mul(P[0],P[0])),s.a),F.inv(F.mul(F.from_int(2),P[1])))
            else: return None
        else:
            lam=F.mul(F.sub(Q[1],P[1]),F.inv(F.sub(Q[0],P[0])))
        x3=F.sub(F.sub(F.mul(lam,lam),P[0]),Q[0])
        y3=F.sub(F.mul(lam,F.sub(P[0],x3)),P[1])
        return (x3,y3)
    def mul(s,k,P):
        if k<0: return s.mul(-k,s.neg(P))
        R=None
        for bit in bin(k)[2:] if k else "":
            R=s.add(R,R)
            if bit=='1': R=s.add(R,P)
        return R
    def rand_point(s,rng):
        F=s.F
        while True:
            x=F.rand(rng)
            rhs=F.add(F.add(F.mul(F.mul(x,x),x),F.mul(s.a,x)),s.b)
            y=F.sqrt(rhs)
            if y is not None:
                if rng.random()<0.5: y=F.neg(y)
                return (x,y)
E1=Curve(F1,0,4)
E2=Curve(F2,(0,0),(4,4))
h1=(x-1)**2//3
h2=(x**8-4*x**7+5*x**6-4*x**4+6*x**3-4*x**2-4*x+13)//9
A1p=0x144698a3b8e9433d693a02c96d4982b0ea985383ee66a8d8e8981aefd881ac98936f8da0e0f97f5cf428082d584c1d
B1p=0x12e2908d11688030018b12e8753eee3b2016c1f0f24f4070a0b9c14fcef35ef55a23215a316ceaa5d1cc48e98e172be0
E1p=Curve(F1,A1p,B1p)
E2p=Curve(F2,(0,240),(1012,1012))
if __name__=="__main__":
    rng=random.Random(1)
    for name,E,n in (("E1",E1,h1*r),("E2",E2,h2*r),("E1'",E1p,h1*r),("E2'",E2p,h2*r)):
        P=E.rand_point(rng); assert E.on(P)
        assert E.mul(n,P) is None, name
        print(name,"order ok")
