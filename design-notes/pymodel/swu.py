from iso import *
def sgn0_1(a): return a%q%2
def sgn0_2(a):
    return a[0]%2 if a[0]%q!=0 else a[1]%2
def is_square_1(a): return a%q==0 or pow(a,(q-1)//2,q)==1
def is_square_2(a):
    n=(a[0]*a[0]+a[1]*a[1])%q
    return n==0 or pow(n,(q-1)//2,q)==1
def swu(F,E,Z,u,is_sq,sgn0):
    A,B=E.a,E.b
    u2=F.mul(u,u); zu2=F.mul(Z,u2)
    d=F.add(F.mul(zu2,zu2),zu2)
    if F.is_zero(d):
        x1=F.mul(B,F.inv(F.mul(Z,A)))
    else:
        x1=F.mul(F.mul(F.neg(B),F.inv(A)),F.add(F.one,F.inv(d)))
    g=lambda x_: F.add(F.add(F.mul(F.mul(x_,x_),x_),F.mul(A,x_)),B)
    gx1=g(x1)
    if is_sq(gx1):
        x_=x1; y=F.sqrt(gx1)
    else:
        x_=F.mul(zu2,x1); y=F.sqrt(g(x_))
    assert y is not None
    if sgn0(u)!=sgn0(y): y=F.neg(y)
    return (x_,y)
Z1=11
Z2=((-2)%q,(-1)%q)
def swu1(u): return swu(F1,E1p,Z1,u,is_square_1,sgn0_1)
def swu2(u): return swu(F2,E2p,Z2,u,is_square_2,sgn0_2)
heff1=0xd201000000010001
heff2=h2*3*(x*x-1)
def map1(u): return E1.mul(heff1,iso(F1,c1,swu1(u)))
def map2(u): return E2.mul(heff2,iso(F2,c2,swu2(u)))
if __name__=="__main__":
    rng=random.Random(5)
    def h(v): return '%096x'%v
    out=[]
    n=h1*r
    P=E1p.rand_point(rng); S=E1p.mul(n//121,P); T=E1p.mul(11,S)
    out.append(("T",T)); out.append(("S",S)); out.append(("isoS",iso(F1,c1,S)))
    P=E1.rand_point(rng); out.append(("P1",P)); out.append(("hP1",E1.mul(heff1,P)))
    P3=E1.mul(n//3,P); 
    while P3 is None:
        P=E1.rand_point(rng); P3=E1.mul(n//3,P)
    out.append(("P1o3",P3))
    uex=F1.sqrt((-pow(11,-1,q))%q); out.append(("uex",(uex,0))); out.append(("swu_uex",swu1(uex)))
    u=rng.randrange(q); out.append(("u",(u,0))); out.append(("swu_u",swu1(u))); out.append(("map_u",map1(u)))
    for k,v in out: print(k,h(v[0]),h(v[1]))
    P=E2.rand_point(rng); hp=E2.mul(heff2,P)
    print("P2",h(P[0][0]),h(P[0][1]),h(P[1][0]),h(P[1][1]))
    print("hP2",h(hp[0][0]),h(hp[0][1]),h(hp[1][0]),h(hp[1][1]))
    u=F2.rand(rng); s=swu2(u); m=map2(u)
    print("u2",h(u[0]),h(u[1]))
    print("swu_u2",h(s[0][0]),h(s[0][1]),h(s[1][0]),h(s[1][1]))
    print("map_u2",h(m[0][0]),h(m[0][1]),h(m[1][0]),h(m[1][1]))
