from ec import *
from consts import consts_in
c1=consts_in('/repo/src/bls12_381/isogeny/g1.rs',['XNUM','XDEN','YNUM','YDEN'])
for k,v in c1.items(): print(k,len(v),hex(v[0])[:40])
c2=consts_in('/repo/src/bls12_381/isogeny/g2.rs',['XNUM','XDEN','YNUM','YDEN'])
c2={k:[(v[i],v[i+1]) for i in range(0,len(v),2)] for k,v in c2.items()}
for k,v in c2.items(): print(k,len(v),[ (hex(a)[:24],hex(b)[:24]) for a,b in v])
def horner(F,cs,x):
    acc=F.zero
    for c in reversed(cs): acc=F.add(F.mul(acc,x),c)
    return acc
def iso(F,c,P):
    if P is None: return None
    x,y=P
    xn=horner(F,c['XNUM'],x); xd=horner(F,c['XDEN'],x); yn=horner(F,c['YNUM'],x); yd=horner(F,c['YDEN'],x)
    if F.is_zero(xd) or F.is_zero(yd): return None
    return (F.mul(xn,F.inv(xd)), F.mul(y,F.mul(yn,F.inv(yd))))
if __name__=="__main__":
    rng=random.Random(3)
    P=E1p.rand_point(rng); Q=E1p.rand_point(rng)
    assert E1.on(iso(F1,c1,P))
    assert E1.add(iso(F1,c1,P),iso(F1,c1,Q))==iso(F1,c1,E1p.add(P,Q))
    n=h1*r
    S=E1p.mul(n//121,P); T=E1p.mul(11,S)
    print("T nonzero",T is not None,"iso(T)=",iso(F1,c1,T))
    print("xden(T.x)=",horner(F1,c1['XDEN'],T[0]))
    P=E2p.rand_point(rng); Q=E2p.rand_point(rng)
    assert E2.on(iso(F2,c2,P))
    assert E2.add(iso(F2,c2,P),iso(F2,c2,Q))==iso(F2,c2,E2p.add(P,Q))
    print("iso homomorphism ok")
    # check against recalled RFC constants
    print(hex(c1['XNUM'][0]))
    print([ (hex(a),hex(b)) for a,b in c2['XNUM']])
    # degree of tables
    print({k:len(v) for k,v in c1.items()},{k:len(v) for k,v in c2.items()})
