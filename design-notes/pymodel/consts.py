import re, sys
q = 0x1a0111ea397fe69a4b1ba7b6434bacd764774b84f38512bf6730d2a0f6b0f6241eabfffeb153ffffb9feffffffffaaab
r = 0x73eda753299d7d483339d80809a1d80553bda402fffe5bfeffffffff00000001
x = -0xd201000000010000
R = pow(2,384,q); Rinv = pow(R,-1,q)
def parse_fq_blocks(text):
    # returns list of ints for each FqRepr([...]) occurrence
    out=[]
    for m in re.finditer(r'FqRepr\(\[\s*((?:0x[0-9a-fA-F_]+(?:u64)?\s*,?\s*){6})\]\)', text):
        limbs=[int(s.replace('u64','').replace('_',''),16) for s in re.findall(r'0x[0-9a-fA-F_]+', m.group(1))]
        v=sum(l<<(64*i) for i,l in enumerate(limbs))
        out.append(v*Rinv%q)
    return out
def consts_in(path, names):
    text=open(path).read()
    res={}
    for n in names:
        m=re.search(r'const '+n+r'\b[^=]*=\s*', text)
        # find end: next "\nconst " or "\npub" or "\nimpl"
        start=m.end()
        m2=re.search(r'\n(?:pub(?:\([a-z]+\))? )?(?:const|impl|#\[)', text[start:])
        end=start+(m2.start() if m2 else len(text)-start)
        res[n]=parse_fq_blocks(text[start:end])
    return res
if __name__=="__main__":
    assert q == (x-1)**2*(x**4-x**2+1)//3+x
    assert r == x**4-x**2+1
    h1=(x-1)**2//3
    h2=(x**8-4*x**7+5*x**6-4*x**4+6*x**3-4*x**2-4*x+13)//9
    print("h1",hex(h1)); print("h2",hex(h2))
    from sympy import factorint
    print(factorint(h1))
    print(factorint(h2, limit=10**7))
    heff2 = h2*3*(x*x-1)
    print("heff2", hex(heff2))
    print("q mod 4", q%4, "q mod 3", q%3)
