# design-time check of the homogeneous projective formulas planned for the reference
# model's *fast* scalar multiplication (validated against the affine definition).
from ec import *
def padd(E,P,Q):
    F=E.F
    X1,Y1,Z1=P; X2,Y2,Z2=Q
    if F.is_zero(Z1): return Q
    if F.is_zero(Z2): return P
    u=F.sub(F.mul(Y2,Z1),F.mul(Y1,Z2)); v=F.sub(F.mul(X2,Z1),F.mul(X1,Z2))
    if F.is_zero(v):
        if F.is_zero(u): return pdbl(E,P)
        return (F.zero,F.one,F.zero)
    v2=F.mul(v,v); v3=F.mul(v2,v); z12=F.mul(Z1,Z2)
    w=F.sub(F.sub(F.mul(F.mul(u,u),z12),v3),F.mul(F.from_int(2),F.mul(v2,F.mul(X1,Z2))))
    X3=F.mul(v,w)
    Y3=F.sub(F.mul(u,F.sub(F.mul(v2,F.mul(X1,Z2)),w)),F.mul(v3,F.mul(Y1,Z2)))
    Z3=F.mul(v3,z12)
    return (X3,Y3,Z3)
def pdbl(E,P):
    F=E.F
    X,Y,Z=P
    if F.is_zero(Z) or F.is_zero(Y): return (F.zero,F.one,F.zero)
    w=F.add(F.mul(E.a,F.mul(Z,Z)),F.mul(F.from_int(3),F.mul(X,X)))
    s=F.mul(Y,Z); B=F.mul(F.mul(X,Y),s)
    h=F.sub(F.mul(w,w),F.mul(F.from_int(8),B))
    X3=F.mul(F.from_int(2),F.mul(h,s))
    Y3=F.sub(F.mul(w,F.sub(F.mul(F.from_int(4),B),h)),F.mul(F.from_int(8),F.mul(F.mul(Y,Y),F.mul(s,s))))
    Z3=F.mul(F.from_int(8),F.mul(s,F.mul(s,s)))
    return (X3,Y3,Z3)
def pmul(E,k,P):
    F=E.F
    R=(F.zero,F.one,F.zero)
    if P is None: return None
    Pp=(P[0],P[1],F.one)
    for bit in bin(k)[2:] if k else "":
        R=pdbl(E,R)
        if bit=='1': R=padd(E,R,Pp)
    if F.is_zero(R[2]): return None
    zi=F.inv(R[2]); return (F.mul(R[0],zi),F.mul(R[1],zi))
if __name__=="__main__":
    rng=random.Random(2)
    for name,E,n in (("E1",E1,h1*r),("E2",E2,h2*r),("E1'",E1p,h1*r),("E2'",E2p,h2*r)):
        for _ in range(3):
            P=E.rand_point(rng); k=rng.randrange(2**255)
            assert pmul(E,k,P)==E.mul(k,P)
        P3=E.mul(n//3,E.rand_point(rng)) if n%3==0 else None
        if P3 is not None:
            for k in (1,2,3,4,5,7): assert pmul(E,k,P3)==E.mul(k,P3)
        assert pmul(E,n,P) is None
        print(name,"projective fast path == affine definition")
