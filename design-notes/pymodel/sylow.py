import random
from ec import *
rng=random.Random(7)
def sylow_structure(E,n,l,e,trials=6):
    # returns max order exponent seen, and whether l-torsion rank 2
    m=n//(l**e)
    pts=[]
    maxk=0
    for _ in range(trials):
        P=E.mul(m,E.rand_point(rng))
        k=0;Q=P
        while Q is not None:
            Q=E.mul(l,Q);k+=1
        maxk=max(maxk,k)
        pts.append((P,k))
    return maxk,[k for _,k in pts]
for name,E,h,fac in (("E1",E1,h1,{3:1,11:2,10177:2,859267:2,52437899:2}),("E1'",E1p,h1,{3:1,11:2,10177:2,859267:2,52437899:2}),
                   ("E2",E2,h2,{13:2,23:2,2713:1,11953:1,262069:1}),("E2'",E2p,h2,{13:2,23:2,2713:1,11953:1,262069:1})):
    n=h*r
    for l,e in fac.items():
        print(name,l,e,sylow_structure(E,n,l,e))
# 3-torsion on E2' ? h2 has no factor 3, so E2'(Fq2) has no 3-torsion => kernel of 3-isogeny not rational
print("h2 mod 3",h2%3, "h1 mod 11", h1%11)
# SWU exceptional u in Fq: u^2 = -1/11
t=(-pow(11,-1,q))%q
print("exceptional u exists in Fq:", F1.sqrt(t) is not None)
# in Fq2: Z=-(2+I); -1/Z square?
Z2=((-2)%q,(-1)%q)
t2=F2.neg(F2.inv(Z2))
print("exceptional u exists in Fq2:", F2.sqrt(t2) is not None)
