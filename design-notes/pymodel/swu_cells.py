# design-time: distribution of the G2 SSWU square-root branch cells (C15 classification rule)
from swu import *
from collections import Counter
rng=random.Random(4)
A,B=E2p.a,E2p.b
def cell(u):
    F=F2
    u2=F.mul(u,u); zu2=F.mul(Z2,u2); d=F.add(F.mul(zu2,zu2),zu2)
    num=F.mul(B,F.add(d,F.one)); den=F.neg(F.mul(A,d))   # x0 = num/den
    gden=F.mul(F.mul(den,den),den)
    gnum=F.add(F.add(F.mul(F.mul(num,num),num),F.mul(A,F.mul(num,F.mul(den,den)))),F.mul(B,gden))
    # candidate c = gnum*gden^7 * (gnum*gden^15)^((q^2-9)/16)
    d2=F.mul(gden,gden); d4=F.mul(d2,d2); d7=F.mul(F.mul(d4,d2),gden); d8=F.mul(d4,d4); d15=F.mul(d8,d7)
    c=F.mul(F.mul(gnum,d7),F.pow(F.mul(gnum,d15),(q*q-9)//16))
    sq=is_square_2(F.mul(gnum,F.inv(gden)))
    zeta=F.mul(gnum,F.inv(F.mul(F.mul(c,c),gden)))   # in mu_8; mu_4 iff g(x0) square
    return sq, zeta, sgn0_2(u)
mu={ (1,0):'1', ((-1)%q,0):'-1', (0,1):'i', (0,(-1)%q):'-i'}
cnt=Counter()
for _ in range(400):
    u=F2.rand(rng)
    sq,z,s=cell(u)
    if sq: lab=mu.get(z,'?')
    else:
        z4=F2.mul(F2.mul(z,z),F2.mul(z,z))
        lab='prim8:'+mu.get(F2.mul(z,z),'?')+('/a' if z[0]<q//2 else '/b')
        assert z4==((-1)%q,0)
    cnt[(sq,lab,s)]+=1
for k in sorted(cnt): print(k,cnt[k])
