from swu import *
rng=random.Random(9)
def partners(F,E,Z,u,swu_f,sgn0):
    # all u' != +-u with swu(u').x == swu(u).x
    A,B=E.a,E.b
    P=swu_f(u)
    X=P[0]
    res=[]
    # solve x1(t)=X  =>  t^2+t = c where 1/c = -A X/B - 1
    d=F.sub(F.neg(F.mul(F.mul(A,X),F.inv(B))),F.one)
    if not F.is_zero(d):
        c=F.inv(d)
        disc=F.add(F.one,F.mul(F.from_int(4),c))
        s=F.sqrt(disc)
        if s is not None:
            inv2=F.inv(F.from_int(2))
            for sg in (s,F.neg(s)):
                t=F.mul(F.sub(sg,F.one),inv2)
                w=F.sqrt(F.mul(t,F.inv(Z)))
                if w is not None and not F.is_zero(w):
                    for cand in (w,F.neg(w)):
                        if swu_f(cand)[0]==X: res.append(cand)
    # solve x2(t) = t*x1(t) = X with g(x1) nonsquare: t*(-B/A)(1+1/(t^2+t)) = X -> (-B/A)(t + 1/(t+1)) = X -> t^2+t+1 = -(A X/B)(t+1)
    k=F.mul(F.mul(A,X),F.inv(B))  # t^2 + (1+k) t + (1+k) = 0
    b_=F.add(F.one,k)
    disc=F.sub(F.mul(b_,b_),F.mul(F.from_int(4),b_))
    s=F.sqrt(disc)
    if s is not None:
        inv2=F.inv(F.from_int(2))
        for sg in (s,F.neg(s)):
            t=F.mul(F.sub(sg,b_),inv2)
            w=F.sqrt(F.mul(t,F.inv(Z)))
            if w is not None and not F.is_zero(w):
                for cand in (w,F.neg(w)):
                    if swu_f(cand)[0]==X: res.append(cand)
    res=[c for c in set(map(lambda v: v if isinstance(v,int) else tuple(v),res))]
    return P,res
for name,F,E,Z,f,sg in (("G1",F1,E1p,Z1,swu1,sgn0_1),("G2",F2,E2p,Z2,swu2,sgn0_2)):
    cnt=0;tot=40;hist={}
    for _ in range(tot):
        u=F.rand(rng)
        P,res=partners(F,E,Z,u,f,sg)
        others=[c for c in res if c!=u and c!=F.neg(u)]
        hist[len(res)]=hist.get(len(res),0)+1
        if others: 
            cnt+=1
            assert all(f(c)[0]==P[0] for c in others)
    print(name,"inputs with a distinct colliding partner:",cnt,"/",tot,"preimage-count histogram",hist)
