from iso import *
rng=random.Random(11)
n=h1*r
for i in range(6):
    P=E1p.rand_point(rng)
    S=E1p.mul(n//121,P); T=E1p.mul(11,S)
    if T is None: print("T zero; S zero?",S is None); continue
    print("T order 11:",E1p.mul(11,T) is None,"xden(T.x)=",horner(F1,c1['XDEN'],T[0]),"iso(S) on E1:",E1.on(iso(F1,c1,S)), "ord iso(S) | 11:", E1.mul(11,iso(F1,c1,S)) is None)
P=E2p.rand_point(rng); Q=E2p.rand_point(rng)
assert E2.on(iso(F2,c2,P))
assert E2.add(iso(F2,c2,P),iso(F2,c2,Q))==iso(F2,c2,E2p.add(P,Q))
print("iso2 homomorphism ok")
# G2 kernel x: xden = x^2 + c1 x + c0 = (x - xT)^2 ?
